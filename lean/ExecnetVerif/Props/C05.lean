/-
C05 — `Group.terminate(timeout)` returns promptly and leaves no local child behind.
Property theorems only; models `Model/Terminate.lean`, `Model/MakeGateway.lean`, `Model/MakeGatewayConc.lean`; helper
lemmas `Proofs/TerminateLemmas.lean`, `Proofs/MakeGatewayConcLemmas.lean`.
-/
import ExecnetVerif.Proofs.TerminateLemmas
import ExecnetVerif.Model.MakeGateway
import ExecnetVerif.Proofs.MakeGatewayConcLemmas
import ExecnetVerif.Generated.Tables
namespace ExecnetVerif
open Terminate

/-! ### pinned constants / structure of the code the model transcribes -/

/-- `wait_timeout = timeout * 2` -/
theorem C05_wait_factor_pinned : Generated.terminateWaitFactor = (waitFactor : Int) := by decide

/-- the loop of `Group.terminate` (test, exit of non-via members, `safe_terminate` over `_gateways_to_join`,
clearing the list), `_unregister` (remove, then append to `_gateways_to_join`) and which time-out each bounded
wait of `safe_terminate` uses -/
theorem C05_loop_pinned :
    Generated.terminateLoopTest = "self or self._gateways_to_join" ∧
    Generated.terminateLoopBody = ["set", "for: add(gw.spec.via)", "for: exit()", "def: join(); wait()",
      "def: kill()", "safe_terminate", "clear _gateways_to_join"] ∧
    Generated.unregisterSteps = ["remove(gateway)", "append(gateway)"] ∧
    Generated.safeTerminateWaits = [("get", "timeout"), ("waitall", "None if timeout is None else timeout * 2"),
      ("waitfinish", "None if timeout is None else timeout * 2")] := by
  decide

/-! ### the loop terminates and empties the group -/

theorem roundElapsed_some (t c : Nat) (js : List Member) : ∃ e, roundElapsed (some t) c js = some e := by
  unfold roundElapsed
  obtain ⟨x, hx, _, _⟩ := waitReplies_bound (t * waitFactor) (t + c) (js.map (termkillFinish (some t) c)) 0 (by
    intro f hf y hy
    obtain ⟨m, _, rfl⟩ := List.mem_map.1 hf
    exact termkillFinish_le t c m y hy)
  simp only [Option.map_some, hx]
  cases allFinish (js.map (memberFinish (some t) c)) with
  | none => exact ⟨_, rfl⟩
  | some y => simp only [waitStep]; split <;> exact ⟨_, rfl⟩

theorem roundStep_group (t c : Nat) (r : Run) (now : Nat) (hc : r.clock = some now) :
    (roundStep (some t) c r).clock.isSome ∧
    (roundStep (some t) c r).g = (if loopTest r.g then ⟨rest r.g.members, []⟩ else r.g) := by
  unfold roundStep
  rw [hc]
  by_cases hl : loopTest r.g = true
  · obtain ⟨e, he⟩ := roundElapsed_some t c (r.g.toJoin ++ leaves r.g.members)
    simp [hl, mkRound, he]
  · simp [hl, hc]

theorem terminateRounds_empty (t c : Nat) : ∀ (n : Nat) (r : Run), r.clock.isSome → r.g = ⟨[], []⟩ →
    (terminateRounds (some t) c n r).g = ⟨[], []⟩ ∧ (terminateRounds (some t) c n r).clock.isSome
  | 0, r, hc, hg => ⟨hg, hc⟩
  | n + 1, r, hc, hg => by
    obtain ⟨now, hnow⟩ := Option.isSome_iff_exists.1 hc
    obtain ⟨h1, h2⟩ := roundStep_group t c r now hnow
    have : (roundStep (some t) c r).g = ⟨[], []⟩ := by rw [h2, hg]; simp [loopTest]
    exact terminateRounds_empty t c n _ h1 this

theorem terminateRounds_finishes (t c : Nat) : ∀ (k : Nat) (r : Run), r.clock.isSome →
    r.g.members.length ≤ k → AcyclicVia r.g.members →
    (terminateRounds (some t) c (k + 1) r).g = ⟨[], []⟩ ∧ (terminateRounds (some t) c (k + 1) r).clock.isSome := by
  intro k
  induction k with
  | zero =>
    intro r hc hlen _
    obtain ⟨now, hnow⟩ := Option.isSome_iff_exists.1 hc
    obtain ⟨h1, h2⟩ := roundStep_group t c r now hnow
    have hm : r.g.members = [] := List.length_eq_zero_iff.1 (Nat.le_zero.1 hlen)
    have : (roundStep (some t) c r).g = ⟨[], []⟩ := by
      rw [h2]
      by_cases hl : loopTest r.g = true
      · simp [hl, hm, rest]
      · simp only [hl]
        simp only [loopTest, hm, List.isEmpty_nil, Bool.not_true, Bool.false_or, Bool.not_eq_true',
          Bool.not_eq_false] at hl
        have : r.g.toJoin = [] := List.isEmpty_iff.1 hl
        cases hg : r.g with
        | mk ms tj => simp_all
    exact terminateRounds_empty t c 0 _ h1 this
  | succ k ih =>
    intro r hc hlen hac
    obtain ⟨now, hnow⟩ := Option.isSome_iff_exists.1 hc
    obtain ⟨h1, h2⟩ := roundStep_group t c r now hnow
    show (terminateRounds (some t) c (k + 1) (roundStep (some t) c r)).g = _ ∧ _
    by_cases hm : r.g.members = []
    · have : (roundStep (some t) c r).g = ⟨[], []⟩ := by
        rw [h2]
        by_cases hl : loopTest r.g = true
        · simp [hl, hm, rest]
        · simp only [hl]
          simp only [loopTest, hm, List.isEmpty_nil, Bool.not_true, Bool.false_or, Bool.not_eq_true',
            Bool.not_eq_false] at hl
          have : r.g.toJoin = [] := List.isEmpty_iff.1 hl
          cases hg : r.g with
          | mk ms tj => simp_all
      exact terminateRounds_empty t c (k + 1) _ h1 this
    · have hl : loopTest r.g = true := by
        simp [loopTest, hm]
      have hg' : (roundStep (some t) c r).g = ⟨rest r.g.members, []⟩ := by rw [h2]; simp [hl]
      apply ih _ h1
      · rw [hg']; have := rest_length_lt hac hm; simp only; omega
      · rw [hg']; exact acyclic_rest hac

/-- **C05 (the loop terminates, the group is empty afterwards).** For every group whose via relation is
acyclic, every finite time-out and kill cost: after at most `members + 1` iterations of the `while` loop
both `_gateways` and `_gateways_to_join` are empty and `terminate` has returned. -/
theorem C05_loop_terminates (t c : Nat) (g : Group) (h : AcyclicVia g.members) :
    ∃ n, n ≤ g.members.length + 1 ∧
      (terminateRounds (some t) c n (start g)).g = ⟨[], []⟩ ∧
      (terminateRounds (some t) c n (start g)).clock.isSome :=
  ⟨g.members.length + 1, Nat.le_refl _,
    terminateRounds_finishes t c g.members.length (start g) rfl (Nat.le_refl _) h⟩

/-- the same for the `terminate` function of the model -/
theorem C05_group_empty (t c : Nat) (g : Group) (h : AcyclicVia g.members) :
    (terminate (some t) c g).g = ⟨[], []⟩ ∧ finished (terminate (some t) c g) = true := by
  obtain ⟨h1, h2⟩ := terminateRounds_finishes t c g.members.length (start g) rfl (Nat.le_refl _) h
  refine ⟨h1, ?_⟩
  simp only [finished, terminate, h2, h1, loopTest]
  rfl

/-! ### one round: every killable child is reaped, in bounded time -/

/-- when every kill is effective, `safe_terminate` returns by `t + c`; if moreover the kill returns within the
time-out (`c ≤ t`), every child handed to it is known to be gone when it returns -/
theorem round_effective (t c : Nat) (js : List Member) (hk : ∀ m ∈ js, m.kill = .effective) :
    ∃ e, roundElapsed (some t) c js = some e ∧ e ≤ t + c ∧
      (c ≤ t → ∀ m ∈ js, optLe (termFinish (some t) c m) e = true) := by
  unfold roundElapsed
  simp only [Option.map_some]
  have hmem : ∀ f ∈ js.map (memberFinish (some t) c), ∃ y, f = some y ∧ y ≤ t + c := by
    intro f hf
    obtain ⟨m, hm, rfl⟩ := List.mem_map.1 hf
    obtain ⟨a, b, ha, hb, hba, hat⟩ := effective_finish t c m (hk m hm)
    exact ⟨max a b, by simp [memberFinish, ha, hb, optMax], by omega⟩
  obtain ⟨x, hx, hxB, hxall⟩ := allFinish_some _ (t + c) hmem
  obtain ⟨cur, hcur, _, hcurB⟩ := waitReplies_bound (t * waitFactor) (t + c) (js.map (termkillFinish (some t) c)) 0 (by
    intro f hf y hy
    obtain ⟨m, _, rfl⟩ := List.mem_map.1 hf
    exact termkillFinish_le t c m y hy)
  have hcn : countNone (js.map (termkillFinish (some t) c)) = 0 := by
    clear hcur hcurB hx hxall hmem
    induction js with
    | nil => rfl
    | cons m ms ih =>
      obtain ⟨a, b, ha, _, _, _⟩ := effective_finish t c m (hk m (by simp))
      simp only [List.map_cons, ha, countNone]
      exact ih (fun m' hm' => hk m' (List.mem_cons_of_mem _ hm'))
  rw [hcn] at hcurB
  have hcur' : cur ≤ t + c := by omega
  simp only [hcur, hx, waitStep]
  by_cases hle : x ≤ cur + t * waitFactor
  · refine ⟨max cur x, by simp [hle], by omega, ?_⟩
    intro _ m hm
    obtain ⟨y, hy, hyx⟩ := hxall _ (List.mem_map.2 ⟨m, hm, rfl⟩)
    obtain ⟨a, b, ha, hb, hba, hat⟩ := effective_finish t c m (hk m hm)
    simp only [memberFinish, ha, hb, optMax, Option.some.injEq] at hy
    simp only [hb, optLe, decide_eq_true_eq]
    omega
  · refine ⟨cur + t * waitFactor, by simp [hle], by omega, ?_⟩
    intro hct m hm
    -- impossible: x ≤ t + c ≤ 2 t
    simp only [waitFactor] at hle
    omega

/-- number of members whose kill function was called and never returns -/
def nBlocked (t c : Nat) (js : List Member) : Nat := countNone (js.map (termkillFinish (some t) c))

/-- **C05 (time bound of one round).** `safe_terminate(timeout=t)` over any list of members returns; within
`t + c` when every kill that is needed returns (`c` = cost of a kill), and in general within
`t + c + (b + 1) · 2t` where `b` is the number of kills that never return (each costs one bounded reply wait,
the final `waitall` one more) — the factor 2 is `Generated.terminateWaitFactor`. -/
theorem C05_time_bound (t c : Nat) (js : List Member) :
    ∃ e, roundElapsed (some t) c js = some e ∧
      e ≤ t + c + (nBlocked t c js + 1) * (Int.toNat Generated.terminateWaitFactor * t) ∧
      ((∀ m ∈ js, m.kill = .effective) → e ≤ t + c) := by
  have hpin : Int.toNat Generated.terminateWaitFactor = waitFactor := by decide
  rw [hpin]
  obtain ⟨cur, hcur, _, hcurB⟩ := waitReplies_bound (t * waitFactor) (t + c) (js.map (termkillFinish (some t) c)) 0 (by
    intro f hf y hy
    obtain ⟨m, _, rfl⟩ := List.mem_map.1 hf
    exact termkillFinish_le t c m y hy)
  have hfin : ∃ e, roundElapsed (some t) c js = some e ∧ e ≤ cur + t * waitFactor := by
    unfold roundElapsed
    simp only [Option.map_some, hcur]
    cases allFinish (js.map (memberFinish (some t) c)) with
    | none => exact ⟨_, rfl, Nat.le_refl _⟩
    | some y =>
      simp only [waitStep]
      split
      · exact ⟨_, rfl, by omega⟩
      · exact ⟨_, rfl, Nat.le_refl _⟩
  obtain ⟨e, he, hle⟩ := hfin
  refine ⟨e, he, ?_, ?_⟩
  · simp only [nBlocked]
    have h1 : (countNone (js.map (termkillFinish (some t) c)) + 1) * (waitFactor * t)
        = countNone (js.map (termkillFinish (some t) c)) * (t * waitFactor) + t * waitFactor := by
      rw [Nat.succ_mul, Nat.mul_comm waitFactor t]
    omega
  · intro hk
    obtain ⟨e', he', hb, _⟩ := round_effective t c js hk
    rw [he] at he'
    cases he'
    exact hb

/-! ### the whole call -/

/-- every member handed to some round's `safe_terminate` and known to be gone when that call returned -/
def reapedIds (r : Run) : List Nat := r.rounds.flatMap (·.reaped)
def joinedIds (r : Run) : List Nat := r.rounds.flatMap (fun rr => rr.joined.map (·.id))

theorem roundStep_reaps (t c : Nat) (r : Run) (now : Nat) (hc : r.clock = some now) (hct : c ≤ t)
    (hk : ∀ m ∈ r.g.members ++ r.g.toJoin, m.kill = .effective) :
    (∀ x ∈ reapedIds r, x ∈ reapedIds (roundStep (some t) c r)) ∧
    (∀ m ∈ r.g.toJoin ++ leaves r.g.members, m.id ∈ reapedIds (roundStep (some t) c r)) := by
  unfold roundStep
  rw [hc]
  by_cases hl : loopTest r.g = true
  · have hk' : ∀ m ∈ r.g.toJoin ++ leaves r.g.members, m.kill = .effective := by
      intro m hm
      rcases List.mem_append.1 hm with h | h
      · exact hk m (List.mem_append.2 (Or.inr h))
      · exact hk m (List.mem_append.2 (Or.inl (List.mem_filter.1 h).1))
    obtain ⟨e, he, _, hre⟩ := round_effective t c _ hk'
    simp only [hl, Bool.not_true, Bool.false_eq_true, ↓reduceIte, mkRound, he, reapedIds, List.flatMap_append,
      List.flatMap_cons, List.flatMap_nil, List.append_nil, List.mem_append]
    refine ⟨fun x hx => Or.inl hx, fun m hm => Or.inr ?_⟩
    exact List.mem_map.2 ⟨m, List.mem_filter.2 ⟨List.mem_append.2 hm, hre hct m (List.mem_append.2 hm)⟩, rfl⟩
  · have hm : r.g.members = [] ∧ r.g.toJoin = [] := by
      simp only [loopTest, Bool.or_eq_true, Bool.not_eq_true', not_or, Bool.not_eq_false,
        List.isEmpty_iff] at hl
      exact hl
    simp [hl, hm.1, hm.2, leaves]

theorem terminateRounds_reaps (t c : Nat) (hct : c ≤ t) : ∀ (k : Nat) (r : Run), r.clock.isSome →
    r.g.members.length ≤ k → AcyclicVia r.g.members →
    (∀ m ∈ r.g.members ++ r.g.toJoin, m.kill = .effective) →
    (∀ x ∈ reapedIds r, x ∈ reapedIds (terminateRounds (some t) c (k + 1) r)) ∧
    (∀ m ∈ r.g.members ++ r.g.toJoin, m.id ∈ reapedIds (terminateRounds (some t) c (k + 1) r)) := by
  have mono : ∀ (n : Nat) (r : Run), r.clock.isSome → (∀ m ∈ r.g.members ++ r.g.toJoin, m.kill = .effective) →
      ∀ x ∈ reapedIds r, x ∈ reapedIds (terminateRounds (some t) c n r) := by
    intro n
    induction n with
    | zero => intro r _ _ x hx; exact hx
    | succ n ih =>
      intro r hc hk x hx
      obtain ⟨now, hnow⟩ := Option.isSome_iff_exists.1 hc
      obtain ⟨h1, h2⟩ := roundStep_group t c r now hnow
      obtain ⟨hm1, _⟩ := roundStep_reaps t c r now hnow hct hk
      apply ih _ h1 _ x (hm1 x hx)
      intro m hm
      rw [h2] at hm
      by_cases hl : loopTest r.g = true
      · simp only [hl, ↓reduceIte, List.append_nil] at hm
        exact hk m (List.mem_append.2 (Or.inl (List.mem_filter.1 hm).1))
      · simp only [hl] at hm; exact hk m hm
  intro k
  induction k with
  | zero =>
    intro r hc hlen _ hk
    obtain ⟨now, hnow⟩ := Option.isSome_iff_exists.1 hc
    obtain ⟨hm1, hm2⟩ := roundStep_reaps t c r now hnow hct hk
    refine ⟨fun x hx => hm1 x hx, ?_⟩
    intro m hm
    have hmem : r.g.members = [] := List.length_eq_zero_iff.1 (Nat.le_zero.1 hlen)
    apply hm2
    rw [hmem] at hm
    simpa [hmem, leaves] using hm
  | succ k ih =>
    intro r hc hlen hac hk
    obtain ⟨now, hnow⟩ := Option.isSome_iff_exists.1 hc
    obtain ⟨h1, h2⟩ := roundStep_group t c r now hnow
    obtain ⟨hm1, hm2⟩ := roundStep_reaps t c r now hnow hct hk
    have hk' : ∀ m ∈ (roundStep (some t) c r).g.members ++ (roundStep (some t) c r).g.toJoin, m.kill = .effective := by
      intro m hm
      rw [h2] at hm
      by_cases hl : loopTest r.g = true
      · simp only [hl, ↓reduceIte, List.append_nil] at hm
        exact hk m (List.mem_append.2 (Or.inl (List.mem_filter.1 hm).1))
      · simp only [hl] at hm; exact hk m hm
    show (∀ x ∈ reapedIds r, x ∈ reapedIds (terminateRounds (some t) c (k + 1) (roundStep (some t) c r))) ∧ _
    refine ⟨fun x hx => mono (k + 1) _ h1 hk' x (hm1 x hx), ?_⟩
    intro m hm
    show m.id ∈ reapedIds (terminateRounds (some t) c (k + 1) (roundStep (some t) c r))
    by_cases hmem : r.g.members = []
    · apply mono (k + 1) _ h1 hk'
      apply hm2
      rw [hmem] at hm
      simpa [hmem, leaves] using hm
    · have hl : loopTest r.g = true := by simp [loopTest, hmem]
      have hg' : (roundStep (some t) c r).g = ⟨rest r.g.members, []⟩ := by rw [h2]; simp [hl]
      have hlen' : (roundStep (some t) c r).g.members.length ≤ k := by
        rw [hg']; have := rest_length_lt hac hmem; simp only; omega
      have hac' : AcyclicVia (roundStep (some t) c r).g.members := by rw [hg']; exact acyclic_rest hac
      obtain ⟨ih1, ih2⟩ := ih _ h1 hlen' hac' hk'
      rcases List.mem_append.1 hm with hmm | hmj
      · rcases mem_leaves_or_rest hmm with hleaf | hrest
        · exact ih1 _ (hm2 m (List.mem_append.2 (Or.inr hleaf)))
        · apply ih2
          rw [hg']
          exact List.mem_append.2 (Or.inl hrest)
      · exact ih1 _ (hm2 m (List.mem_append.2 (Or.inl hmj)))

/-- **C05 (every child reaped).** Acyclic via relation, every member killable (its kill makes `wait` return —
the only OS assumption) with a kill that returns within the time-out: every member of the group, and every
member that was `exit()`ed before and not yet joined, is handed to `safe_terminate` in some round and its
process is known to be gone (waited, or killed and waited) when that round's `safe_terminate` returns. -/
theorem C05_every_child_reaped (t c : Nat) (hct : c ≤ t) (g : Group) (hac : AcyclicVia g.members)
    (hk : ∀ m ∈ g.members ++ g.toJoin, m.kill = .effective) :
    ∀ m ∈ g.members ++ g.toJoin, m.id ∈ reapedIds (terminate (some t) c g) :=
  (terminateRounds_reaps t c hct g.members.length (start g) rfl (Nat.le_refl _) hac hk).2

/-! ### via order -/

theorem exitRounds_subset : ∀ (n : Nat) (ms : List Member), ∀ m ∈ (exitRounds n ms).flatten, m ∈ ms
  | 0, _, m, h => by simp [exitRounds] at h
  | n + 1, ms, m, h => by
    unfold exitRounds at h
    by_cases he : ms.isEmpty = true
    · simp [he] at h
    · simp only [he, Bool.false_eq_true, ↓reduceIte, List.flatten_cons, List.mem_append] at h
      rcases h with h | h
      · exact (List.mem_filter.1 h).1
      · exact (List.mem_filter.1 (exitRounds_subset n (rest ms) m h)).1

/-- **C05 (via order).** In whichever round a member `w` is exited, no member exited in the same or in a
later round is proxied through `w`: every member proxied through `w` was exited — and its wait/kill pair
run to completion by that round's `safe_terminate` — in a strictly earlier round, while `w` was still
serving as its forwarder. -/
theorem C05_via_order : ∀ (n : Nat) (ms : List Member) (pre post : List (List Member)) (ws : List Member),
    exitRounds n ms = pre ++ ws :: post → ∀ w ∈ ws, ∀ m ∈ ws ++ post.flatten, m.via ≠ some w.id
  | 0, ms, pre, post, ws, h => by simp [exitRounds] at h
  | n + 1, ms, pre, post, ws, h => by
    unfold exitRounds at h
    by_cases he : ms.isEmpty = true
    · simp [he] at h
    · simp only [he, Bool.false_eq_true, ↓reduceIte] at h
      cases pre with
      | nil =>
        simp only [List.nil_append, List.cons.injEq] at h
        obtain ⟨rfl, rfl⟩ := h
        intro w hw m hm
        have hleaf := (List.mem_filter.1 hw).2
        apply isLeaf_iff.1 hleaf
        rcases List.mem_append.1 hm with h1 | h1
        · exact (List.mem_filter.1 h1).1
        · exact (List.mem_filter.1 (exitRounds_subset n (rest ms) m h1)).1
      | cons p pre' =>
        simp only [List.cons_append, List.cons.injEq] at h
        exact C05_via_order n (rest ms) pre' post ws h.2

/-- the exit sets of the model's `terminate` are exactly `exitRounds` (ties the ordering theorem to the run) -/
theorem exits_eq_exitRounds (t c : Nat) : ∀ (n : Nat) (r : Run), r.clock.isSome →
    (terminateRounds (some t) c n r).rounds.map (·.exited) =
      r.rounds.map (·.exited) ++ (if r.g.members.isEmpty then
        (if r.g.toJoin.isEmpty ∨ n = 0 then [] else [[]]) else exitRounds n r.g.members) := by
  intro n
  induction n with
  | zero => intro r _; simp [terminateRounds, exitRounds]
  | succ n ih =>
    intro r hc
    obtain ⟨now, hnow⟩ := Option.isSome_iff_exists.1 hc
    obtain ⟨h1, h2⟩ := roundStep_group t c r now hnow
    show (terminateRounds (some t) c n (roundStep (some t) c r)).rounds.map (·.exited) = _
    rw [ih _ h1, h2]
    by_cases hl : loopTest r.g = true
    · obtain ⟨e, he⟩ := roundElapsed_some t c (r.g.toJoin ++ leaves r.g.members)
      have hr : (roundStep (some t) c r).rounds = r.rounds ++ [mkRound (some t) c r.g] := by
        unfold roundStep; rw [hnow]; simp [hl, mkRound, he]
      rw [hr]
      by_cases hm : r.g.members = []
      · have htj : r.g.toJoin.isEmpty = false := by
          simp only [loopTest, hm, List.isEmpty_nil, Bool.not_true, Bool.false_or, Bool.not_eq_true'] at hl
          exact hl
        simp [hl, hm, rest, mkRound, leaves, htj]
      · have hme : r.g.members.isEmpty = false := by simpa using hm
        simp only [hl, ↓reduceIte, List.map_append, List.map_cons, List.map_nil, mkRound, List.isEmpty_nil,
          true_or, hme, Bool.false_eq_true, List.append_assoc, List.cons_append, List.nil_append]
        congr 1
        rw [exitRounds]
        simp only [hme, Bool.false_eq_true, ↓reduceIte]
        congr 1
        cases n with
        | zero => simp [exitRounds]
        | succ n' =>
          by_cases hre : (rest r.g.members).isEmpty = true
          · simp [hre, exitRounds]
          · simp [hre]
    · have hm : r.g.members = [] ∧ r.g.toJoin = [] := by
        simp only [loopTest, Bool.or_eq_true, Bool.not_eq_true', not_or, Bool.not_eq_false,
          List.isEmpty_iff] at hl
        exact hl
      have hr : (roundStep (some t) c r).rounds = r.rounds := by
        unfold roundStep; rw [hnow]; simp [hl]
      rw [hr]
      simp [hl, hm.1, hm.2]

/-- **C05 (via order, on the run).** The same for the rounds `terminate` actually performs. -/
theorem C05_via_order_run (t c : Nat) (g : Group) (hne : g.members ≠ []) (pre post : List (List Member))
    (ws : List Member) (h : (terminate (some t) c g).rounds.map (·.exited) = pre ++ ws :: post) :
    ∀ w ∈ ws, ∀ m ∈ ws ++ post.flatten, m.via ≠ some w.id := by
  have hme : g.members.isEmpty = false := by simpa using hne
  unfold terminate at h
  rw [exits_eq_exitRounds t c _ (start g) rfl] at h
  simp only [start, List.map_nil, List.nil_append, hme, Bool.false_eq_true, ↓reduceIte] at h
  exact C05_via_order _ _ pre post ws h

/-! ### a failed makegateway -/

open MakeGateway in
/-- **C05 (failed makegateway, order "check the id before any IO").** Whatever step fails — the requested id
is taken, the process cannot be started, the child dies during bootstrap — no process and no member is left
behind by the failed call. -/
theorem C05_failed_make_leaves_nothing (w : World) (req : Option Nat) (f : Fault) (e : Err)
    (h : (makegateway .checkFirst w req f).1 = some e) :
    (makegateway .checkFirst w req f).2.procs = w.procs ∧ (makegateway .checkFirst w req f).2.ids = w.ids := by
  unfold makegateway at *
  cases req with
  | none =>
    by_cases h1 : w.ids.contains w.counter = true
    · simp_all [allocate]
    · cases f <;> simp_all [allocate, stepsOf, runSteps, doStep]
  | some i =>
    by_cases h1 : w.ids.contains i = true
    · cases f <;> simp_all [allocate, stepsOf, runSteps, doStep]
    · cases f <;> simp_all [allocate, stepsOf, runSteps, doStep]

open MakeGateway in
/-- **pinned tree (D12):** with the order of the pinned code — the id is checked by `_register`'s `assert`
only after the child process was started and bootstrapped — the statement above is false: asking for a live
id fails and leaves a new process that no group knows. -/
theorem C05_pinned_orphan_counterexample :
    ∃ (w : World) (req : Option Nat) (e : Err), (makegateway .pinned w req .none).1 = some e ∧
      (makegateway .pinned w req .none).2.procs ≠ w.procs ∧ (makegateway .pinned w req .none).2.ids = w.ids :=
  ⟨⟨[7], [100], 0, 101⟩, some 7, .idTaken, by decide⟩

/-- **pinned tree:** with the loop test `while self:` of the pinned code a member that was `exit()`ed
individually is never joined once no registered member remains -/
theorem C05_pinned_loop_test_counterexample :
    ∃ g : Group, g.toJoin ≠ [] ∧ loopTestPinned g = false ∧ loopTest g = true :=
  ⟨⟨[], [⟨1, none, .stuck, .effective⟩]⟩, by decide⟩

/-! ### overlapping makegateway calls -/

section Concurrent
open MakeGatewayConc

/-- where the current source reserves the id (before the `try`) and what its error path releases
(`_reserved_ids.discard(spec.id)`), read off `Group.makegateway`, `_reserve_id`, `_register` by the translator -/
theorem C05_reservation_pinned :
    codeCfg = good ∧
    Generated.reserveIdSteps = [(0, "if spec.id is None"), (1, "self._allocate_id(spec)"), (0, "else"),
      (1, "if not spec.id"), (2, "raise ValueError"), (1, "else"),
      (2, "if self._id_taken(spec.id)"), (3, "raise ValueError"), (0, "self._reserved_ids.add(spec.id)")] ∧
    Generated.registerSteps = ["self._gateways.append(gateway)", "self._reserved_ids.discard(gateway.id)"] := by
  decide

/-- **C05 (overlapping makegateway calls).** For every interleaving of any number of makegateway calls — explicit
and automatic ids, refused calls, calls whose process cannot be started or dies during the bootstrap — every process the
group created is the process of a registered member (`terminate` therefore reaches it): no call is ever refused by
`_register` with its process left running, and no two members share an id. -/
theorem C05_no_orphan_concurrent (ops : List Op) :
    (run codeCfg init ops).2.orphans = [] ∧
    (run codeCfg init ops).2.procs = (run codeCfg init ops).2.members ∧
    (run codeCfg init ops).2.members.Nodup := by
  rw [C05_reservation_pinned.1]
  have h := inv_run init inv_init ops
  exact ⟨h.noOrphans, h.procs, h.mnodup⟩

/-- no reservation is ever leaked: whenever no makegateway call is in flight nothing is reserved, so an id that is not a
member's id can always be used again — whatever mixture of refused, failed and successful calls came before -/
theorem C05_no_reservation_leak (ops : List Op) (hq : (run codeCfg init ops).2.inflight = []) :
    (run codeCfg init ops).2.reserved = [] := by
  rw [C05_reservation_pinned.1] at *
  have h := inv_run init inv_init ops
  generalize (run good init ops).2 = w at *
  cases hr : w.reserved with
  | nil => rfl
  | cons id rest =>
    obtain ⟨c, hc⟩ := h.owned id (by simp [hr])
    simp [hq] at hc

/-- a call that is refused because the id is taken changes nothing (in particular not the reservation of the call
that holds the id) -/
theorem C05_refused_call_inert (w : W) (c id : Nat) (h : (step codeCfg w (.begin c (some id))).1 = .idTaken) :
    (step codeCfg w (.begin c (some id))).2 = w := by
  rw [C05_reservation_pinned.1] at *
  simp only [step] at *
  split at h
  · simp at h
  · split at h
    · rename_i hany ht
      simp [hany, ht, good]
    · simp at h

/-- a call that fails after its reservation gives the id back: the next call for that id is accepted -/
theorem C05_failed_call_releases (ops : List Op) (c id c2 : Nat)
    (hin : (c, id) ∈ (run codeCfg init ops).2.inflight)
    (hc2 : ((run codeCfg init ops).2.inflight.filter (·.1 != c)).any (·.1 == c2) = false) :
    let w1 := (step codeCfg (run codeCfg init ops).2 (.finish c true)).2
    (step codeCfg w1 (.begin c2 (some id))).1 = .reserved id := by
  rw [C05_reservation_pinned.1] at *
  have h := inv_run init inv_init ops
  generalize (run good init ops).2 = w at *
  have hfind : ∃ c', w.inflight.find? (·.1 == c) = some (c', id) := by
    cases hf : w.inflight.find? (·.1 == c) with
    | none =>
      have := List.find?_eq_none.mp hf (c, id) hin
      simp at this
    | some p =>
      obtain ⟨c', id'⟩ := p
      have hm := find_mem hf
      have : id' = id := h.cuniq _ _ _ hm hin
      exact ⟨c', this ▸ rfl⟩
  obtain ⟨c', hf⟩ := hfind
  simp only [step, hf]
  have hnr : id ∉ (w.reserved.erase id) := List.Nodup.not_mem_erase h.rnodup
  have hnm : id ∉ w.members := h.fresh id (h.held _ _ hin)
  simp [release, good, taken, hnr, hnm, hc2]

/-- **the reservation inside the `try` block** (a well-meant "keep everything in one try") is not harmless: a refused
call releases the reservation of the call still in flight, a third call starts a second process for the id, and
`_register` refuses one of the two with its process left running, unknown to the group -/
theorem C05_reserve_inside_try_counterexample :
    (run { reserveBeforeTry := false, errorPathReleases := true } init
      [.begin 0 (some 7), .begin 1 (some 7), .begin 2 (some 7), .finish 0 false, .finish 2 false]).2.orphans = [7] := by
  decide

/-- an error path that does not release the id makes the id unusable for ever after one failed call -/
theorem C05_no_release_counterexample :
    (run { reserveBeforeTry := true, errorPathReleases := false } init
      [.begin 0 (some 7), .finish 0 true, .begin 1 (some 7)]).1 = [.reserved 7, .failed, .idTaken] := by
  decide

example : (run codeCfg init [.begin 0 (some 7), .begin 1 (some 7), .begin 2 none, .finish 0 false, .begin 3 (some 7),
    .finish 2 true, .begin 4 none, .finish 4 false]).1 =
    [.reserved 7, .idTaken, .reserved 0, .ok 7, .idTaken, .failed, .reserved 1, .ok 1] := by decide

end Concurrent

/-! ### non-vacuity -/

/-- a group with a via chain (3 through 2 through 1), a plain stuck member and a pre-exited member -/
def exampleGroup : Group :=
  { members := [⟨1, none, .exitsAfter 2, .effective⟩, ⟨2, some 1, .stuck, .effective⟩,
                ⟨3, some 2, .exitsAfter 40, .effective⟩, ⟨4, none, .stuck, .effective⟩],
    toJoin := [⟨9, none, .stuck, .effective⟩] }

example : AcyclicVia exampleGroup.members := ⟨id, by decide⟩
example : ∀ m ∈ exampleGroup.members ++ exampleGroup.toJoin, m.kill = .effective := by decide
example : (terminate (some 10) 1 exampleGroup).rounds.map (fun r => (r.exited.map (·.id), r.killed, r.elapsed)) =
    [([3, 4], [9, 3, 4], some 11), ([2], [2], some 11), ([1], [], some 2)] := by decide
example : reapedIds (terminate (some 10) 1 exampleGroup) = [9, 3, 4, 2, 1] := by decide
/-- a kill that never returns costs the bounded waits, not for ever -/
example : roundElapsed (some 10) 1 [⟨1, none, .stuck, .blocks⟩, ⟨2, none, .exitsAfter 3, .effective⟩] = some 40 := by
  decide

end ExecnetVerif
