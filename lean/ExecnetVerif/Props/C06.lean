/-
C06 — remote_exec runs exactly the given code with a live channel and clean stdio.
Property theorems only (helper lemmas in Proofs/RemoteExecLemmas.lean).  The channel life-cycle part
(`_executing` refuses close, auto-close exactly once) belongs to the L3 `Net` model; here: the local
decision, "nothing is sent on rejection", the line-number arithmetic, kwargs by value, and stdio.
-/
import ExecnetVerif.Proofs.RemoteExecLemmas
import ExecnetVerif.Props.C01
namespace ExecnetVerif
open RemoteExec

/-- **C06 (decision).** `remote_exec(function)` gets past the local check exactly when the function is not a
lambda, its first positional parameter is called `channel`, it has no closure, its source can be found,
and every `ast.Name` in its source is a local of the function or a key of `builtins.__dict__`. -/
theorem C06_accept_iff (bi : List String) (f : FuncInfo) :
    remoteExecCheck bi f = .ok () ↔
      f.name ≠ "<lambda>" ∧ f.args.head? = some "channel" ∧ f.hasClosure = false ∧ f.hasSource = true
      ∧ ∀ n ∈ f.names, n ∈ f.varnames ∨ n ∈ bi := by
  have key : usedGlobals bi f = [] ↔ ∀ n ∈ f.names, n ∈ f.varnames ∨ n ∈ bi := by
    simp only [usedGlobals, List.filter_eq_nil_iff]
    constructor
    · intro h n hn
      have := h n hn
      by_cases h1 : n ∈ f.varnames
      · exact Or.inl h1
      · by_cases h2 : n ∈ bi
        · exact Or.inr h2
        · simp [h1, h2] at this
    · intro h n hn
      cases h n hn with
      | inl h1 => simp [h1]
      | inr h2 => simp [h2]
  unfold remoteExecCheck
  by_cases h1 : f.name = "<lambda>"
  · simp [h1]
  by_cases h2 : f.args.head? = some "channel"
  · by_cases h3 : f.hasClosure = true
    · simp [h1, h2, h3]
    · by_cases h4 : f.hasSource = true
      · cases hg : usedGlobals bi f with
        | nil => simp [h1, h2, h3, h4, ← key, hg]
        | cons g gs => simp [h1, h2, h3, h4, ← key, hg]
      · simp [h1, h2, h3, h4]
  · simp [h1, h2]

/-- which error, in the order the code tests: lambda, then the first parameter, then the closure, then the
source, then the globals (the error lists every offending occurrence in source order) -/
theorem C06_reject_order (bi : List String) (f : FuncInfo) :
    (f.name = "<lambda>" → remoteExecCheck bi f = .error .lambda)
    ∧ (f.name ≠ "<lambda>" → f.args.head? ≠ some "channel" → remoteExecCheck bi f = .error .firstArg)
    ∧ (f.name ≠ "<lambda>" → f.args.head? = some "channel" → f.hasClosure = true →
        remoteExecCheck bi f = .error .closure)
    ∧ (∀ names, remoteExecCheck bi f = .error (.globals names) → names = usedGlobals bi f ∧ names ≠ []) := by
  refine ⟨?_, ?_, ?_, ?_⟩
  · intro h; simp [remoteExecCheck, h]
  · intro h1 h2; simp [remoteExecCheck, h1, h2]
  · intro h1 h2 h3; simp [remoteExecCheck, h1, h2, h3]
  · intro names h
    unfold remoteExecCheck at h
    split at h <;> try (simp at h)
    split at h <;> try (simp at h)
    split at h <;> try (simp at h)
    split at h <;> try (simp at h)
    split at h
    · simp at h
    · rename_i g gs hg
      simp only [Except.error.injEq, Reject.globals.injEq] at h
      subst h
      exact ⟨hg.symm, by simp⟩

/-- **C06 (rejected before anything is sent).** `remote_exec` is check · newchannel · send.  Whenever it
raises, no frame has been written; when it raises ValueError (purity check) or TypeError (kwargs with a
source string or a module) the channel table and the id counter are untouched as well.  (The one error
after `newchannel` is DumpError for an unserialisable kwarg: an id is consumed, still nothing is sent.) -/
theorem C06_reject_before_send (bi : List String) (g : Gw) (src : Source) (kw : List (PyVal × PyVal))
    (e : Err) (h : (remoteExec bi g src kw).2 = .error e) :
    (remoteExec bi g src kw).1.wire = g.wire
    ∧ (e ≠ .dump → (remoteExec bi g src kw).1 = g) := by
  unfold remoteExec at h ⊢
  cases hp : prepare bi src with
  | error e' => simp
  | ok t =>
    obtain ⟨text, file, call⟩ := t
    simp only [hp] at h ⊢
    by_cases hc : call = none ∧ kw ≠ []
    · simp [hc]
    · simp only [hc, if_false] at h ⊢
      cases hd : encodeInternal (payload text file call kw) with
      | error d =>
        simp only [hd] at h ⊢
        simp only [Except.error.injEq] at h
        subst h
        simp
      | ok b => simp [hd] at h

/-- kwargs with a source string or a module: TypeError, nothing allocated, nothing sent -/
theorem C06_kwargs_need_function (bi : List String) (g : Gw) (kw : List (PyVal × PyVal)) (hkw : kw ≠ []) :
    (∀ s, remoteExec bi g (.text s) kw = (g, .error .type))
    ∧ (∀ t f, remoteExec bi g (.module t f) kw = (g, .error .type)) := by
  constructor
  · intro s; simp [remoteExec, prepare, hkw]
  · intro t f; simp [remoteExec, prepare, hkw]

/-- an accepted call allocates exactly one channel (the next id, ids advance by two) and writes exactly
one EXEC frame, for that channel, after everything written before -/
theorem C06_accept_sends_once (bi : List String) (g : Gw) (src : Source) (kw : List (PyVal × PyVal))
    (id : Nat) (h : (remoteExec bi g src kw).2 = .ok id) :
    id = g.count ∧ (remoteExec bi g src kw).1.count = g.count + 2
    ∧ (remoteExec bi g src kw).1.channels = id :: g.channels
    ∧ ∃ b, (remoteExec bi g src kw).1.wire = g.wire ++ [(id, b)] := by
  unfold remoteExec at h ⊢
  split
  · rename_i e hp; simp [hp] at h
  · rename_i text file call hp
    simp only [hp] at h
    split
    · rename_i hc; simp [hc] at h
    · rename_i hc
      simp only [hc, if_false] at h
      split
      · rename_i hd; simp [hd] at h
      · rename_i b hb
        simp only [hb, Except.ok.injEq] at h
        subst h
        exact ⟨rfl, rfl, rfl, b, rfl⟩

/-- **C06 (soundness of the purity check).** Let `globalRefs` be the global names any part of the function
reads.  Given the two facts the harness validates on every generated shape — each global read is an
`ast.Name` node of the source, and no global read coincides with a local of the outer function — a
function that reads a non-builtin global never passes. -/
theorem C06_sound_globals (bi : List String) (f : FuncInfo) (globalRefs : List String)
    (hnames : ∀ g ∈ globalRefs, g ∈ f.names) (hdisj : ∀ g ∈ globalRefs, g ∉ f.varnames)
    (g : String) (hg : g ∈ globalRefs) (hb : g ∉ bi) : remoteExecCheck bi f ≠ .ok () := by
  intro hok
  have := ((C06_accept_iff bi f).1 hok).2.2.2.2 g (hnames g hg)
  cases this with
  | inl h => exact hdisj g hg h
  | inr h => exact hb h

/-- **C06 (line numbers).** The text shipped for a function has as many lines as the file up to the end of
the function, and line `firstlineno + k` of it is line `k` of the function's source with the common
indentation removed — for every line `k`, whatever the indentation and position of the function.  If the
source lines are the file's lines from `co_firstlineno` on (what `inspect.getsource` returns), line `L` of
the shipped text is line `L` of the file: tracebacks raised remotely carry the original line numbers. -/
theorem C06_lines (f : FuncInfo) (k : Nat) (hk : k < f.srcLines.length) :
    (shippedLines f)[f.firstlineno - 1 + k]? = some (dedentLine f.margin f.srcLines[k])
    ∧ (∀ j, j < f.firstlineno - 1 → (shippedLines f)[j]? = some "")
    ∧ (shippedLines f).length = f.firstlineno - 1 + f.srcLines.length := by
  refine ⟨?_, ?_, shippedLines_length f⟩
  · simp only [shippedLines]
    rw [List.getElem?_append_right (by simp)]
    simp [hk]
  · intro j hj
    simp only [shippedLines]
    rw [List.getElem?_append_left (by simpa using hj)]
    simp [hj]

/-- the same against the file: 1-based line `L` of the shipped text is the dedented 1-based line `L` of
the file, for every line of the function -/
theorem C06_lines_file (f : FuncInfo) (file : List String) (h1 : 1 ≤ f.firstlineno)
    (hsrc : f.srcLines = (file.drop (f.firstlineno - 1)).take f.srcLines.length)
    (L : Nat) (hlo : f.firstlineno ≤ L) (hhi : L < f.firstlineno + f.srcLines.length) :
    ∃ line, file[L - 1]? = some line ∧ (shippedLines f)[L - 1]? = some (dedentLine f.margin line) := by
  have hk : L - f.firstlineno < f.srcLines.length := by omega
  have h := (C06_lines f (L - f.firstlineno) hk).1
  have hidx : f.firstlineno - 1 + (L - f.firstlineno) = L - 1 := by omega
  rw [hidx] at h
  refine ⟨f.srcLines[L - f.firstlineno], ?_, h⟩
  have e := take_drop_get file (f.firstlineno - 1) f.srcLines.length f.srcLines hsrc _ hk
  rw [hidx] at e
  rw [← e]
  simp [hk]

/-- **C06 (kwargs by value).** What an accepted call writes is the internal serialisation of
`(source, file_name, call_name, kwargs)`; whenever that tuple is in the serializer's domain the worker's
`loads_internal` gives back exactly that tuple — the kwargs dict equal by value, type-exact, in order
(corollary of `C01_roundtrip_channel`). -/
theorem C06_kwargs_by_value (bi : List String) (g : Gw) (src : Source) (kw : List (PyVal × PyVal))
    (text : String) (file call : Option String) (hp : prepare bi src = .ok (text, file, call))
    (hcall : ¬(call = none ∧ kw ≠ [])) (hwf : WF (payload text file call kw))
    (cfg : Cfg) (hcfg : cfg.py3str_as_py2str = false) (hmem : cfg.memLimit = none) :
    ∃ b, (remoteExec bi g src kw) =
        ({ count := g.count + 2, channels := g.count :: g.channels, wire := g.wire ++ [(g.count, b)] }, .ok g.count)
      ∧ loadsInternal cfg b = .ok (payload text file call kw) := by
  obtain ⟨b, hb, hl⟩ := C01_roundtrip_channel cfg hcfg hmem _ hwf
  refine ⟨b, ?_, hl⟩
  simp [remoteExec, hp, hcall, hb]

/-- **C06 (stdio).** For *every* descriptor table of a freshly started popen worker in which 0 and 1 are the
two protocol pipes (whatever else is open or closed), after `init_popen_io`: the protocol is read from
and written to descriptors other than 0 and 1 (and distinct from each other) which refer to the original
pipes; descriptors 0 and 1 refer to the null device; `sys.stdin`/`sys.stdout` are files on 0 and 1; no
other descriptor changed and the temporary descriptors are closed again.  So whatever the remote code
prints or writes raw to fd 1 — of any size — goes to the null device and never into the protocol. -/
theorem C06_stdio (s : Fds) (hwf : s.WF) (h0 : s.get 0 = .pipeIn) (h1 : s.get 1 = .pipeOut) :
    (initPopenIO s).protoIn ≠ 0 ∧ (initPopenIO s).protoIn ≠ 1
    ∧ (initPopenIO s).protoOut ≠ 0 ∧ (initPopenIO s).protoOut ≠ 1
    ∧ (initPopenIO s).protoIn ≠ (initPopenIO s).protoOut
    ∧ (initPopenIO s).fds.get (initPopenIO s).protoIn = .pipeIn
    ∧ (initPopenIO s).fds.get (initPopenIO s).protoOut = .pipeOut
    ∧ (initPopenIO s).fds.get 0 = .devnullR ∧ (initPopenIO s).fds.get 1 = .devnullW
    ∧ (initPopenIO s).sysStdin = 0 ∧ (initPopenIO s).sysStdout = 1
    ∧ (∀ n, n ≠ 0 → n ≠ 1 → n ≠ (initPopenIO s).protoIn → n ≠ (initPopenIO s).protoOut →
        (initPopenIO s).fds.get n = s.get n)
    ∧ (initPopenIO s).fds.WF := by
  rw [initPopenIO_redirect]
  obtain ⟨w1, c1, k1, g1, a1, o1⟩ := redirect_spec s hwf 0 .devnullR (by simp [h0])
  generalize redirect s 0 .devnullR = r1 at *
  have hr1 : r1.1.get 1 = .pipeOut := by
    have : (1 : Nat) ≠ r1.2 := by intro h; rw [← h, h1] at c1; simp at c1
    rw [o1 1 (by decide) this, h1]
  obtain ⟨w2, c2, k2, g2, a2, o2⟩ := redirect_spec r1.1 w1 1 .devnullW (by simp [hr1])
  generalize redirect r1.1 1 .devnullW = r2 at *
  have hb0 : r2.2 ≠ 0 := by intro h; rw [h, g1] at c2; simp at c2
  have hba : r2.2 ≠ r1.2 := by intro h; rw [h, a1, h0] at c2; simp at c2
  have ha1 : r1.2 ≠ 1 := by intro h; rw [h, h1] at c1; simp at c1
  refine ⟨k1, ha1, hb0, k2, Ne.symm hba, ?_, ?_, ?_, g2, rfl, rfl, ?_, w2⟩
  · show r2.1.get r1.2 = .pipeIn
    rw [o2 r1.2 ha1 (Ne.symm hba), a1, h0]
  · show r2.1.get r2.2 = .pipeOut
    rw [a2, hr1]
  · show r2.1.get 0 = .devnullR
    rw [o2 0 (by decide) (Ne.symm hb0), g1]
  · intro n n0 n1 na nb
    show r2.1.get n = s.get n
    rw [o2 n n1 nb, o1 n n0 na]

/-! ### non-vacuity -/

def exampleFunc : FuncInfo :=
  { name := "work", args := ["channel", "n"], hasClosure := false, hasSource := true,
    names := ["channel", "range", "n", "i", "channel", "i"], varnames := ["channel", "n", "i"],
    firstlineno := 7, margin := 4,
    srcLines := ["    def work(channel, n):", "        for i in range(n):", "            channel.send(i)", ""] }

example : remoteExecCheck ["range", "len"] exampleFunc = .ok () := by rfl
example : remoteExecCheck ["len"] exampleFunc = .error (.globals ["range"]) := by rfl
example : (shippedLines exampleFunc)[7]? = some "    for i in range(n):" := by decide
example : (remoteExec ["range"] ⟨1, [], []⟩ (.function exampleFunc (some "m.py")) [(.str "n", .int 3)]).2 = .ok 1 := by
  rfl
example : (remoteExec [] ⟨1, [], []⟩ (.function exampleFunc (some "m.py")) []).1 = ⟨1, [], []⟩ := by decide

/-- a table with gaps and extra descriptors meets the hypotheses of `C06_stdio` -/
def exampleFds : Fds :=
  ⟨fun n => if n = 0 then .pipeIn else if n = 1 then .pipeOut else if n = 2 then .other 2
            else if n = 5 then .other 5 else .closed, 6⟩

example : exampleFds.WF := by
  intro n hn; simp only [exampleFds] at hn ⊢
  have : n ≠ 0 ∧ n ≠ 1 ∧ n ≠ 2 ∧ n ≠ 5 := by omega
  simp [this]
example : (initPopenIO exampleFds).protoIn = 3 ∧ (initPopenIO exampleFds).protoOut = 4 := by decide

end ExecnetVerif
