/-
The put-back of one in-hand ENDMARKER commutes with every coarse step that respects the hand (`Comm`).
-/
import ExecnetVerif.Proofs.Net.FineSideStep2
namespace ExecnetVerif.Net.Fine
open ExecnetVerif.Net
set_option linter.unusedSimpArgs false

/-- what a coarse operation has to respect for the put-back of key `k` to commute with it -/
def Comm (st : State) (k : Side × Nat) : Op → Prop
  | .deliver p => p = k.1 → ((st.side p).chans k.2).registered = false ∧
      ∀ fr rest, (st.side p.peer).out = fr :: rest → frameAvoids k.2 fr
  | .cut _ => True
  | op => opSide op = k.1 → SideComm (st.side k.1) k.2 op

theorem step_putBack_oneSided (fails : Item → Bool) (st : State) (s : Side) (id : Nat) (op : Op)
    (h1 : oneSided op = true) (h : opSide op = s → SideComm (st.side s) id op) :
    step fails (putBack st (s, id)) op = ((step fails st op).1, putBack (step fails st op).2 (s, id)) := by
  rw [step_eq_sideStep fails _ op h1, step_eq_sideStep fails st op h1]
  simp only [putBack_eq]
  by_cases hs : opSide op = s
  · subst hs
    simp only [side_set_self, set_set_same]
    rw [sideStep_pb fails _ id op (h rfl)]
  · rw [side_set_ne _ _ hs, side_set_ne _ _ (Ne.symm hs), set_set_comm _ _ _ (Ne.symm hs)]

theorem step_deliver_A (fails : Item → Bool) (a b : SideSt) :
    step fails ⟨a, b⟩ (.deliver .A) =
      if a.finished then (.notEnabled, ⟨a, b⟩)
      else match b.out with
        | [] => (.notEnabled, ⟨a, b⟩)
        | f :: rest =>
          if (handle fails a false f).finished then (.ok, ⟨handle fails a false f, { b with out := rest, ioOpen := false }⟩)
          else (.ok, ⟨handle fails a false f, { b with out := rest }⟩) := by
  simp only [step, State.side, Side.peer, State.set]
  rfl

theorem step_deliver_B (fails : Item → Bool) (a b : SideSt) :
    step fails ⟨a, b⟩ (.deliver .B) =
      if b.finished then (.notEnabled, ⟨a, b⟩)
      else match a.out with
        | [] => (.notEnabled, ⟨a, b⟩)
        | f :: rest =>
          if (handle fails b true f).finished then (.ok, ⟨{ a with out := rest, ioOpen := false }, handle fails b true f⟩)
          else (.ok, ⟨{ a with out := rest }, handle fails b true f⟩) := by
  simp only [step, State.side, Side.peer, State.set]
  rfl

theorem step_cut_A (fails : Item → Bool) (a b : SideSt) :
    step fails ⟨a, b⟩ (.cut .A) =
      if a.finished then (.notEnabled, ⟨a, b⟩) else (.ok, ⟨epilogue a true, { b with ioOpen := false }⟩) := by
  simp only [step, State.side, Side.peer, State.set]
  rfl

theorem step_cut_B (fails : Item → Bool) (a b : SideSt) :
    step fails ⟨a, b⟩ (.cut .B) =
      if b.finished then (.notEnabled, ⟨a, b⟩) else (.ok, ⟨{ a with ioOpen := false }, epilogue b true⟩) := by
  simp only [step, State.side, Side.peer, State.set]
  rfl


theorem putBack_A (a b : SideSt) (id : Nat) : putBack ⟨a, b⟩ (.A, id) = ⟨pb a id, b⟩ := rfl
theorem putBack_B (a b : SideSt) (id : Nat) : putBack ⟨a, b⟩ (.B, id) = ⟨a, pb b id⟩ := rfl

theorem step_putBack_cut (fails : Item → Bool) (st : State) (k : Side × Nat) (p : Side) :
    step fails (putBack st k) (.cut p) = ((step fails st (.cut p)).1, putBack (step fails st (.cut p)).2 k) := by
  obtain ⟨s, id⟩ := k
  obtain ⟨a, b⟩ := st
  cases p <;> cases s <;>
    simp only [putBack_A, putBack_B, step_cut_A, step_cut_B, pb_finished, epilogue_pb] <;>
    split <;> rfl

theorem step_putBack_deliver (fails : Item → Bool) (st : State) (k : Side × Nat) (p : Side)
    (h : Comm st k (.deliver p)) :
    step fails (putBack st k) (.deliver p) =
      ((step fails st (.deliver p)).1, putBack (step fails st (.deliver p)).2 k) := by
  obtain ⟨s, id⟩ := k
  obtain ⟨a, b⟩ := st
  cases p <;> cases s
  · -- deliver A, key on A
    obtain ⟨hreg, hfr⟩ := h rfl
    simp only [putBack_A, putBack_B, step_deliver_A, step_deliver_B, pb_finished]
    by_cases hf : a.finished = true
    · simp only [hf, if_true]; rfl
    · simp only [hf, if_false, Bool.false_eq_true, reduceIte]
      cases hout : b.out with
      | nil => rfl
      | cons f rest =>
        simp only
        rw [handle_pb fails a false id f hreg (hfr f rest hout)]
        simp only [pb_finished]
        by_cases hf2 : (handle fails a false f).finished = true
        · simp only [hf2, if_true]; rfl
        · simp only [hf2, if_false, Bool.false_eq_true, reduceIte]; rfl
  · -- deliver A, key on B
    simp only [putBack_A, putBack_B, step_deliver_A, step_deliver_B, pb_out]
    by_cases hf : a.finished = true
    · simp only [hf, if_true]; rfl
    · simp only [hf, if_false, Bool.false_eq_true, reduceIte]
      cases hout : b.out with
      | nil => rfl
      | cons f rest =>
        simp only
        by_cases hf2 : (handle fails a false f).finished = true
        · simp only [hf2, if_true]; rfl
        · simp only [hf2, if_false, Bool.false_eq_true, reduceIte]; rfl
  · -- deliver B, key on A
    simp only [putBack_A, putBack_B, step_deliver_A, step_deliver_B, pb_out]
    by_cases hf : b.finished = true
    · simp only [hf, if_true]; rfl
    · simp only [hf, if_false, Bool.false_eq_true, reduceIte]
      cases hout : a.out with
      | nil => rfl
      | cons f rest =>
        simp only
        by_cases hf2 : (handle fails b true f).finished = true
        · simp only [hf2, if_true]; rfl
        · simp only [hf2, if_false, Bool.false_eq_true, reduceIte]; rfl
  · -- deliver B, key on B
    obtain ⟨hreg, hfr⟩ := h rfl
    simp only [putBack_A, putBack_B, step_deliver_A, step_deliver_B, pb_finished]
    by_cases hf : b.finished = true
    · simp only [hf, if_true]; rfl
    · simp only [hf, if_false, Bool.false_eq_true, reduceIte]
      cases hout : a.out with
      | nil => rfl
      | cons f rest =>
        simp only
        rw [handle_pb fails b true id f hreg (hfr f rest hout)]
        simp only [pb_finished]
        by_cases hf2 : (handle fails b true f).finished = true
        · simp only [hf2, if_true]; rfl
        · simp only [hf2, if_false, Bool.false_eq_true, reduceIte]; rfl

/-- the put-back of key `k` commutes with every coarse step that respects it -/
theorem step_putBack (fails : Item → Bool) (st : State) (k : Side × Nat) (op : Op) (h : Comm st k op) :
    step fails (putBack st k) op = ((step fails st op).1, putBack (step fails st op).2 k) := by
  cases op with
  | deliver p => exact step_putBack_deliver fails st k p h
  | cut p => exact step_putBack_cut fails st k p
  | newchannel s => exact step_putBack_oneSided fails st k.1 k.2 _ rfl h
  | remoteExec => exact step_putBack_oneSided fails st k.1 k.2 _ rfl h
  | send s id v => exact step_putBack_oneSided fails st k.1 k.2 _ rfl h
  | close s id err => exact step_putBack_oneSided fails st k.1 k.2 _ rfl h
  | receive s id => exact step_putBack_oneSided fails st k.1 k.2 _ rfl h
  | waitclose s id => exact step_putBack_oneSided fails st k.1 k.2 _ rfl h
  | setcallback s id w => exact step_putBack_oneSided fails st k.1 k.2 _ rfl h
  | drop s id => exact step_putBack_oneSided fails st k.1 k.2 _ rfl h
  | isclosed s id => exact step_putBack_oneSided fails st k.1 k.2 _ rfl h
  | execFinish id o => exact step_putBack_oneSided fails st k.1 k.2 _ rfl h

end ExecnetVerif.Net.Fine
