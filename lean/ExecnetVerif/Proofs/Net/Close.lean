/-
G7 `CloseInv`: closing frames (CLOSE, CLOSE_ERROR, LAST_MESSAGE) are ordered after the data of their
channel, and once the peer has handled one it has handled ALL data of that channel (C03).

`CloseInv` is not inductive on its own; it is strengthened by `CloseAux`:
* a registered callback belongs to a registered (or already dropped) channel object — so the
  callback-failure path of `handle`, which writes a CLOSE_ERROR, really closes the object;
* a closing frame is only written for an id whose object was created or whose conversation ended here —
  so re-opening the id afterwards is detected (`broken`).
-/
import ExecnetVerif.Proofs.Net.ClosePlumbing
namespace ExecnetVerif.Net
open CP

/-! ### lists of frames -/

theorem dataOf_append_cl (id : Nat) (l1 l2 : List Frame) :
    dataOf id (l1 ++ l2) = dataOf id l1 ++ dataOf id l2 := by
  induction l1 with
  | nil => rfl
  | cons f t ih =>
    cases f <;> simp only [List.cons_append, dataOf, ih]
    split <;> simp

theorem dataOf_tail_nil {id : Nat} {f : Frame} {l : List Frame} (h : dataOf id (f :: l) = []) :
    dataOf id l = [] := by
  cases f <;> simp only [dataOf] at h <;> try exact h
  split at h
  · simp at h
  · exact h

theorem noClosing_nil (id : Nat) : noClosing id [] := by intro f hf; simp at hf

theorem noClosing_append {id : Nat} {l : List Frame} {f : Frame} (h : noClosing id l)
    (hf : Frame.isClosing id f = false) : noClosing id (l ++ [f]) := by
  intro g hg
  rcases List.mem_append.1 hg with hg | hg
  · exact h g hg
  · simp only [List.mem_singleton] at hg; subst hg; exact hf

theorem noClosing_tail {id : Nat} {l : List Frame} {f : Frame} (h : noClosing id (f :: l)) :
    noClosing id l := fun g hg => h g (List.mem_cons_of_mem _ hg)

theorem wellOrdered_nil (id : Nat) : wellOrdered id [] := by
  intro pre f post h; simp at h

theorem wellOrdered_cons {id : Nat} {g : Frame} {l : List Frame} :
    wellOrdered id (g :: l) ↔ (Frame.isClosing id g = true → dataOf id l = []) ∧ wellOrdered id l := by
  constructor
  · intro h
    refine ⟨fun hg => h [] g l rfl hg, ?_⟩
    intro pre f post hl hf
    exact h (g :: pre) f post (by rw [hl]; rfl) hf
  · rintro ⟨h1, h2⟩ pre f post hl hf
    cases pre with
    | nil =>
      simp only [List.nil_append, List.cons.injEq] at hl
      obtain ⟨rfl, rfl⟩ := hl
      exact h1 hf
    | cons a pre =>
      simp only [List.cons_append, List.cons.injEq] at hl
      exact h2 pre f post hl.2 hf

theorem wellOrdered_tail {id : Nat} {g : Frame} {l : List Frame} (h : wellOrdered id (g :: l)) :
    wellOrdered id l := (wellOrdered_cons.1 h).2

theorem wellOrdered_append {id : Nat} {l : List Frame} {f : Frame} (h : wellOrdered id l)
    (hd : dataOf id [f] = []) : wellOrdered id (l ++ [f]) := by
  induction l with
  | nil =>
    rw [List.nil_append, wellOrdered_cons]
    exact ⟨fun _ => rfl, wellOrdered_nil id⟩
  | cons g t ih =>
    rw [List.cons_append, wellOrdered_cons]
    rw [wellOrdered_cons] at h
    refine ⟨fun hg => ?_, ih h.2⟩
    rw [dataOf_append_cl, h.1 hg, hd]; rfl

theorem wellOrdered_of_noClosing {id : Nat} {l : List Frame} (f : Frame) (h : noClosing id l) :
    wellOrdered id (l ++ [f]) := by
  induction l with
  | nil =>
    rw [List.nil_append, wellOrdered_cons]
    exact ⟨fun _ => rfl, wellOrdered_nil id⟩
  | cons g t ih =>
    rw [List.cons_append, wellOrdered_cons]
    refine ⟨fun hg => ?_, ih (noClosing_tail h)⟩
    have := h g (List.mem_cons_self ..)
    rw [this] at hg; exact absurd hg (by simp)

/-- `f` is a closing frame for `id` (and nothing else) -/
def Frame.closes (f : Frame) (id : Nat) : Prop :=
  (∀ j, Frame.isClosing j f = (id == j)) ∧ ∀ j, dataOf j [f] = []

theorem closes_close (id : Nat) : (Frame.close id).closes id := ⟨fun _ => rfl, fun _ => rfl⟩
theorem closes_closeErr (id e : Nat) : (Frame.closeErr id e).closes id := ⟨fun _ => rfl, fun _ => rfl⟩
theorem closes_lastMsg (id : Nat) : (Frame.lastMsg id).closes id := ⟨fun _ => rfl, fun _ => rfl⟩
theorem closes_closeFrame (id : Nat) (err : Option Nat) : (closeFrame id err).closes id := by
  cases err
  · exact closes_close id
  · exact closes_closeErr id _

theorem Frame.closes.not_closing {f : Frame} {id j : Nat} (h : f.closes id) (hj : j ≠ id) :
    Frame.isClosing j f = false := by
  rw [h.1 j]; simp; exact fun h' => hj h'.symm

/-! ### the invariant, per side and per id -/

/-- the clauses of `CloseInv` (c1–c3) and `CloseAux` (a1, a2) that speak about one side -/
structure ClSdOK (x : SideSt) (id : Nat) : Prop where
  c1 : x.closeSent id = false → noClosing id x.out
  c2 : x.closeSent id = true → x.broken id = false →
    (x.chans id).closed = true ∨ (x.chans id).alive = false
  c3 : x.broken id = false → wellOrdered id x.out
  a1 : x.cbs id ≠ none → x.broken id = false →
    (x.chans id).registered = true ∨ (x.chans id).alive = false
  a2 : x.closeSent id = true → (x.chans id).created = true ∨ x.ended id = true

/-- the clauses of `CloseInv` that relate the writer `x` of closing frames to the handler `y` -/
structure LinkOK (x y : SideSt) (id : Nat) : Prop where
  c4 : y.closeSeen id = true → x.closeSent id = true
  c5 : y.closeSeen id = true → x.broken id = false → dataOf id x.out = []

/-- auxiliary invariant strengthening `CloseInv` -/
def CloseAux (st : State) : Prop :=
  ∀ (s : Side) (id : Nat),
    let x := st.side s
    let c := x.chans id
    (x.cbs id ≠ none → x.broken id = false → c.registered = true ∨ c.alive = false) ∧
    (x.closeSent id = true → c.created = true ∨ x.ended id = true)

def CloseFull (st : State) : Prop :=
  ∀ (s : Side) (id : Nat), ClSdOK (st.side s) id ∧ LinkOK (st.side s) (st.side s.peer) id

theorem CloseFull_iff (st : State) : CloseFull st ↔ CloseInv st ∧ CloseAux st := by
  constructor
  · intro h
    exact ⟨fun s id => ⟨(h s id).1.c1, (h s id).1.c2, (h s id).1.c3, (h s id).2.c4, (h s id).2.c5⟩,
      fun s id => ⟨(h s id).1.a1, (h s id).1.a2⟩⟩
  · rintro ⟨h1, h2⟩ s id
    obtain ⟨c1, c2, c3, c4, c5⟩ := h1 s id
    obtain ⟨a1, a2⟩ := h2 s id
    exact ⟨⟨c1, c2, c3, a1, a2⟩, ⟨c4, c5⟩⟩

theorem ClSdOK.mono {x x' : SideSt} {id : Nat} (h : ClSdOK x id)
    (hcs : x'.closeSent id = x.closeSent id)
    (hnc : noClosing id x.out → noClosing id x'.out)
    (hwo : wellOrdered id x.out → wellOrdered id x'.out)
    (hbr : x'.broken id = false → x.broken id = false)
    (hcl : (x.chans id).closed = true → (x'.chans id).closed = true)
    (hal : (x.chans id).alive = false → (x'.chans id).alive = false)
    (hcb : x'.cbs id ≠ none → ((x'.chans id).registered = true ∨ (x'.chans id).alive = false) ∨
      (x.cbs id ≠ none ∧ ((x.chans id).registered = true → (x'.chans id).registered = true)))
    (hcr : (x.chans id).created = true → (x'.chans id).created = true)
    (hen : x.ended id = true → x'.ended id = true) : ClSdOK x' id where
  c1 := fun hc => hnc (h.c1 (hcs ▸ hc))
  c2 := fun hc hb => (h.c2 (hcs ▸ hc) (hbr hb)).imp hcl hal
  c3 := fun hb => hwo (h.c3 (hbr hb))
  a1 := fun hc hb => by
    rcases hcb hc with hcb | ⟨hcb, hreg⟩
    · exact hcb
    · exact (h.a1 hcb (hbr hb)).imp hreg hal
  a2 := fun hc => (h.a2 (hcs ▸ hc)).imp hcr hen

theorem LinkOK.mono_left {x x' y : SideSt} {id : Nat} (h : LinkOK x y id)
    (hcs : x.closeSent id = true → x'.closeSent id = true)
    (hbr : x'.broken id = false → x.broken id = false)
    (hd : dataOf id x.out = [] → dataOf id x'.out = []) : LinkOK x' y id where
  c4 := fun hs => hcs (h.c4 hs)
  c5 := fun hs hb => hd (h.c5 hs (hbr hb))

theorem LinkOK.mono_right {x y y' : SideSt} {id : Nat} (h : LinkOK x y id)
    (hcs : y'.closeSeen id = true → y.closeSeen id = true) : LinkOK x y' id where
  c4 := fun hs => h.c4 (hcs hs)
  c5 := fun hs hb => h.c5 (hcs hs) hb

/-! ### `createAt`, `registerAll` -/

theorem createAt_broken_false {x : SideSt} {i j : Nat} (h : (createAt x i).broken j = false) :
    x.broken j = false := by
  cases hb : x.broken j with
  | false => rfl
  | true => rw [createAt_broken_mono x i j hb] at h; exact absurd h (by simp)

theorem registerAll_broken_false {x : SideSt} {ids : List Nat} {j : Nat}
    (h : (registerAll x ids).broken j = false) : x.broken j = false := by
  cases hb : x.broken j with
  | false => rfl
  | true => rw [registerAll_broken_mono x ids j hb] at h; exact absurd h (by simp)

theorem SideOK_createAt {x : SideSt} {j : Nat} (h : ClSdOK x j) (i : Nat) : ClSdOK (createAt x i) j := by
  by_cases hj : j = i
  · subst hj
    by_cases hr : (x.chans j).registered = true
    · have hc : (createAt x j).chans j = x.chans j := createAt_chans_registered x j hr
      have hb : (createAt x j).broken j = x.broken j := by simp [createAt_broken, hr]
      exact ⟨h.c1, by rw [hc, hb]; exact h.c2, by rw [hb]; exact h.c3, by rw [hc, hb]; exact h.a1,
        by rw [hc]; exact h.a2⟩
    · simp only [Bool.not_eq_true] at hr
      have hc : (createAt x j).chans j = { created := true, registered := true, alive := true } := by
        simp [createAt_chans, createChan, hr]
      have hb : (createAt x j).broken j = (x.broken j || ((x.chans j).created || x.ended j)) := by
        simp [createAt_broken, hr]
      refine ⟨h.c1, ?_, fun hb' => h.c3 (createAt_broken_false hb'), ?_, ?_⟩
      · intro hcs hb'
        rw [hb] at hb'
        rcases h.a2 hcs with h' | h' <;> simp [h'] at hb'
      · intro _ _; rw [hc]; exact Or.inl rfl
      · intro _; rw [hc]; exact Or.inl rfl
  · have hc : (createAt x i).chans j = x.chans j := createAt_chans_ne x i hj
    have hb : (createAt x i).broken j = x.broken j := createAt_broken_ne x i hj
    exact ⟨h.c1, by rw [hc, hb]; exact h.c2, by rw [hb]; exact h.c3, by rw [hc, hb]; exact h.a1,
      by rw [hc]; exact h.a2⟩

theorem SideOK_registerAll {x : SideSt} {j : Nat} (h : ClSdOK x j) (ids : List Nat) :
    ClSdOK (registerAll x ids) j := by
  induction ids generalizing x with
  | nil => exact h
  | cons i t ih => exact ih (SideOK_createAt h i)

/-! ### generic single-side changes -/

/-- case split on `j = id` for goals about `upd … id … j` -/
local macro "upd_cases" j:ident id:ident : tactic =>
  `(tactic| (by_cases hj : $j = $id
             · subst hj; simp [nlo_chans, nlo_cbs, upd_same]
             · simp [nlo_chans, nlo_cbs, upd_ne, hj]))

/-- nothing the invariant looks at changed, except that flags of the record may have moved in the
harmless direction -/
theorem ClSdOK.same {x x' : SideSt} {id : Nat} (h : ClSdOK x id)
    (hcs : x'.closeSent id = x.closeSent id) (hout : x'.out = x.out)
    (hbr : x'.broken id = false → x.broken id = false)
    (hcl : (x.chans id).closed = true → (x'.chans id).closed = true)
    (hal : (x.chans id).alive = false → (x'.chans id).alive = false)
    (hcb : x'.cbs id = none ∨ (x'.cbs id = x.cbs id ∧
      ((x.chans id).registered = true → (x'.chans id).registered = true)))
    (hcr : (x.chans id).created = true → (x'.chans id).created = true)
    (hen : x.ended id = true → x'.ended id = true) : ClSdOK x' id :=
  h.mono hcs (by rw [hout]; exact fun h => h) (by rw [hout]; exact fun h => h) hbr hcl hal
    (fun hc => by
      rcases hcb with hcb | ⟨hcb, hreg⟩
      · exact absurd hcb hc
      · exact Or.inr ⟨by rw [← hcb]; exact hc, hreg⟩) hcr hen

/-- a closing frame for `id` is written and the record of `id` is closed (or dead) -/
theorem SideOK_closing {x x' : SideSt} {id j : Nat} {f : Frame} (h : ClSdOK x j) (hf : f.closes id)
    (hout : x'.out = x.out ++ [f]) (hcs : x'.closeSent = upd x.closeSent id true)
    (hbr : x'.broken = x.broken)
    (hne : j ≠ id → x'.chans j = x.chans j ∧ x'.cbs j = x.cbs j ∧ x'.ended j = x.ended j)
    (hid : x.broken id = false → (x'.chans id).closed = true ∨ (x'.chans id).alive = false)
    (hcb : x'.cbs id ≠ none → x.broken id = false →
      (x'.chans id).registered = true ∨ (x'.chans id).alive = false)
    (hce : (x'.chans id).created = true ∨ x'.ended id = true) : ClSdOK x' j := by
  by_cases hj : j = id
  · subst hj
    refine ⟨fun hc => ?_, fun _ hb => hid (hbr ▸ hb), fun hb => ?_, fun hc hb => hcb hc (hbr ▸ hb),
      fun _ => hce⟩
    · rw [hcs, upd_same] at hc; exact absurd hc (by simp)
    · rw [hout]; exact wellOrdered_append (h.c3 (hbr ▸ hb)) (hf.2 _)
  · obtain ⟨h1, h2, h3⟩ := hne hj
    have hcs' : x'.closeSent j = x.closeSent j := by rw [hcs, upd_ne _ _ hj]
    refine ⟨fun hc => ?_, ?_, fun hb => ?_, ?_, ?_⟩
    · rw [hout]; exact noClosing_append (h.c1 (hcs' ▸ hc)) (hf.not_closing hj)
    · rw [hcs', hbr, h1]; exact h.c2
    · rw [hout]; exact wellOrdered_append (h.c3 (hbr ▸ hb)) (hf.2 _)
    · rw [h2, hbr, h1]; exact h.a1
    · rw [hcs', h1, h3]; exact h.a2

theorem LinkOK_closing {x x' y : SideSt} {id j : Nat} {f : Frame} (h : LinkOK x y j) (hf : f.closes id)
    (hout : x'.out = x.out ++ [f]) (hcs : x'.closeSent = upd x.closeSent id true)
    (hbr : x'.broken = x.broken) : LinkOK x' y j := by
  refine h.mono_left (fun hc => ?_) (fun hb => hbr ▸ hb) (fun hd => ?_)
  · rw [hcs, upd_apply]; split
    · rfl
    · exact hc
  · rw [hout, dataOf_append_cl, hd, hf.2]; rfl

/-! ### `send` -/

theorem SideOK_send {x : SideSt} {id j : Nat} (v : Item) (h : ClSdOK x j)
    (ha : (x.chans id).alive = true) (hc : (x.chans id).closed = false) :
    ClSdOK { x with out := x.out ++ [.data id v], sent := upd x.sent id (x.sent id ++ [v]) } j := by
  refine ⟨fun hcs => noClosing_append (h.c1 hcs) rfl, h.c2, fun hb => ?_, h.a1, h.a2⟩
  show wellOrdered j (x.out ++ [.data id v])
  by_cases hj : j = id
  · subst hj
    cases hcs : x.closeSent j with
    | false => exact wellOrdered_of_noClosing _ (h.c1 hcs)
    | true =>
      rcases h.c2 hcs hb with h' | h'
      · rw [hc] at h'; exact absurd h' (by simp)
      · rw [ha] at h'; exact absurd h' (by simp)
  · refine wellOrdered_append (h.c3 hb) ?_
    have : ¬ id = j := fun h => hj h.symm
    simp [dataOf, this]

theorem LinkOK_send {x y : SideSt} {id j : Nat} (v : Item) (hS : ClSdOK x j) (h : LinkOK x y j)
    (ha : (x.chans id).alive = true) (hc : (x.chans id).closed = false) :
    LinkOK { x with out := x.out ++ [.data id v], sent := upd x.sent id (x.sent id ++ [v]) } y j := by
  refine ⟨h.c4, fun hs hb => ?_⟩
  show dataOf j (x.out ++ [.data id v]) = []
  by_cases hj : j = id
  · subst hj
    rcases hS.c2 (h.c4 hs) hb with h' | h'
    · rw [hc] at h'; exact absurd h' (by simp)
    · rw [ha] at h'; exact absurd h' (by simp)
  · have : ¬ id = j := fun h => hj h.symm
    rw [dataOf_append_cl, h.c5 hs hb]; simp [dataOf, this]

/-! ### `localClose`, `doClose`, `chanClose` -/

theorem SideOK_localClose {x : SideSt} {j : Nat} (h : ClSdOK x j) (i : Nat) (err : Option Nat) (so : Bool) :
    ClSdOK (localClose x i err so) j := by
  by_cases hj : j = i
  · subst hj
    refine h.same (by simp) (by simp) (by simp) ?_ ?_ (Or.inl (by simp)) ?_ (by simp)
    all_goals (rw [localClose_chans_same]; split <;> simp <;> intro h' <;> simp [h'])
  · refine h.same (by simp) (by simp) (by simp) ?_ ?_ (Or.inr ⟨localClose_cbs_ne _ _ _ _ hj, ?_⟩) ?_
      (by rw [localClose_ended_ne _ _ _ _ hj]; exact fun h => h)
    all_goals (rw [localClose_chans_ne _ _ _ _ hj]; exact fun h => h)

theorem SideOK_doClose {x : SideSt} {id j : Nat} {f : Frame} (h : ClSdOK x j) (hf : f.closes id) :
    ClSdOK (doClose x id f).2 j := by
  rw [doClose_eq]
  split
  · exact h
  · split
    · refine SideOK_closing h hf rfl rfl rfl (fun hj => ?_) (fun _ => ?_) (fun hc => ?_) ?_
      · simp [nlo_chans, nlo_cbs, upd_ne, hj]
      · simp
      · simp at hc
      · simp
    · refine h.same rfl rfl (fun h => h) ?_ ?_ ?_ ?_ ?_
      · upd_cases j id
      · upd_cases j id
      · by_cases hj : j = id
        · subst hj; exact Or.inl (by simp)
        · exact Or.inr (by simp [nlo_chans, nlo_cbs, upd_ne, hj])
      · upd_cases j id
      · upd_cases j id

theorem LinkOK_doClose {x y : SideSt} {id j : Nat} {f : Frame} (h : LinkOK x y j) (hf : f.closes id) :
    LinkOK (doClose x id f).2 y j := by
  rw [doClose_eq]
  split
  · exact h
  · split
    · exact LinkOK_closing h hf rfl rfl rfl
    · exact ⟨h.c4, h.c5⟩

theorem SideOK_chanClose {x : SideSt} {j : Nat} (h : ClSdOK x j) (id : Nat) (err : Option Nat) :
    ClSdOK (chanClose x id err).2 j := by
  rw [chanClose_eq]
  split
  · exact h
  · split
    · exact h
    · exact SideOK_doClose h (closes_closeFrame id err)

theorem LinkOK_chanClose {x y : SideSt} {j : Nat} (h : LinkOK x y j) (id : Nat) (err : Option Nat) :
    LinkOK (chanClose x id err).2 y j := by
  rw [chanClose_eq]
  split
  · exact h
  · split
    · exact h
    · exact LinkOK_doClose h (closes_closeFrame id err)

/-! ### `epilogue`, `handle` -/

theorem SideOK_epilogue {x : SideSt} {j : Nat} (h : ClSdOK x j) (isCut : Bool) :
    ClSdOK (epilogue x isCut) j := by
  refine h.same rfl rfl (fun h => h) ?_ ?_ (Or.inl rfl) ?_ ?_
  · rw [epilogue_chans]; split <;> exact fun h => h
  · rw [epilogue_chans]; split <;> exact fun h => h
  · rw [epilogue_chans]; split <;> exact fun h => h
  · rw [epilogue_ended]; intro h'; simp [h']

/-- the callback-failure path while the IO is open: CLOSE_ERROR is written and the channel closed -/
theorem SideOK_failClose {x : SideSt} {j : Nat} (h : ∀ j, ClSdOK x j) (i e : Nat) (hcb : x.cbs i ≠ none) :
    ClSdOK (localClose (failOut x i e) i (some e) false) j := by
  have hfo : failOut x i e =
      { x with out := x.out ++ [.closeErr i e], closeSent := upd x.closeSent i true } := rfl
  rw [hfo]
  refine SideOK_closing (h j) (closes_closeErr i e) (by simp) (by simp) (by simp) (fun hj => ?_)
    (fun hb => ?_) (fun hc => ?_) ?_
  · exact ⟨localClose_chans_ne _ _ _ _ hj, localClose_cbs_ne _ _ _ _ hj, localClose_ended_ne _ _ _ _ hj⟩
  · rw [localClose_chans_same]
    by_cases hr : (x.chans i).registered = true
    · simp [hr]
    · rcases (h i).a1 hcb hb with h' | h'
      · exact absurd h' hr
      · simp [hr, h']
  · simp at hc
  · simp

theorem SideOK_cbAccept {x : SideSt} {j : Nat} (h : ClSdOK x j) (i : Nat) (v : Item) :
    ClSdOK (cbAccept x i v) j := by
  have h0 : ClSdOK (dataPre x i v) j := ⟨h.c1, h.c2, h.c3, h.a1, h.a2⟩
  have h1 := SideOK_registerAll h0 v.chans
  exact ⟨h1.c1, h1.c2, h1.c3, h1.a1, h1.a2⟩

theorem SideOK_qAccept {x : SideSt} {j : Nat} (h : ClSdOK x j) (i : Nat) (v : Item) :
    ClSdOK (qAccept x i v) j := by
  have h0 : ClSdOK (dataPre x i v) j := ⟨h.c1, h.c2, h.c3, h.a1, h.a2⟩
  have h1 := SideOK_registerAll h0 v.chans
  refine h1.same rfl rfl (fun h => h) ?_ ?_ (Or.inr ⟨rfl, ?_⟩) ?_ (fun h => h)
  all_goals
    by_cases hj : j = i
    · subst hj; simp only [qAccept, upd_same]; exact fun h => h
    · rw [qAccept_chans_ne _ _ _ hj]; exact fun h => h

theorem SideOK_handle (fails : Item → Bool) {x : SideSt} (h : ∀ j, ClSdOK x j) (w : Bool) (f : Frame)
    (j : Nat) : ClSdOK (handle fails x w f) j := by
  cases f with
  | data i v =>
    apply handle_data_cases fails x w i v (fun y => ClSdOK y j)
    · intro w' hcb _ _
      exact SideOK_failClose (fun j => SideOK_cbAccept (h j) i v) i v.val (by simp [hcb])
    · intro w' _ _ _; exact SideOK_epilogue (SideOK_cbAccept (h j) i v) false
    · intro w' _ _; exact SideOK_cbAccept (h j) i v
    · intro q _ _ _; exact SideOK_qAccept (h j) i v
    · intro _ _; exact ⟨(h j).c1, (h j).c2, (h j).c3, (h j).a1, (h j).a2⟩
  | close i =>
    exact SideOK_localClose (x := { x with closeSeen := upd x.closeSeen i true })
      ⟨(h j).c1, (h j).c2, (h j).c3, (h j).a1, (h j).a2⟩ i none false
  | closeErr i e =>
    exact SideOK_localClose (x := { x with closeSeen := upd x.closeSeen i true })
      ⟨(h j).c1, (h j).c2, (h j).c3, (h j).a1, (h j).a2⟩ i (some e) false
  | lastMsg i =>
    exact SideOK_localClose (x := { x with closeSeen := upd x.closeSeen i true })
      ⟨(h j).c1, (h j).c2, (h j).c3, (h j).a1, (h j).a2⟩ i none true
  | exec i =>
    simp only [handle]
    split
    · refine (SideOK_createAt (h j) i).same rfl rfl (fun h => h) ?_ ?_ (Or.inr ⟨rfl, ?_⟩) ?_ (fun h => h)
      all_goals
        by_cases hj : j = i
        · subst hj; simp only [upd_same]; exact fun h => h
        · simp only [upd_ne _ _ hj]; exact fun h => h
    · exact h j
  | terminate => exact SideOK_epilogue (h j) false

theorem handle_closeSent_mono (fails : Item → Bool) (x : SideSt) (w : Bool) (f : Frame) (j : Nat) :
    x.closeSent j = true → (handle fails x w f).closeSent j = true := by
  intro hc
  cases f with
  | data i v =>
    apply handle_data_cases fails x w i v (fun y => y.closeSent j = true)
    · intro w' _ _ _
      rw [localClose_closeSent, failOut_closeSent]
      rw [upd_apply]; split
      · rfl
      · simpa using hc
    · intro w' _ _ _; simpa using hc
    · intro w' _ _; simpa using hc
    · intro q _ _ _; simpa using hc
    · intro _ _; exact hc
  | close i => simpa [handle] using hc
  | closeErr i e => simpa [handle] using hc
  | lastMsg i => simpa [handle] using hc
  | exec i => simp only [handle]; split <;> simpa using hc
  | terminate => exact hc

theorem handle_broken_false (fails : Item → Bool) (x : SideSt) (w : Bool) (f : Frame) (j : Nat) :
    (handle fails x w f).broken j = false → x.broken j = false := by
  cases f with
  | data i v =>
    apply handle_data_cases fails x w i v (fun y => y.broken j = false → x.broken j = false)
    · intro w' _ _ _ hb
      rw [localClose_broken, failOut_broken, cbAccept_broken] at hb
      exact registerAll_broken_false (x := dataPre x i v) hb
    · intro w' _ _ _ hb
      rw [epilogue_broken, cbAccept_broken] at hb
      exact registerAll_broken_false (x := dataPre x i v) hb
    · intro w' _ _ hb
      rw [cbAccept_broken] at hb
      exact registerAll_broken_false (x := dataPre x i v) hb
    · intro q _ _ _ hb
      rw [qAccept_broken] at hb
      exact registerAll_broken_false (x := dataPre x i v) hb
    · intro _ _ hb; exact hb
  | close i => intro hb; simpa [handle] using hb
  | closeErr i e => intro hb; simpa [handle] using hb
  | lastMsg i => intro hb; simpa [handle] using hb
  | exec i =>
    simp only [handle]; split
    · intro hb; exact createAt_broken_false (i := i) hb
    · exact fun h => h
  | terminate => exact fun h => h

theorem handle_dataOf (fails : Item → Bool) (x : SideSt) (w : Bool) (f : Frame) (j : Nat) :
    dataOf j (handle fails x w f).out = dataOf j x.out := by
  cases f with
  | data i v =>
    apply handle_data_cases fails x w i v (fun y => dataOf j y.out = dataOf j x.out)
    · intro w' _ _ _
      rw [localClose_out, failOut_out]
      rw [dataOf_append_cl, cbAccept_out]; simp [dataOf]
    · intro w' _ _ _; rw [epilogue_out, cbAccept_out]
    · intro w' _ _; rw [cbAccept_out]
    · intro q _ _ _; rw [qAccept_out]
    · intro _ _; rfl
  | close i => simp [handle]
  | closeErr i e => simp [handle]
  | lastMsg i => simp [handle]
  | exec i => simp only [handle]; split <;> simp
  | terminate => rfl

theorem handle_closeSeen (fails : Item → Bool) (x : SideSt) (w : Bool) (f : Frame) (j : Nat) :
    (handle fails x w f).closeSeen j = true → x.closeSeen j = true ∨ Frame.isClosing j f = true := by
  have key : ∀ i, upd x.closeSeen i true j = true → x.closeSeen j = true ∨ (i == j) = true := by
    intro i h
    rw [upd_apply] at h
    split at h
    · rename_i hji; exact Or.inr (by simp [hji])
    · exact Or.inl h
  cases f with
  | data i v =>
    apply handle_data_cases fails x w i v
      (fun y => y.closeSeen j = true → x.closeSeen j = true ∨ Frame.isClosing j (Frame.data i v) = true)
    · intro w' _ _ _ hs; simp at hs; exact Or.inl hs
    · intro w' _ _ _ hs; simp at hs; exact Or.inl hs
    · intro w' _ _ hs; simp at hs; exact Or.inl hs
    · intro q _ _ _ hs; simp at hs; exact Or.inl hs
    · intro _ _ hs; exact Or.inl hs
  | close i => intro hs; simp only [handle, localClose_closeSeen] at hs; exact key i hs
  | closeErr i e => intro hs; simp only [handle, localClose_closeSeen] at hs; exact key i hs
  | lastMsg i => intro hs; simp only [handle, localClose_closeSeen] at hs; exact key i hs
  | exec i =>
    simp only [handle]; split
    · intro hs; exact Or.inl hs
    · intro hs; exact Or.inl hs
  | terminate => intro hs; exact Or.inl hs

/-! ### the pair of sides -/

theorem CloseFull_of_pair (st' : State) (p : Side)
    (h : ∀ j, ClSdOK (st'.side p) j ∧ ClSdOK (st'.side p.peer) j ∧
      LinkOK (st'.side p) (st'.side p.peer) j ∧ LinkOK (st'.side p.peer) (st'.side p) j) :
    CloseFull st' := by
  intro s id
  rcases eq_or_peer p s with rfl | rfl
  · exact ⟨(h id).1, (h id).2.2.1⟩
  · rw [peer_peer]; exact ⟨(h id).2.1, (h id).2.2.2⟩

/-- an operation of side `s` that does not touch the peer -/
theorem CloseFull_set {st : State} (hP : CloseFull st) (s : Side) (x' : SideSt)
    (hs : ∀ j, ClSdOK x' j) (hl : ∀ j, LinkOK x' (st.side s.peer) j)
    (hseen : ∀ j, x'.closeSeen j = true → (st.side s).closeSeen j = true) :
    CloseFull (st.set s x') := by
  refine CloseFull_of_pair _ s (fun j => ?_)
  rw [side_set_same, side_set_peer]
  have h2 := (hP s.peer j).2
  rw [peer_peer] at h2
  exact ⟨hs j, (hP s.peer j).1, hl j, h2.mono_right (hseen j)⟩

/-- `deliver`: the head of `y.out` is popped and handled by `x` -/
theorem deliver_pair (fails : Item → Bool) {x y : SideSt} (w : Bool) {f : Frame} {rest : List Frame}
    (hx : ∀ j, ClSdOK x j) (hy : ∀ j, ClSdOK y j) (hxy : ∀ j, LinkOK x y j) (hyx : ∀ j, LinkOK y x j)
    (hout : y.out = f :: rest) (y' : SideSt) (hy1 : y'.out = rest) (hy2 : y'.closeSent = y.closeSent)
    (hy3 : y'.broken = y.broken) (hy4 : y'.chans = y.chans) (hy5 : y'.cbs = y.cbs)
    (hy6 : y'.ended = y.ended) (hy7 : y'.closeSeen = y.closeSeen) (j : Nat) :
    ClSdOK (handle fails x w f) j ∧ ClSdOK y' j ∧
      LinkOK (handle fails x w f) y' j ∧ LinkOK y' (handle fails x w f) j := by
  refine ⟨SideOK_handle fails hx w f j, ?_, ?_, ?_⟩
  · refine (hy j).mono (by rw [hy2]) ?_ ?_ (by rw [hy3]; exact fun h => h) (by rw [hy4]; exact fun h => h)
      (by rw [hy4]; exact fun h => h) (fun hc => Or.inr ⟨by rw [← hy5]; exact hc, by rw [hy4]; exact fun h => h⟩)
      (by rw [hy4]; exact fun h => h) (by rw [hy6]; exact fun h => h)
    · rw [hy1, hout]; exact noClosing_tail
    · rw [hy1, hout]; exact wellOrdered_tail
  · refine ⟨fun hs => ?_, fun hs hb => ?_⟩
    · rw [hy7] at hs; exact handle_closeSent_mono fails x w f j ((hxy j).c4 hs)
    · rw [hy7] at hs
      rw [handle_dataOf]
      exact (hxy j).c5 hs (handle_broken_false fails x w f j hb)
  · refine ⟨fun hs => ?_, fun hs hb => ?_⟩
    · rw [hy2]
      rcases handle_closeSeen fails x w f j hs with h' | h'
      · exact (hyx j).c4 h'
      · cases hcs : y.closeSent j with
        | true => rfl
        | false =>
          have := (hy j).c1 hcs f (by rw [hout]; exact List.mem_cons_self ..)
          rw [this] at h'; exact absurd h' (by simp)
    · rw [hy1]; rw [hy3] at hb
      rcases handle_closeSeen fails x w f j hs with h' | h'
      · have := (hyx j).c5 h' hb
        rw [hout] at this; exact dataOf_tail_nil this
      · exact (hy j).c3 hb [] f rest (by rw [hout]; rfl) h'

/-! ### the remaining single-side operations -/

theorem LinkOK.same {x x' y : SideSt} {j : Nat} (h : LinkOK x y j) (hcs : x'.closeSent = x.closeSent)
    (hout : x'.out = x.out) (hbr : x'.broken j = false → x.broken j = false) : LinkOK x' y j :=
  h.mono_left (by rw [hcs]; exact fun h => h) hbr (by rw [hout]; exact fun h => h)

/-- only the record of `id` changed, and none of the flags the invariant looks at -/
theorem SideOK_chanTweak {x x' : SideSt} {j : Nat} (h : ClSdOK x j) (id : Nat) (c' : Chan)
    (hch : x'.chans = upd x.chans id c') (hcl : c'.closed = (x.chans id).closed)
    (hal : c'.alive = (x.chans id).alive) (hreg : c'.registered = (x.chans id).registered)
    (hcr : c'.created = (x.chans id).created)
    (hcs : x'.closeSent = x.closeSent) (hout : x'.out = x.out) (hbr : x'.broken = x.broken)
    (hcb : x'.cbs = x.cbs) (hen : x'.ended = x.ended) : ClSdOK x' j := by
  refine h.same (by rw [hcs]) hout (by rw [hbr]; exact fun h => h) ?_ ?_ (Or.inr ⟨by rw [hcb], ?_⟩) ?_
    (by rw [hen]; exact fun h => h)
  all_goals
    rw [hch]
    by_cases hj : j = id
    · subst hj; simp only [upd_same, hcl, hal, hreg, hcr]; exact fun h => h
    · simp only [upd_ne _ _ hj]; exact fun h => h

theorem SideOK_setcb {x x' : SideSt} {j id : Nat} (h : ClSdOK x j)
    (hch : x'.chans = upd x.chans id { x.chans id with queue := none })
    (hcs : x'.closeSent = x.closeSent) (hout : x'.out = x.out) (hen : x'.ended = x.ended)
    (hbr : x'.broken = x.broken ∨ x'.broken = upd x.broken id true)
    (hcb : x'.cbs = x.cbs ∨ ((∃ w, x'.cbs = upd x.cbs id (some w)) ∧ (x.chans id).registered = true)) :
    ClSdOK x' j := by
  have hbr' : x'.broken j = false → x.broken j = false := by
    intro hb
    rcases hbr with e | e
    · rw [e] at hb; exact hb
    · rw [e, upd_apply] at hb
      split at hb
      · simp at hb
      · exact hb
  have hc : ∀ (P : Chan → Prop), (P (x.chans j) → P { x.chans j with queue := none }) →
      P (x.chans j) → P (x'.chans j) := by
    intro P hP hx
    rw [hch]
    by_cases hj : j = id
    · subst hj; rw [upd_same]; exact hP hx
    · rw [upd_ne _ _ hj]; exact hx
  refine h.mono (by rw [hcs]) (by rw [hout]; exact fun h => h) (by rw [hout]; exact fun h => h) hbr'
    (hc (fun c => c.closed = true) (fun h => h)) (hc (fun c => c.alive = false) (fun h => h)) ?_
    (hc (fun c => c.created = true) (fun h => h)) (by rw [hen]; exact fun h => h)
  intro hcbs
  rcases hcb with e | ⟨⟨w, e⟩, hr⟩
  · exact Or.inr ⟨by rw [← e]; exact hcbs, hc (fun c => c.registered = true) (fun h => h)⟩
  · by_cases hj : j = id
    · subst hj
      exact Or.inl (Or.inl (hc (fun c => c.registered = true) (fun h => h) hr))
    · rw [e, upd_ne _ _ hj] at hcbs
      exact Or.inr ⟨hcbs, hc (fun c => c.registered = true) (fun h => h)⟩

theorem SideOK_drop_quiet {x : SideSt} {j : Nat} (h : ClSdOK x j) (id : Nat) :
    ClSdOK { x with chans := upd x.chans id { x.chans id with alive := false, registered := false } } j := by
  refine h.mono rfl (fun h => h) (fun h => h) (fun h => h) ?_ ?_ ?_ ?_ (fun h => h)
  · upd_cases j id
  · upd_cases j id
  · intro hc
    by_cases hj : j = id
    · subst hj; exact Or.inl (Or.inr (by simp))
    · exact Or.inr ⟨hc, by simp [upd_ne, hj]⟩
  · upd_cases j id

theorem SideOK_drop_frame {x : SideSt} {j id : Nat} {f : Frame} (h : ClSdOK x j) (hf : f.closes id)
    (hcr : (x.chans id).created = true) :
    ClSdOK { x with chans := upd x.chans id { x.chans id with alive := false, registered := false },
                    out := x.out ++ [f], closeSent := upd x.closeSent id true } j := by
  refine SideOK_closing h hf rfl rfl rfl (fun hj => ?_) (fun _ => Or.inr (by simp))
    (fun _ _ => Or.inr (by simp)) (Or.inl (by simp [hcr]))
  simp [upd_ne, hj]

theorem dropFrame_closes (c : Chan) (id : Nat) :
    (if c.rclosed then Frame.close id else if c.queue.isNone then Frame.lastMsg id else Frame.close id).closes id := by
  split
  · exact closes_close id
  · split
    · exact closes_lastMsg id
    · exact closes_close id

/-! ### preservation -/

theorem CloseFull_init : CloseFull init := by
  intro s id
  have h1 : (init.side s).out = [] := by cases s <;> rfl
  have h2 : (init.side s).closeSent id = false := by cases s <;> rfl
  have h3 : (init.side s).cbs id = none := by cases s <;> rfl
  have h4 : (init.side s.peer).closeSeen id = false := by cases s <;> rfl
  refine ⟨⟨fun _ => ?_, fun h => ?_, fun _ => ?_, fun h => ?_, fun h => ?_⟩, ⟨fun h => ?_, fun h => ?_⟩⟩
  · rw [h1]; exact noClosing_nil id
  · rw [h2] at h; exact absurd h (by simp)
  · rw [h1]; exact wellOrdered_nil id
  · exact absurd h3 h
  · rw [h2] at h; exact absurd h (by simp)
  · rw [h4] at h; exact absurd h (by simp)
  · rw [h4] at h; exact absurd h (by simp)

theorem CloseFull_step (fails : Item → Bool) (st : State) (op : Op) :
    ShapeInv st → CloseFull st → CloseFull (step fails st op).2 := by
  intro hS hP
  cases op with
  | newchannel s =>
    simp only [step]
    split
    · exact hP
    · refine CloseFull_set hP s _ (fun j => ?_) (fun j => ?_) (fun j h => h)
      · have := SideOK_createAt (hP s j).1 (st.side s).count
        exact ⟨this.c1, this.c2, this.c3, this.a1, this.a2⟩
      · exact ⟨(hP s j).2.c4, fun hs hb => (hP s j).2.c5 hs
          (createAt_broken_false (x := st.side s) (i := (st.side s).count) hb)⟩
  | remoteExec =>
    simp only [step]
    split
    · exact hP
    · split
      · refine CloseFull_set hP .A _ (fun j => ?_) (fun j => ?_) (fun j h => h)
        · have := (hP .A j).1
          exact ⟨this.c1, this.c2, this.c3, this.a1, this.a2⟩
        · exact ⟨(hP .A j).2.c4, (hP .A j).2.c5⟩
      · refine CloseFull_set hP .A _ (fun j => ?_) (fun j => ?_) (fun j h => h)
        · have := SideOK_createAt (hP .A j).1 (st.side .A).count
          exact this.mono rfl (fun h => noClosing_append h rfl) (fun h => wellOrdered_append h rfl)
            (fun h => h) (fun h => h) (fun h => h) (fun hc => Or.inr ⟨hc, fun h => h⟩) (fun h => h)
            (fun h => h)
        · refine (hP .A j).2.mono_left (fun h => h)
            (fun hb => createAt_broken_false (x := st.side .A) (i := (st.side .A).count) hb) (fun hd => ?_)
          show dataOf j ((st.side .A).out ++ [Frame.exec (st.side .A).count]) = []
          rw [dataOf_append_cl]; exact (by rw [show dataOf j (st.side .A).out = [] from hd]; rfl)
  | send s id v =>
    simp only [step]
    split
    · exact hP
    · rename_i h1
      split
      · exact hP
      · rename_i h2
        split
        · exact hP
        · have ha : ((st.side s).chans id).alive = true := by
            cases h : ((st.side s).chans id).alive with
            | true => rfl
            | false => simp [h] at h1
          have hc : ((st.side s).chans id).closed = false := by simpa using h2
          exact CloseFull_set hP s _ (fun j => SideOK_send v (hP s j).1 ha hc)
            (fun j => LinkOK_send v (hP s j).1 (hP s j).2 ha hc) (fun j h => h)
  | close s id err =>
    simp only [step]
    split
    · exact hP
    · exact CloseFull_set hP s _ (fun j => SideOK_chanClose (hP s j).1 id err)
        (fun j => LinkOK_chanClose (hP s j).2 id err) (fun j h => by simpa using h)
  | receive s id =>
    simp only [step]
    split
    · exact hP
    · split
      · exact hP
      · exact hP
      · exact CloseFull_set hP s _
          (fun j => SideOK_chanTweak (hP s j).1 id _ rfl rfl rfl rfl rfl rfl rfl rfl rfl rfl)
          (fun j => (hP s j).2.same rfl rfl (fun h => h)) (fun j h => h)
      · split
        · exact CloseFull_set hP s _
            (fun j => SideOK_chanTweak (hP s j).1 id _ rfl rfl rfl rfl rfl rfl rfl rfl rfl rfl)
            (fun j => (hP s j).2.same rfl rfl (fun h => h)) (fun j h => h)
        · exact CloseFull_set hP s _
            (fun j => SideOK_chanTweak (hP s j).1 id _ rfl rfl rfl rfl rfl rfl rfl rfl rfl rfl)
            (fun j => (hP s j).2.same rfl rfl (fun h => h)) (fun j h => h)
  | waitclose s id =>
    simp only [step]
    split
    · exact hP
    · split
      · exact hP
      · split
        · exact CloseFull_set hP s _
            (fun j => SideOK_chanTweak (hP s j).1 id _ rfl rfl rfl rfl rfl rfl rfl rfl rfl rfl)
            (fun j => (hP s j).2.same rfl rfl (fun h => h)) (fun j h => h)
        · split <;> exact hP
  | setcallback s id w =>
    simp only [step]
    split
    · exact hP
    · rename_i halive
      have ha : ((st.side s).chans id).alive = true := by simpa using halive
      split
      · exact hP
      · split
        · exact CloseFull_set hP s _
            (fun j => SideOK_setcb (hP s j).1 rfl rfl rfl rfl (Or.inr rfl) (Or.inl rfl))
            (fun j => (hP s j).2.same rfl rfl (fun hb => by
              have : upd (st.side s).broken id true j = false := hb
              rw [upd_apply] at this
              split at this
              · simp at this
              · exact this)) (fun j h => h)
        · split
          · exact CloseFull_set hP s _
              (fun j => SideOK_setcb (hP s j).1 rfl rfl rfl rfl (Or.inl rfl) (Or.inl rfl))
              (fun j => (hP s j).2.same rfl rfl (fun h => h)) (fun j h => h)
          · split
            · exact CloseFull_set hP s _
                (fun j => SideOK_setcb (hP s j).1 rfl rfl rfl rfl (Or.inl rfl) (Or.inl rfl))
                (fun j => (hP s j).2.same rfl rfl (fun h => h)) (fun j h => h)
            · rename_i hncl
              have hreg : ((st.side s).chans id).registered = true := by
                cases hr : ((st.side s).chans id).registered with
                | true => rfl
                | false =>
                  have h := hS s id
                  have := h.2.2.2.2.1 (h.2.2.2.1 ha) ha hr
                  simp [this] at hncl
              exact CloseFull_set hP s _
                (fun j => SideOK_setcb (hP s j).1 rfl rfl rfl rfl (Or.inl rfl) (Or.inr ⟨⟨w, rfl⟩, hreg⟩))
                (fun j => (hP s j).2.same rfl rfl (fun h => h)) (fun j h => h)
  | drop s id =>
    simp only [step]
    split
    · exact hP
    · rename_i hg
      have ha : ((st.side s).chans id).alive = true := by
        cases h : ((st.side s).chans id).alive with
        | true => rfl
        | false => simp [h] at hg
      have hcr : ((st.side s).chans id).created = true := (hS s id).2.2.2.1 ha
      split
      · exact CloseFull_set hP s _ (fun j => SideOK_drop_quiet (hP s j).1 id)
          (fun j => (hP s j).2.same rfl rfl (fun h => h)) (fun j h => h)
      · exact CloseFull_set hP s _
          (fun j => SideOK_drop_frame (hP s j).1 (dropFrame_closes _ id) hcr)
          (fun j => LinkOK_closing (hP s j).2 (dropFrame_closes _ id) rfl rfl rfl) (fun j h => h)
  | isclosed s id =>
    simp only [step]
    split <;> exact hP
  | deliver p =>
    simp only [step]
    split
    · exact hP
    · split
      · exact hP
      · rename_i f rest hout
        have hyx : ∀ j, LinkOK (st.side p.peer) (st.side p) j := fun j => by
          have := (hP p.peer j).2; rwa [peer_peer] at this
        split
        all_goals
          refine CloseFull_of_pair _ p (fun j => ?_)
          simp only [side_set_same, side_set_peer, side_peer_set]
          first
          | exact deliver_pair fails (p == .B) (fun j => (hP p j).1) (fun j => (hP p.peer j).1)
              (fun j => (hP p j).2) hyx hout { st.side p.peer with out := rest, ioOpen := false }
              rfl rfl rfl rfl rfl rfl rfl j
          | exact deliver_pair fails (p == .B) (fun j => (hP p j).1) (fun j => (hP p.peer j).1)
              (fun j => (hP p j).2) hyx hout { st.side p.peer with out := rest }
              rfl rfl rfl rfl rfl rfl rfl j
  | execFinish id o =>
    simp only [step]
    split
    · exact hP
    · have h0 : ∀ j, ClSdOK { st.b with chans := upd st.b.chans id { st.b.chans id with executing := false } } j :=
        fun j => SideOK_chanTweak (hP .B j).1 id _ rfl rfl rfl rfl rfl rfl rfl rfl rfl rfl
      have h1 : ∀ j, LinkOK { st.b with chans := upd st.b.chans id { st.b.chans id with executing := false } }
          (st.side Side.B.peer) j := fun j => (hP .B j).2.same rfl rfl (fun h => h)
      exact CloseFull_set hP .B _ (fun j => SideOK_chanClose (h0 j) id _)
        (fun j => LinkOK_chanClose (h1 j) id _) (fun j h => by simpa using h)
  | cut p =>
    simp only [step]
    split
    · exact hP
    · refine CloseFull_of_pair _ p (fun j => ?_)
      simp only [side_set_same, side_set_peer, side_peer_set]
      have hyx : LinkOK (st.side p.peer) (st.side p) j := by
        have := (hP p.peer j).2; rwa [peer_peer] at this
      have hy := (hP p.peer j).1
      exact ⟨SideOK_epilogue (hP p j).1 true, ⟨hy.c1, hy.c2, hy.c3, hy.a1, hy.a2⟩,
        ⟨(hP p j).2.c4, (hP p j).2.c5⟩, ⟨hyx.c4, hyx.c5⟩⟩

/-! ### the exported statements -/

theorem CloseInv_init : CloseInv init := ((CloseFull_iff init).1 CloseFull_init).1
theorem CloseAux_init : CloseAux init := ((CloseFull_iff init).1 CloseFull_init).2

/-- `CloseInv` is preserved by every step (given the record shape and the auxiliary invariant) -/
theorem CloseInv_step (fails : Item → Bool) (st : State) (op : Op) :
    ShapeInv st → CloseAux st → CloseInv st → CloseInv (step fails st op).2 :=
  fun hS hA hC => ((CloseFull_iff _).1 (CloseFull_step fails st op hS ((CloseFull_iff st).2 ⟨hC, hA⟩))).1

/-- the auxiliary invariant is preserved by every step -/
theorem CloseAux_step (fails : Item → Bool) (st : State) (op : Op) :
    ShapeInv st → CloseInv st → CloseAux st → CloseAux (step fails st op).2 :=
  fun hS hC hA => ((CloseFull_iff _).1 (CloseFull_step fails st op hS ((CloseFull_iff st).2 ⟨hC, hA⟩))).2

theorem CloseFull_reachable (fails : Item → Bool) (hShape : ∀ st, Reachable fails st → ShapeInv st) :
    ∀ st, Reachable fails st → CloseFull st :=
  Reachable.induction CloseFull_init (fun st op hr h => CloseFull_step fails st op (hShape st hr) h)

theorem CloseInv_reachable (fails : Item → Bool) (hShape : ∀ st, Reachable fails st → ShapeInv st) :
    ∀ st, Reachable fails st → CloseInv st :=
  fun st hr => ((CloseFull_iff st).1 (CloseFull_reachable fails hShape st hr)).1

theorem CloseAux_reachable (fails : Item → Bool) (hShape : ∀ st, Reachable fails st → ShapeInv st) :
    ∀ st, Reachable fails st → CloseAux st :=
  fun st hr => ((CloseFull_iff st).1 (CloseFull_reachable fails hShape st hr)).2

/-- C03: by the time side `p` has handled a closing frame of the peer for `id`, it has handled every
DATA frame the peer ever wrote on `id` (unless the peer re-opened the id) -/
theorem C03_data_before_eof (st : State) (p : Side) (id : Nat) :
    WireInv st → CloseInv st → (st.side p).closeSeen id = true → (st.side p.peer).broken id = false →
      (st.side p).delivered id = (st.side p.peer).sent id := by
  intro hW hC hs hb
  have h5 := (hC p.peer id).2.2.2.2
  have hw := hW p.peer id
  rw [peer_peer] at h5 hw
  rw [hw, h5 hs hb, List.append_nil]

/-- no DATA frame for `id` is written after a closing frame for `id` (unless the id was re-opened):
a `send` after the side wrote its closing frame is refused -/
theorem C03_no_send_after_close (fails : Item → Bool) (st : State) (s : Side) (id : Nat) (v : Item) :
    CloseInv st → (st.side s).closeSent id = true → (st.side s).broken id = false →
      (step fails st (.send s id v)).1 = .notEnabled ∨ (step fails st (.send s id v)).1 = .osError := by
  intro hC hcs hb
  simp only [step]
  split
  · exact Or.inl rfl
  · rename_i h1
    split
    · exact Or.inr rfl
    · rename_i h2
      exfalso
      rcases (hC s id).2.1 hcs hb with h | h
      · exact h2 h
      · simp [h] at h1

end ExecnetVerif.Net
