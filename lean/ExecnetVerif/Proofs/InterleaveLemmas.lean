import ExecnetVerif.Model.Chunk
namespace ExecnetVerif

variable {α β : Type}

/-- an interleaving of mapped sequences is the image of an interleaving of the sequences -/
theorem Interleaving.map_inv (f : α → β) {seqs' : List (List β)} {out : List β}
    (h : Interleaving seqs' out) :
    ∀ seqs : List (List α), seqs' = seqs.map (List.map f) →
      ∃ m, out = m.map f ∧ Interleaving seqs m := by
  induction h with
  | done hall =>
    intro seqs he
    refine ⟨[], rfl, .done ?_⟩
    intro s hs
    have : s.map f ∈ seqs.map (List.map f) := List.mem_map_of_mem hs
    have := hall _ (he ▸ this)
    simpa using this
  | step i x s hi _ ih =>
    intro seqs he
    subst he
    rw [List.getElem?_map] at hi
    cases hu : seqs[i]? with
    | none => simp [hu] at hi
    | some u =>
      simp only [hu, Option.map_some, Option.some.injEq] at hi
      cases u with
      | nil => simp at hi
      | cons y u' =>
        simp only [List.map_cons, List.cons.injEq] at hi
        obtain ⟨hy, hs⟩ := hi
        obtain ⟨m', hm', hint⟩ := ih (seqs.set i u') (by rw [List.map_set, hs])
        exact ⟨y :: m', by simp [hy, hm'], .step i y u' hu hint⟩

/-- every element of an interleaving comes from one of the sequences -/
theorem Interleaving.mem {seqs : List (List α)} {out : List α} (h : Interleaving seqs out) :
    ∀ x ∈ out, ∃ s ∈ seqs, x ∈ s := by
  induction h with
  | done _ => intro x hx; simp at hx
  | step i x s hi _ ih =>
    intro y hy
    have hmem : (x :: s) ∈ _ := List.mem_of_getElem? hi
    simp only [List.mem_cons] at hy
    cases hy with
    | inl h => exact ⟨x :: s, hmem, by simp [h]⟩
    | inr h =>
      obtain ⟨s', hs', hys'⟩ := ih y h
      cases List.mem_or_eq_of_mem_set hs' with
      | inl h1 => exact ⟨s', h1, hys'⟩
      | inr h1 => exact ⟨x :: s, hmem, by simp [← h1, hys']⟩

/-- per-sender order is kept: every sequence is a subsequence of the interleaving -/
theorem Interleaving.sublist {seqs : List (List α)} {out : List α} (h : Interleaving seqs out) :
    ∀ (i : Nat) (s : List α), seqs[i]? = some s → s.Sublist out := by
  induction h with
  | done hall =>
    intro i s hi
    have := hall s (List.mem_of_getElem? hi)
    simp [this]
  | step j x u hj _ ih =>
    intro i s hi
    by_cases hij : j = i
    · subst hij
      rw [hj] at hi
      cases hi
      have hlt : j < _ := (List.getElem?_eq_some_iff.mp hj).1
      exact (ih j u (by rw [List.getElem?_set_self hlt])).cons_cons x
    · exact (ih i s (by rw [List.getElem?_set_ne hij]; exact hi)).cons x

theorem flatten_perm_of_getElem? : ∀ (seqs : List (List α)) (i : Nat) (x : α) (s : List α),
    seqs[i]? = some (x :: s) → seqs.flatten.Perm (x :: (seqs.set i s).flatten) := by
  intro seqs
  induction seqs with
  | nil => intro i x s h; simp at h
  | cons a t ih =>
    intro i x s h
    cases i with
    | zero =>
      simp only [List.getElem?_cons_zero, Option.some.injEq] at h
      subst h
      simp
    | succ i =>
      simp only [List.getElem?_cons_succ] at h
      simp only [List.set_cons_succ, List.flatten_cons]
      have := (ih i x s h).append_left a
      exact this.trans List.perm_middle

/-- nothing lost, nothing duplicated: an interleaving is a permutation of all elements sent -/
theorem Interleaving.perm {seqs : List (List α)} {out : List α} (h : Interleaving seqs out) :
    out.Perm seqs.flatten := by
  induction h with
  | done hall =>
    rename_i seqs
    have : seqs.flatten = [] := by
      simp only [List.flatten_eq_nil_iff]; exact hall
    simp [this]
  | step i x s hi _ ih =>
    exact ((ih.cons x).trans (flatten_perm_of_getElem? _ i x s hi).symm)

end ExecnetVerif
