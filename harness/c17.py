"""C17 — RSync makes every target tree equal to the source, minimally (DESIGN.md §4 C17).

A *case* is a JSON value (replayable as is):

  {"targets": [{"prior": TREE|null, "dest": "t0"|"deep/er/t1"}, ...],           1-3 targets
   "rounds":  [{"src": TREE, "cwd": "root|src|sub|unrelated", "slash": bool,
                "callback": bool, "delete": [bool per target]}, ...]}            modify-then-resync

  TREE = {"k":"f","c":CONTENT,"mode":int,"ns":int} | {"k":"d","mode":int,"e":{name: TREE}}
       | {"k":"l","t":str} | {"k":"p"}   (a fifo: prior targets only, judged by the oracle alone)
  CONTENT = ["hex", "…"] | ["gen", seed, size]            (deterministic pseudo-random bytes)
  link targets may contain {S} (source dir), {T} (this target's dest dir), {X} (an unrelated existing dir)
  a round may carry "phantom": [[dir components…, name], …] — names `os.listdir` reports in that source directory
  although nothing is there (an entry vanishing between listdir and lstat: the sender's `(None, 0, 0)` message);
  such rounds are compared with the model only (the property does not speak about races)

Every round: the source tree is (re)built from its spec, the REAL `RSync` runs over real popen gateways
(one per target) from the given working directory, all trees are read back with lstat/readlink/read and
judged (a) by the model-free oracle `judge` (the property text) and (b) against the Lean driver's
`rsync.sync` prediction (tree + list of files whose content travelled).
"""
from __future__ import annotations

import hashlib
import json
import os
import random
import shutil
import stat
import struct
import threading

from . import common

FINDING_D19 = "C17-quick-check-same-size-mtime"
FINDING_MTIME = "C17-mtime-float-floor-early-epoch"

NAMES = ["a", "b.txt", "with space", "ünï-cödé", "日本語", "x" * 40, "-dash", "#hash", ".hidden", "tab\tname",
         "new\nline", "f1", "sub", "dir.d", "é", "A", "a b  c", "~tilde", "per%cent", "q'uote\"", "z",
         # names that merely START like the parent directory (a link into them does not leave the tree)
         "..data", "...", "..2024_05_01"]
FILE_MODES = [0o400, 0o440, 0o444, 0o500, 0o555, 0o600, 0o640, 0o644, 0o664, 0o666, 0o700, 0o744, 0o755, 0o777]
DIR_MODES = [0o500, 0o555, 0o700, 0o711, 0o750, 0o755, 0o775, 0o777]
SEND_TIMEOUT = 30.0


# ---------------------------------------------------------------------------------------
# tree specs -> file system, file system -> observed nodes
# ---------------------------------------------------------------------------------------
def content_bytes(c) -> bytes:
    if c[0] == "hex":
        return bytes.fromhex(c[1])
    return random.Random(c[1]).randbytes(c[2])


def force_rmtree(path):
    """remove whatever is at path (dirs may lack owner permission bits)"""
    try:
        st = os.lstat(path)
    except OSError:
        return
    if not stat.S_ISDIR(st.st_mode):
        os.unlink(path)
        return
    for root, dirs, _files in os.walk(path):
        for d in dirs:
            p = os.path.join(root, d)
            if not os.path.islink(p):
                try:
                    os.chmod(p, 0o700)
                except OSError:
                    pass
    try:
        os.chmod(path, 0o700)
    except OSError:
        pass
    shutil.rmtree(path, ignore_errors=True)


def build(spec, path, subst):
    """materialise a TREE spec at path (parent exists, nothing at path)"""
    k = spec["k"]
    if k == "f":
        with open(path, "wb") as f:
            f.write(content_bytes(spec["c"]))
        os.chmod(path, spec["mode"])
        os.utime(path, ns=(spec["ns"], spec["ns"]))
    elif k == "l":
        t = spec["t"]
        for key, val in subst.items():
            t = t.replace(key, val)
        os.symlink(t, path)
    elif k == "p":
        os.mkfifo(path)
    elif k == "d":
        os.makedirs(path)
        for name, sub in spec["e"].items():
            build(sub, os.path.join(path, name), subst)
        os.chmod(path, spec["mode"])
    else:
        raise common.ToolFailure("bad tree spec kind %r" % (k,))


def read_tree(path):
    """what lstat/readlink/read see at path; None if nothing is there"""
    try:
        st = os.lstat(path)
    except OSError:
        return None
    if stat.S_ISREG(st.st_mode):
        with open(path, "rb") as f:
            data = f.read()
        return {"k": "f", "sha": hashlib.sha256(data).hexdigest(), "size": len(data), "mode": stat.S_IMODE(st.st_mode),
                "mtime": st.st_mtime, "ns": st.st_mtime_ns}
    if stat.S_ISLNK(st.st_mode):
        return {"k": "l", "t": os.readlink(path)}
    if stat.S_ISDIR(st.st_mode):
        ents = {}
        restore = None
        if not os.access(path, os.R_OK | os.X_OK):  # not root: make it listable for the read-back only
            restore = stat.S_IMODE(st.st_mode)
            os.chmod(path, restore | 0o500)
        try:
            for name in os.listdir(path):
                ents[name] = read_tree(os.path.join(path, name))
        finally:
            if restore is not None:
                os.chmod(path, restore)
        return {"k": "d", "mode": stat.S_IMODE(st.st_mode), "e": ents}
    return {"k": "o", "fmt": stat.S_IFMT(st.st_mode)}


def hexs(s: str) -> str:
    b = s.encode("utf-8")
    return b.hex() if b else "-"


def tokens(node) -> str:
    """driver syntax of an observed node (entries sorted by the hex of their name)"""
    if node is None:
        return "A"
    k = node["k"]
    if k == "f":
        bits = struct.unpack(">Q", struct.pack(">d", node["mtime"]))[0]
        return "F %d %d %d %d" % (node["size"], int(node["sha"][:15], 16), node["mode"], bits)
    if k == "l":
        return "L " + hexs(node["t"])
    if k == "d":
        items = sorted((hexs(n), t) for n, t in node["e"].items())
        return " ".join(["D %d %d" % (node["mode"], len(items))] + [h + " " + tokens(t) for h, t in items])
    raise ValueError("kind not expressible in the model: %r" % (k,))


def has_other(node) -> bool:
    if node is None:
        return False
    if node["k"] == "o":
        return True
    if node["k"] == "d":
        return any(has_other(t) for t in node["e"].values())
    return False


def same_file(a, b, exact_ns=False) -> bool:
    return (a["sha"] == b["sha"] and a["size"] == b["size"] and a["mode"] == b["mode"] and a["mtime"] == b["mtime"]
            and (not exact_ns or a["ns"] == b["ns"]))


def deep_equal(a, b) -> bool:
    """untouched: same kind, content, bits, mtime (to the nanosecond), link string, entries"""
    if a is None or b is None:
        return a is None and b is None
    if a["k"] != b["k"]:
        return False
    if a["k"] == "f":
        return same_file(a, b, exact_ns=True)
    if a["k"] == "l":
        return a["t"] == b["t"]
    if a["k"] == "d":
        return a["mode"] == b["mode"] and a["e"].keys() == b["e"].keys() and all(deep_equal(a["e"][n], b["e"][n]) for n in a["e"])
    return a == b


# ---------------------------------------------------------------------------------------
# the model-free oracle: the property text, on observed trees
# ---------------------------------------------------------------------------------------
def expected_link(target: str, srcdir: str, destdir: str) -> str:
    """a link keeps pointing at the corresponding place: the same string, except an absolute target
    strictly inside the source tree, which must point at the same relative place below destdir"""
    if target.startswith("/"):
        nt = os.path.normpath(target)
        if nt.startswith("//"):
            nt = nt[1:]
        ns = os.path.normpath(srcdir)
        if nt != ns and nt.startswith(ns + "/"):
            return destdir + "/" + nt[len(ns) + 1:]
    return target


def judge(src, prior, got, sent, delete, srcdir, destdir):
    """returns list of (what, finding|None). src/prior/got are observed nodes (prior/got may be None)."""
    out = []
    sent_set = set(sent)
    if len(sent_set) != len(sent):
        out.append(("content of a file sent more than once: %r" % (sorted(sent),), None))
    must_not_send = set()
    src_files = set()

    def walk(s, p, g, rel):
        where = "/".join(rel) or "."
        if s["k"] == "f":
            src_files.add("/".join(rel))
            if p is not None and p["k"] == "f" and p["sha"] == s["sha"] and p["size"] == s["size"]:
                must_not_send.add("/".join(rel))
            if g is None or g["k"] != "f":
                out.append(("%s: source file missing / of another kind at the target (%s)" % (where, g and g["k"]), None))
                return
            if g["sha"] != s["sha"] or g["size"] != s["size"]:
                finding = None
                if (p is not None and p["k"] == "f" and p["size"] == s["size"] and p["mtime"] == s["mtime"]
                        and p["sha"] != s["sha"] and g["sha"] == p["sha"]):
                    finding = FINDING_D19
                out.append(("%s: content differs from the source" % where, finding))
            if g["mode"] != s["mode"]:
                out.append(("%s: permission bits %o, source has %o" % (where, g["mode"], s["mode"]), None))
            if g["mtime"] != s["mtime"]:
                # CPython's utime(float) floors to the nanosecond: before 1974 the float is finer than 1 ns
                finding = FINDING_MTIME if (s["mtime"] < 2**27 and 0 < s["ns"] - g["ns"] <= 2) else None
                out.append(("%s: st_mtime %r, source has %r" % (where, g["mtime"], s["mtime"]), finding))
        elif s["k"] == "l":
            want = expected_link(s["t"], srcdir, destdir)
            if g is None or g["k"] != "l":
                out.append(("%s: source symlink missing / of another kind at the target (%s)" % (where, g and g["k"]), None))
            elif g["t"] != want:
                out.append(("%s: symlink points at %r, expected %r (source %r)" % (where, g["t"], want, s["t"]), None))
        elif s["k"] == "d":
            if g is None or g["k"] != "d":
                out.append(("%s: source directory missing / of another kind at the target (%s)" % (where, g and g["k"]), None))
                return
            if g["mode"] != (s["mode"] | 0o700):
                out.append(("%s: directory bits %o, source has %o (owner rwx forced on)" % (where, g["mode"], s["mode"]), None))
            pe = p["e"] if (p is not None and p["k"] == "d") else {}
            for n, sub in s["e"].items():
                walk(sub, pe.get(n), g["e"].get(n), rel + [n])
            for n in g["e"]:
                if n in s["e"]:
                    continue
                if delete:
                    out.append(("%s/%s: entry the source does not have remains despite delete=True" % (where, n), None))
                elif n not in pe:
                    out.append(("%s/%s: entry appeared from nowhere" % (where, n), None))
                elif not deep_equal(pe[n], g["e"][n]):
                    out.append(("%s/%s: unrelated prior entry was modified" % (where, n), None))
            if not delete:
                for n in pe:
                    if n not in s["e"] and n not in g["e"]:
                        out.append(("%s/%s: unrelated prior entry vanished without delete" % (where, n), None))
        else:
            raise common.ToolFailure("source tree contains an entry of kind %r" % (s["k"],))

    walk(src, prior, got, [])
    for p in sorted(sent_set):
        if p not in src_files:
            out.append(("content sent for %r which is not a source file" % p, None))
        elif p in must_not_send:
            out.append(("%s: content transferred although the target already had identical content" % p, None))
    return out


def branches(res, s, p, srcdir, delete):
    """which branch of the model each position takes (input distribution / model branch coverage)"""
    if s["k"] == "f":
        if p is None:
            res.stat("br_file_new")
        elif p["k"] != "f":
            res.stat("br_file_replaces_" + p["k"])
        elif p["size"] != s["size"]:
            res.stat("br_file_size_differs")
        elif p["mtime"] != s["mtime"]:
            res.stat("br_file_checksum_" + ("match" if p["sha"] == s["sha"] else "differs"))
        elif p["mode"] != s["mode"]:
            res.stat("br_file_chmod_only")
        else:
            res.stat("br_file_skip")
    elif s["k"] == "l":
        t = s["t"]
        if not t.startswith("/"):
            kind = "relative"
        elif expected_link(t, srcdir, "/D") != t:
            kind = "abs_inside"
        elif os.path.normpath(t) == os.path.normpath(srcdir):
            kind = "abs_root"
        else:
            kind = "abs_outside"
        res.stat("br_link_%s_over_%s" % (kind, "none" if p is None else p["k"]))
    else:
        res.stat("br_dir_" + ("new" if p is None else "existing" if p["k"] == "d" else "replaces_" + p["k"]))
        pe = p["e"] if (p is not None and p["k"] == "d") else {}
        for n, sub in s["e"].items():
            branches(res, sub, pe.get(n), srcdir, delete)
        extra = [n for n in pe if n not in s["e"]]
        if extra:
            res.stat("br_unlisted_" + ("deleted" if delete else "kept"), len(extra))


# ---------------------------------------------------------------------------------------
# running the real code
# ---------------------------------------------------------------------------------------
class Env:
    """gateways reused across cases; each case in a fresh scratch dir"""

    def __init__(self, ctx):
        self.ctx = ctx
        self.execnet = ctx.execnet
        self.base = common.scratch_dir("c17")
        self.group = None
        self.gws = []
        self.n = 0
        self.home = os.getcwd()
        from execnet.rsync import RSync

        class Recorder(RSync):
            def __init__(self, *a, **kw):
                kw["verbose"] = False
                super().__init__(*a, **kw)
                self.reported = []

            def _report_send_file(self, gateway, modified_rel_path):
                self.reported.append((gateway.id, modified_rel_path))

        self.Recorder = Recorder

    def gateways(self, n):
        if self.group is None:
            self.group = self.execnet.Group()
            self.gws = []
        while len(self.gws) < n:
            self.gws.append(self.group.makegateway("popen//id=c17gw%d_%d" % (len(self.gws), self.n)))
        return self.gws[:n]

    def reset_gateways(self):
        if self.group is not None:
            try:
                self.group.terminate(timeout=2.0)
            except Exception:  # noqa: BLE001
                pass
        self.group = None
        self.gws = []

    def close(self):
        os.chdir(self.home)
        self.reset_gateways()
        force_rmtree(self.base)

    def case_dir(self):
        self.n += 1
        d = os.path.join(self.base, "case%d" % self.n)
        force_rmtree(d)
        os.makedirs(d)
        return d


def first_subdir(path):
    for root, dirs, _files in os.walk(path):
        for d in sorted(dirs):
            p = os.path.join(root, d)
            if not os.path.islink(p):
                return p
    return path


def run_case(env: Env, res: common.Result, case, origin, model_items, expect_finding=None, model=True):
    """run all rounds of one case; append violations; queue model comparisons. Returns #violations added."""
    before = len(res.violations)
    cdir = env.case_dir()
    srcdir = os.path.join(cdir, "src")
    outdir = os.path.join(cdir, "out")
    os.makedirs(os.path.join(outdir, "thing"))
    ntg = len(case["targets"])
    dests = [os.path.join(cdir, t["dest"]) for t in case["targets"]]
    try:
        for i, t in enumerate(case["targets"]):
            if t["prior"] is not None:
                os.makedirs(os.path.dirname(dests[i]), exist_ok=True)
                build(t["prior"], dests[i], {"{S}": srcdir, "{T}": dests[i], "{X}": outdir})
        prev_src_spec = None
        for rno, rnd in enumerate(case["rounds"]):
            force_rmtree(srcdir)
            build(rnd["src"], srcdir, {"{S}": srcdir, "{T}": srcdir, "{X}": outdir})
            S = read_tree(srcdir)
            priors = [read_tree(d) for d in dests]
            cwd = {"root": "/", "src": srcdir, "unrelated": outdir}.get(rnd["cwd"]) or first_subdir(srcdir)
            gws = env.gateways(ntg)
            events = []
            cb = (lambda *a: events.append((a[0], a[1], a[2].gateway.id))) if rnd.get("callback") else None
            rs = env.Recorder(srcdir + ("/" if rnd.get("slash") else ""), callback=cb)
            for i in range(ntg):
                rs.add_target(gws[i], dests[i], delete=True) if rnd["delete"][i] else rs.add_target(gws[i], dests[i])
            err = []

            def go():
                try:
                    rs.send()
                except BaseException as e:  # noqa: BLE001
                    err.append(e)

            phantom = {}
            for ph in rnd.get("phantom") or []:
                phantom.setdefault(os.path.join(srcdir, *ph[:-1]), []).append(ph[-1])
            real_listdir = os.listdir
            if phantom:
                def listdir(path="."):
                    return real_listdir(path) + [n for n in phantom.get(path, []) if not os.path.lexists(os.path.join(path, n))]
                os.listdir = listdir
            os.chdir(cwd)
            try:
                th = threading.Thread(target=go, daemon=True)
                th.start()
                th.join(SEND_TIMEOUT)
            finally:
                os.chdir(env.home)
                os.listdir = real_listdir
            label = {"case": case, "origin": origin, "round": rno}
            if th.is_alive():
                res.violations.append(dict(label, what="RSync.send() did not return within %gs" % SEND_TIMEOUT, finding=None))
                res.stat("send_timeouts")
                env.reset_gateways()
                break
            if err:
                res.violations.append(dict(label, what="RSync.send() raised %s: %s" % (type(err[0]).__name__, str(err[0])[:300]), finding=None))
                env.reset_gateways()
                break
            S2 = read_tree(srcdir)
            if not deep_equal(S, S2):
                res.violations.append(dict(label, what="the source tree was modified by the sync", finding=None))
            unchanged = (prev_src_spec is not None and prev_src_spec == rnd["src"] and case["rounds"][rno - 1]["delete"] == rnd["delete"]
                         and not phantom and not case["rounds"][rno - 1].get("phantom"))
            for i in range(ntg):
                G = read_tree(dests[i])
                sent = [p for gid, p in rs.reported if gid == gws[i].id]
                bad = judge(S, priors[i], G, sent, rnd["delete"][i], srcdir, dests[i]) if not phantom else []
                if unchanged:
                    if sent:
                        bad.append(("re-sync of an unchanged tree transferred file content: %r" % (sent[:5],), None))
                    if not deep_equal(priors[i], G):
                        bad.append(("re-sync of an unchanged tree changed the target", None))
                if cb is not None:
                    lists = [e for e in events if e[0] == "list" and e[2] == gws[i].id]
                    acks = [e for e in events if e[0] == "ack" and e[2] == gws[i].id]
                    if len(lists) != 1:
                        bad.append(("%d 'list' callbacks for one target" % len(lists), None))
                    elif lists[0][1] != sum(a[1] for a in acks):
                        bad.append(("'list' total %r != sum of 'ack' sizes %r" % (lists[0][1], sum(a[1] for a in acks)), None))
                for what, finding in bad:
                    res.violations.append(dict(label, target=i, what=what, finding=finding))
                    res.stat("oracle_violation" + ("_known" if finding else ""))
                if model and not has_other(priors[i]) and not has_other(G):
                    Sm = S
                    if phantom:  # the source as the sender's listdir saw it: vanished entries are `A`
                        Sm = json.loads(json.dumps(S))
                        for ph in rnd["phantom"]:
                            d = Sm
                            for n in ph[:-1]:
                                d = d["e"][n] if d is not None and d["k"] == "d" and n in d["e"] else None
                            if d is not None and d["k"] == "d" and ph[-1] not in d["e"]:
                                d["e"][ph[-1]] = None
                        res.stat("phantom_syncs")
                    line = "rsync.sync %s %s %s | %s %d %s" % (hexs(srcdir), hexs(cwd), tokens(Sm), hexs(dests[i]),
                                                            1 if rnd["delete"][i] else 0, tokens(priors[i]))
                    want = tokens(G) + " ; " + (" ".join(sorted("/".join(hexs(c) for c in p.split("/")) for p in sent)) or "-")
                    model_items.append((line, want, {"origin": origin, "round": rno, "target": i, "case": case}))
                res.stat("syncs")
                branches(res, S, priors[i], srcdir, rnd["delete"][i])
                res.stat("sent_files", len(sent))
                res.stat("cwd_" + rnd["cwd"])
                res.stat("delete" if rnd["delete"][i] else "nodelete")
                res.stat("prior_" + ("none" if priors[i] is None else priors[i]["k"]))
                if unchanged:
                    res.stat("resync_unchanged")
            res.stat("targets_%d" % ntg)
            prev_src_spec = rnd["src"]
    finally:
        os.chdir(env.home)
        force_rmtree(cdir)
    added = res.violations[before:]
    if expect_finding is not None and not any(v.get("finding") == expect_finding for v in added):
        res.stat("known_finding_not_reproduced")
    return len(added)


def compare_model(ctx, res, model_items):
    outs = ctx.driver.ask([line for line, _, _ in model_items])
    for (line, want, info), out in zip(model_items, outs):
        if out != want:
            res.mismatches.append(dict(op="rsync.sync", origin=info["origin"], round=info["round"], target=info["target"],
                                       line=line[:1500], impl=want[:1500], model=out[:1500], case=info["case"]))
        else:
            res.traces += 1


# ---------------------------------------------------------------------------------------
# generators
# ---------------------------------------------------------------------------------------
LINK_TARGETS = ["f1", "a", "../x", "sub/f1", "nonexist", "./a//b", "..", ".", "sub/", "with space",
                "{S}/a", "{S}/f1", "{S}/sub/../a", "{S}//sub//f1/", "{S}/nonexist", "{S}/sub", "{S}/ünï-cödé",
                "{S}", "{S}/.", "{S}/sub/..", "{S}/..", "{S}/../src/a", "{S}x", "{S}x/a", "{X}/thing", "{X}/nothing",
                "/etc/passwd", "/nonexistent/zzz", "/", "//etc", "{S}/a/../../out/thing", "{T}/a",
                "{S}/..data", "{S}/..data/a", "{S}/...", "{S}/..2024_05_01/f1", "..data", ".../a"]


class Gen:
    def __init__(self, rng, big=False):
        self.rng = rng
        self.big = big
        self.nseed = 0

    def content(self, size=None):
        r = self.rng
        if size is None:
            u = r.random()
            if u < 0.15:
                size = 0
            elif u < 0.75:
                size = r.randrange(1, 40)
            elif u < 0.95:
                size = r.randrange(40, 5000)
            else:
                size = r.choice([65536, 200000, 1 << 20] if self.big else [65536, 100000])
        if size <= 48:
            pool = [b"\x00", b"\xff", b"\n", b"a", b"\r\n", "é".encode(), b" "]
            data = b"".join(r.choice(pool) for _ in range(size))[:size].ljust(size, b"z")
            return ["hex", data.hex()]
        self.nseed += 1
        return ["gen", r.randrange(1 << 30), size]

    def ns(self):
        """mtimes: whole seconds anywhere, nanosecond-precise ones from 2001-09-09 on (st_mtime >= 1e9, where the float
        survives CPython's utime(float) exactly), binary-exact fractions for small values; the early-epoch
        nanosecond case is the dedicated known-finding demonstration MTIME_CASE"""
        r = self.rng
        u = r.random()
        if u < 0.25:
            return r.randrange(0, 2_000_000_000) * 1_000_000_000
        if u < 0.5:
            return r.randrange(1_600_000_000, 1_800_000_000) * 1_000_000_000 + r.randrange(1_000_000_000)
        if u < 0.7:
            return r.randrange(1, 5000) * 1_000_000_000 + r.choice([500_000_000, 250_000_000, 750_000_000, 125_000_000])
        if u < 0.8:
            return r.choice([0, 1_000_000_000, 4_000_000_000 * 1_000_000_000, 2**31 * 1_000_000_000 + 5])
        return r.randrange(1_000_000_000 * 1_000_000_000, 1_900_000_000 * 1_000_000_000)

    def file(self):
        return {"k": "f", "c": self.content(), "mode": self.rng.choice(FILE_MODES), "ns": self.ns()}

    def link(self):
        return {"k": "l", "t": self.rng.choice(LINK_TARGETS)}

    def tree(self, depth, width):
        r = self.rng
        ents = {}
        for _ in range(r.randrange(0, width + 1)):
            name = r.choice(NAMES)
            u = r.random()
            if u < 0.5:
                ents[name] = self.file()
            elif u < 0.75 and depth > 0:
                ents[name] = self.tree(depth - 1, max(1, width - 1))
            elif u < 0.75:
                ents[name] = {"k": "d", "mode": r.choice(DIR_MODES), "e": {}}
            else:
                ents[name] = self.link()
        return {"k": "d", "mode": r.choice(DIR_MODES), "e": ents}

    def entry(self, depth):
        u = self.rng.random()
        if u < 0.5:
            return self.file()
        if u < 0.75:
            return self.tree(depth, 2)
        return self.link()

    def mutate(self, spec, p=0.35, depth=2):
        """a related tree: entries kept / content, size, mtime or mode changed / kind changed / dropped / added"""
        r = self.rng
        spec = json.loads(json.dumps(spec))
        if spec["k"] != "d":
            return self.entry(depth) if r.random() < 0.5 else spec
        ents = {}
        for name, sub in spec["e"].items():
            u = r.random()
            if u > p:
                ents[name] = self.mutate(sub, p, depth - 1) if sub["k"] == "d" else sub
                continue
            how = r.choice(["drop", "kind", "content", "samesize", "mtime", "mode", "all", "link"])
            if how == "drop":
                continue
            if how == "kind" or sub["k"] == "d":
                ents[name] = self.entry(max(0, depth - 1))
            elif sub["k"] == "l":
                ents[name] = self.link() if r.random() < 0.7 else self.file()
            elif how == "content":
                ents[name] = dict(sub, c=self.content(), ns=self.ns())
            elif how == "samesize":
                size = len(content_bytes(sub["c"]))
                # same size, other bytes: the mtime moves by whole seconds (equal size + equal st_mtime float + other
                # content is exactly D19's shape, kept for the dedicated demonstration)
                # … or by a fraction of a second within the same whole second (the quick check compares the floats, not seconds)
                frac = sub["ns"] % 1_000_000_000
                subsec = [d for d in (250_000_000, 500_000_000) if frac + d < 1_000_000_000]
                if subsec and sub["ns"] >= 1_000_000_000 and r.random() < 0.5:
                    ents[name] = dict(sub, c=self.content(size), ns=sub["ns"] + r.choice(subsec))
                else:
                    ents[name] = dict(sub, c=self.content(size), ns=sub["ns"] + r.choice([1, 2, 3600]) * 1_000_000_000)
            elif how == "mtime":
                ents[name] = dict(sub, ns=self.ns())
            elif how == "mode":
                ents[name] = dict(sub, mode=r.choice(FILE_MODES))
            elif how == "link":
                ents[name] = self.link()
            else:
                ents[name] = self.file()
        for _ in range(r.choice([0, 0, 1, 2])):
            ents.setdefault(r.choice(NAMES), self.entry(max(0, depth - 1)))
        mode = spec["mode"] if r.random() < 0.7 else r.choice(DIR_MODES)
        return {"k": "d", "mode": mode, "e": ents}

    def prior(self, src):
        p = self._prior(src)
        r = self.rng
        if p is not None and p["k"] == "d" and r.random() < 0.08:
            # an entry of yet another kind (a fifo), at a listed or an unlisted name
            names = list(src["e"]) + [r.choice(NAMES)]
            p["e"][r.choice(names)] = {"k": "p"}
        return p

    def _prior(self, src):
        r = self.rng
        u = r.random()
        if u < 0.15:
            return None
        if u < 0.25:
            return {"k": "d", "mode": r.choice(DIR_MODES), "e": {}}
        if u < 0.35:
            return json.loads(json.dumps(src))  # identical (links verbatim)
        if u < 0.42:
            return r.choice([self.file(), self.link(), {"k": "l", "t": "{X}/thing"}])  # the root itself is of another kind
        if u < 0.75:
            return self.mutate(src, 0.35)
        if u < 0.9:
            return self.mutate(src, 0.8)
        return self.tree(2, 4)

    def case(self):
        r = self.rng
        src = self.tree(r.choice([0, 1, 2, 2, 3]), r.choice([2, 3, 4, 6]))
        ntg = r.choice([1, 1, 1, 2, 2, 3])
        targets = []
        for i in range(ntg):
            dest = "t%d" % i if r.random() < 0.85 else "deep/er %d/t%d" % (i, i)
            targets.append({"prior": self.prior(src), "dest": dest})
        rounds = []
        cur = src
        for k in range(r.choice([1, 1, 2, 2, 3, 4])):
            if k > 0:
                u = r.random()
                if u < 0.35:
                    pass  # unchanged source: re-sync must transfer nothing and change nothing
                else:
                    cur = self.mutate(cur, r.choice([0.15, 0.4]))
            dele = [r.random() < 0.5 for _ in range(ntg)]
            if k > 0 and r.random() < 0.6:
                dele = rounds[-1]["delete"]
            rounds.append({"src": cur, "cwd": r.choice(["root", "src", "sub", "unrelated"]), "slash": r.random() < 0.2,
                           "callback": r.random() < 0.3, "delete": dele})
            if r.random() < 0.04:
                sub = [n for n, t in cur["e"].items() if t["k"] == "d"]
                where = [r.choice(sub)] if sub and r.random() < 0.5 else []
                rounds[-1]["phantom"] = [where + [r.choice(NAMES)] for _ in range(r.choice([1, 2]))]
        return {"targets": targets, "rounds": rounds}


def _f(hexdata, mode=0o644, ns=1_000_000_000_500_000_000):
    return {"k": "f", "c": ["hex", hexdata], "mode": mode, "ns": ns}


def _d(e, mode=0o755):
    return {"k": "d", "mode": mode, "e": e}


def _rounds(src, n=1, cwd="root", delete=False, callback=False, ntg=1):
    return [{"src": src, "cwd": cwd, "slash": False, "callback": callback, "delete": [delete] * ntg} for _ in range(n)]


_LINKS = _d({"f1": _f("78"), "rel": {"k": "l", "t": "f1"}, "dang": {"k": "l", "t": "nonexist"},
             "sub": _d({"up": {"k": "l", "t": "../f1"}, "abs": {"k": "l", "t": "{S}/f1"}})})

CORPUS = [
    # D13: mode-only change (same size, same mtime) must give the file exactly the source's bits
    ("D13", {"targets": [{"prior": _d({"f": _f("78", 0o644)}), "dest": "t0"}], "rounds": _rounds(_d({"f": _f("78", 0o444)}))}),
    ("D13b", {"targets": [{"prior": _d({"f": _f("78", 0o777), "g": _f("79", 0o400)}), "dest": "t0"}],
              "rounds": _rounds(_d({"f": _f("78", 0o400), "g": _f("79", 0o640)}))}),
    # D14: relative / dangling links must not depend on the caller's cwd
    ("D14-src", {"targets": [{"prior": None, "dest": "t0"}], "rounds": _rounds(_LINKS, cwd="src")}),
    ("D14-sub", {"targets": [{"prior": None, "dest": "t0"}], "rounds": _rounds(_LINKS, cwd="sub")}),
    ("D14-root", {"targets": [{"prior": None, "dest": "t0"}], "rounds": _rounds(_LINKS, cwd="root")}),
    ("D14-unrelated", {"targets": [{"prior": None, "dest": "t0"}, {"prior": None, "dest": "t1"}], "rounds": _rounds(_LINKS, cwd="unrelated", ntg=2)}),
    # D20: progress callback and a target that requests nothing (re-sync of an unchanged tree)
    ("D20", {"targets": [{"prior": None, "dest": "t0"}], "rounds": _rounds(_d({"f": _f("78")}), n=2, callback=True)}),
    ("D20-empty", {"targets": [{"prior": None, "dest": "t0"}], "rounds": _rounds(_d({}), n=1, callback=True)}),
    # entries of another kind, delete, links replaced by dirs and back
    ("kinds", {"targets": [{"prior": _d({"a": _d({"x": _f("01")}), "b": {"k": "l", "t": "a"}, "c": _f("02"), "extra": _d({"y": _f("03")})}), "dest": "t0"},
                           {"prior": _f("04"), "dest": "t1"}, {"prior": {"k": "l", "t": "{X}/thing"}, "dest": "t2"}],
               "rounds": [{"src": _d({"a": _f("05"), "b": _d({"z": _f("06")}, 0o500), "c": {"k": "l", "t": "{S}/b/z"}}), "cwd": "src", "slash": True,
                           "callback": False, "delete": [True, False, True]},
                          {"src": _d({"a": {"k": "l", "t": "b"}, "b": _f("07", 0o400), "c": _d({})}), "cwd": "sub", "slash": False,
                           "callback": True, "delete": [False, False, True]}]}),
]

# vanished entries (model comparison only): over nothing, an empty old file, a stale file, a directory, a link
CORPUS.append(("vanished", {
    "targets": [{"prior": _d({"gone1": _f("", ns=0), "gone2": _f("6162", 0o600), "gone3": _d({"x": _f("01")}), "gone4": {"k": "l", "t": "a"},
                              "gone5": _f("", ns=5_000_000_000), "sub": _d({"g": _f("03")})}), "dest": "t0"},
                {"prior": None, "dest": "t1"}],
    "rounds": [{"src": _d({"a": _f("05"), "sub": _d({})}), "cwd": "root", "slash": False, "callback": True, "delete": [False, True],
                "phantom": [["gone0"], ["gone1"], ["gone2"], ["gone3"], ["gone4"], ["gone5"], ["sub", "g"]]}]}))

# D19 (known finding, dedicated demonstration): equal size and st_mtime, other content → left as is
D19_CASE = {"targets": [{"prior": _d({"f": _f("62626262")}), "dest": "t0"}], "rounds": _rounds(_d({"f": _f("61616161")}))}

# known finding, dedicated demonstration: a nanosecond-precise mtime before 1974 arrives one nanosecond early
# (utime(float) floors; the model's "utime(t) makes st_mtime == t" does not hold there, so no model comparison)
MTIME_CASE = {"targets": [{"prior": None, "dest": "t0"}], "rounds": _rounds(_d({"f": _f("61", ns=2939 * 10**9 + 1)}))}


def _entry_paths(spec, pre=()):
    if spec is None or spec["k"] != "d":
        return
    for n, sub in spec["e"].items():
        yield pre + (n,)
        yield from _entry_paths(sub, pre + (n,))


def _without(spec, path):
    spec = json.loads(json.dumps(spec))
    d = spec
    for n in path[:-1]:
        d = d["e"][n]
    del d["e"][path[-1]]
    return spec


def _candidates(case):
    """smaller variants of a case: fewer rounds, fewer targets, plainer options, one entry less"""
    nr, nt = len(case["rounds"]), len(case["targets"])
    if nr > 1:
        yield dict(case, rounds=case["rounds"][:-1])
        yield dict(case, rounds=case["rounds"][1:])
    if nt > 1:
        for i in range(nt):
            yield {"targets": case["targets"][:i] + case["targets"][i + 1:],
                   "rounds": [dict(r, delete=r["delete"][:i] + r["delete"][i + 1:]) for r in case["rounds"]]}
    for k, r in enumerate(case["rounds"]):
        for key, plain in (("callback", False), ("slash", False), ("cwd", "root")):
            if r.get(key) != plain:
                yield dict(case, rounds=case["rounds"][:k] + [dict(r, **{key: plain})] + case["rounds"][k + 1:])
    for i, t in enumerate(case["targets"]):
        if t["prior"] is not None and t["prior"]["k"] == "d":
            for path in _entry_paths(t["prior"]):
                yield dict(case, targets=case["targets"][:i] + [dict(t, prior=_without(t["prior"], path))] + case["targets"][i + 1:])
    for k, r in enumerate(case["rounds"]):
        for path in _entry_paths(r["src"]):
            yield dict(case, rounds=case["rounds"][:k] + [dict(r, src=_without(r["src"], path))] + case["rounds"][k + 1:])


def shrink(env, case, budget=120):
    """greedy minimisation of a case that violates the property (unknown finding) on the real code"""
    def fails(c):
        r = common.Result()
        try:
            run_case(env, r, c, "shrink", [], model=False)
        except Exception:  # noqa: BLE001
            return False
        return any(v.get("finding") is None for v in r.violations)

    progress = True
    while progress and budget > 0:
        progress = False
        for cand in _candidates(case):
            budget -= 1
            if budget < 0:
                break
            if fails(cand):
                case, progress = cand, True
                break
    return case


def nontrivial(case) -> bool:
    def size(t):
        return 1 + sum(size(x) for x in t["e"].values()) if t["k"] == "d" else 1
    return any(size(r["src"]) >= 3 for r in case["rounds"])


def run(ctx, ncases=None):
    res = common.Result()
    res.rule = ("generated source trees (names with spaces/unicode/newline, empty/binary/large files, modes 0o400..0o777, second and "
                "sub-second mtimes, nested dirs, relative/absolute/dangling/in-tree/out-of-tree/root symlinks) x prior target states "
                "(missing, empty, identical, mutated, other kinds, extra entries, root of another kind) x delete per target x 1-3 "
                "targets x cwd in {/, source, sub-dir, unrelated} x 1-4 modify-then-resync rounds, each through the real RSync over "
                "popen gateways; distinct = distinct case JSON; non-trivial = a source tree with at least 3 nodes")
    res.assumptions = [
        "C17: md5 collision-freeness (model: checksum equality is content equality); the harness identifies content by sha256",
        "C17: the check runs as root in this sandbox, so permission bits never deny access: unreadable source files (sender sends None "
        "silently) and read-only prior target files (receiver's open(..., 'wb') would fail for a normal user) are not exercised",
        "C17: directories are expected with mode | 0o700 (the receiver's documented override), directory and symlink mtimes are not "
        "part of the comparison, 'identical modification time' is the st_mtime float the protocol transports",
        "C17: absolute source and destination directories; source kinds are regular file, directory, symlink",
        "C17: utime(t) makes st_mtime == t: generated sub-second mtimes are binary-exact fractions or lie after 2001-09-09 "
        "(st_mtime >= 1e9); the early-epoch nanosecond case is a known finding with a dedicated demonstration",
        "C17: an entry vanishing between the sender's listdir and lstat is simulated by injecting names into os.listdir during "
        "send(); those rounds are compared with the model only (the property does not speak about races)",
    ]
    env = Env(ctx)
    model_items = []
    try:
        for name, case in CORPUS:
            res.count(json.dumps(case, sort_keys=True), nontrivial=True)
            run_case(env, res, case, "corpus:" + name, model_items)
        res.count(json.dumps(D19_CASE, sort_keys=True), nontrivial=True)
        run_case(env, res, D19_CASE, "known:D19", model_items, expect_finding=FINDING_D19)
        res.count(json.dumps(MTIME_CASE, sort_keys=True), nontrivial=True)
        run_case(env, res, MTIME_CASE, "known:mtime", model_items, expect_finding=FINDING_MTIME, model=False)
        n = ncases or ctx.budget(1000, 20000, 5000)
        gen = Gen(ctx.rng("cases"), big=ctx.thorough)
        for i in range(n):
            case = gen.case()
            res.count(json.dumps(case, sort_keys=True), nontrivial=nontrivial(case))
            if i < 4:
                res.sample({"targets": len(case["targets"]), "rounds": len(case["rounds"]),
                            "src0": json.dumps(case["rounds"][0]["src"], ensure_ascii=False)[:300]})
            nbefore = len(res.violations)
            run_case(env, res, case, "gen:%d" % i, model_items)
            fresh = [v for v in res.violations[nbefore:] if v.get("finding") is None]
            if fresh and not res.extra.get("shrunk"):
                # minimise the first failing case and report the minimised one first (it is the replay)
                res.extra["shrunk"] = True
                small = shrink(env, case)
                if small is not case:
                    tmp = common.Result()
                    run_case(env, tmp, small, "gen:%d:minimised" % i, model_items)
                    mini = [v for v in tmp.violations if v.get("finding") is None]
                    if mini:
                        res.violations[nbefore:nbefore] = mini
            if len([v for v in res.violations if v.get("finding") is None]) > 50 or res.stats.get("send_timeouts", 0) >= 3:
                break  # enough evidence
        compare_model(ctx, res, model_items)
    finally:
        env.close()
    if res.stats.get("known_finding_not_reproduced"):
        # the dedicated demonstration stopped failing: say so in the evidence, it is not a violation
        res.extra["note"] = "D19 demonstration no longer reproduces"
    return res


def search(ctx, prev):
    return run(ctx)


def replay(ctx, payload):
    res = common.Result()
    env = Env(ctx)
    items = []
    try:
        res.count(json.dumps(payload["case"], sort_keys=True), nontrivial=True)
        run_case(env, res, payload["case"], "replay", items)
        compare_model(ctx, res, items)
    finally:
        env.close()
    return res
