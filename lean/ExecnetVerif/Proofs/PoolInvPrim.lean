import ExecnetVerif.Proofs.PoolInv
namespace ExecnetVerif.Pool
set_option maxHeartbeats 1600000

theorem inv_pWait {c : Config} {s s' : State} (hc : c.old = false) (h : Inv c s)
    (hs : primStep c s .pWait = some s') : Inv c s' := by
  simp only [primStep, hc, Bool.false_eq_true, ↓reduceIte] at hs
  inv_open h
  inv_step hs

theorem inv_pRead {c : Config} {s s' : State} (hc : c.old = false) (h : Inv c s)
    (hs : primStep c s .pRead = some s') : Inv c s' := by
  simp only [primStep, hc, Bool.false_eq_true, ↓reduceIte] at hs
  inv_open h
  inv_step hs

theorem inv_pChkAcq {c : Config} {s s' : State} (hc : c.old = false) (h : Inv c s)
    (hs : primStep c s .pChkAcq = some s') : Inv c s' := by
  simp only [primStep, hc, Bool.false_eq_true, ↓reduceIte] at hs
  inv_open h
  inv_step hs

theorem inv_pCheck {c : Config} {s s' : State} (hc : c.old = false) (h : Inv c s)
    (hs : primStep c s .pCheck = some s') : Inv c s' := by
  simp only [primStep, hc, Bool.false_eq_true, ↓reduceIte] at hs
  inv_open h
  inv_step hs

theorem inv_pLeave {c : Config} {s s' : State} (hc : c.old = false) (h : Inv c s)
    (hs : primStep c s .pLeave = some s') : Inv c s' := by
  simp only [primStep, hc, Bool.false_eq_true, ↓reduceIte] at hs
  inv_open h
  inv_step hs

end ExecnetVerif.Pool
