import ExecnetVerif.Model.SerializerSpec
import ExecnetVerif.Proofs.BytesLemmas
import ExecnetVerif.Proofs.SerBasic
namespace ExecnetVerif

theorem ofU32_small (n : Nat) (h : n < two31) : ofU32 n = (n : Int) := by
  unfold ofU32; rw [two31_eq] at h; simp [h]

theorem rdI32_be4 (n : Nat) (h : n < two31) (rest : Bytes) (k : Int → Bytes → Res) :
    rdI32 (be4 n ++ rest) k = k (n : Int) rest := by
  unfold rdI32
  rw [two31_eq] at h
  rw [rd4_be4 _ _ (by omega)]
  simp only
  rw [ofU32_small _ (by rw [two31_eq]; exact h)]

theorem rdI32_pack (i : Int) (h : inI32 i) (rest : Bytes) (k : Int → Bytes → Res) :
    rdI32 (packI32 i ++ rest) k = k i rest := by
  unfold rdI32 packI32
  rw [rd4_be4 _ _ (toU32_lt i)]
  simp only
  rw [ofU32_toU32 i h]

theorem rdBytes_enc (b rest : Bytes) (h : b.length < two31) (k : Bytes → Bytes → Res) :
    rdBytes (be4 b.length ++ (b ++ rest)) k = k b rest := by
  unfold rdBytes
  rw [rdI32_be4 _ h]
  have : ¬ ((b.length : Int) < 0) := by omega
  simp only [this, if_false, Int.toNat_natCast, readN_append]

/-! ### one lemma per leaf opcode -/

section
variable (cfg : Cfg) (rest : Bytes) (st : List PyVal)

theorem run_none : run cfg (opNONE :: rest) st = run cfg rest (.none :: st) :=
  run_cont (step_NONE cfg rest st)

theorem run_true : run cfg (opTRUE :: rest) st = run cfg rest (.bool true :: st) :=
  run_cont (step_TRUE cfg rest st)

theorem run_false : run cfg (opFALSE :: rest) st = run cfg rest (.bool false :: st) :=
  run_cont (step_FALSE cfg rest st)

theorem intText_length_le (i : Int) : (intText i).length ≤ numDigits i + 1 := by
  unfold intText numDigits
  split
  · rename_i h
    have : (-i).toNat = i.natAbs := by omega
    simp [this]
  · rename_i h
    have : i.toNat = i.natAbs := by omega
    simp [this]

theorem run_encInt (i : Int) (h : inI32 i ∨ numDigits i ≤ maxStrDigits) :
    run cfg (encInt i ++ rest) st = run cfg rest (.int i :: st) := by
  unfold encInt
  split
  · rename_i hi
    show run cfg (opINT :: (packI32 i ++ rest)) st = _
    refine run_cont ?_
    rw [step_INT]
    rw [rdI32_pack i hi]
  · rename_i hi
    have hd : numDigits i ≤ maxStrDigits := by
      cases h with
      | inl h => exact absurd h hi
      | inr h => exact h
    have hlen : (intText i).length < two31 := by
      have := intText_length_le i
      rw [two31_eq]; unfold maxStrDigits at hd; omega
    show run cfg (opLONGINT :: ((be4 (intText i).length ++ intText i) ++ rest)) st = _
    refine run_cont ?_
    rw [step_LONGINT, List.append_assoc]
    rw [rdBytes_enc _ _ hlen, parseInt_intText i hd]

theorem run_float (b : Nat) (h : b < two64) :
    run cfg (opFLOAT :: (be8 b ++ rest)) st = run cfg rest (.float b :: st) := by
  refine run_cont ?_
  rw [step_FLOAT]
  rw [rd8_be8 _ _ (by rw [two64_eq] at h; exact h)]

theorem run_complex (r i : Nat) (hr : r < two64) (hi : i < two64) :
    run cfg (opCOMPLEX :: ((be8 r ++ be8 i) ++ rest)) st = run cfg rest (.complex r i :: st) := by
  refine run_cont ?_
  rw [step_COMPLEX, List.append_assoc]
  rw [rd8_be8 _ _ (by rw [two64_eq] at hr; exact hr)]
  simp only
  rw [rd8_be8 _ _ (by rw [two64_eq] at hi; exact hi)]

theorem run_bytes (b : Bytes) (h : b.length < two31) :
    run cfg (opBYTES :: ((be4 b.length ++ b) ++ rest)) st = run cfg rest (.bytes b :: st) := by
  refine run_cont ?_
  rw [step_BYTES, List.append_assoc]
  rw [rdBytes_enc _ _ h]

theorem run_str (hcfg : cfg.py3str_as_py2str = false) (s : String)
    (h : (utf8Encode s).length < two31) :
    run cfg (opPY3STRING :: ((be4 (utf8Encode s).length ++ utf8Encode s) ++ rest)) st
      = run cfg rest (.str s :: st) := by
  refine run_cont ?_
  rw [step_PY3STRING, List.append_assoc]
  rw [rdBytes_enc _ _ h]
  simp [hcfg, utf8_roundtrip]

theorem run_newlist (hmem : cfg.memLimit = none) (n : Nat) (h : n < two31) :
    run cfg (opNEWLIST :: (be4 n ++ rest)) st
      = run cfg rest (.list (List.replicate n .none) :: st) := by
  refine run_cont ?_
  rw [step_NEWLIST]
  rw [rdI32_be4 _ h]
  simp [memExceeded, hmem]

theorem run_newdict : run cfg (opNEWDICT :: rest) st = run cfg rest (.dict [] :: st) :=
  run_cont (step_NEWDICT cfg rest st)

end

/-! ### containers -/

theorem dictInsert_fresh (k v : PyVal) : ∀ (kvs : List (PyVal × PyVal)),
    pyMem k (kvs.map Prod.fst) = false → dictInsert k v kvs = kvs ++ [(k, v)] := by
  intro kvs
  induction kvs with
  | nil => intro _; rfl
  | cons kv t ih =>
    intro h
    obtain ⟨k', v'⟩ := kv
    simp only [List.map_cons] at h
    rw [pyMem] at h
    simp only [Bool.or_eq_false_iff] at h
    simp only [dictInsert, h.1, Bool.false_eq_true, if_false, List.cons_append]
    rw [ih h.2]

theorem dedup_fresh : ∀ (xs acc : List PyVal), fresh acc xs → dedup acc xs = acc ++ xs := by
  intro xs
  induction xs with
  | nil => intro acc _; simp [dedup]
  | cons x t ih =>
    intro acc h
    simp only [fresh] at h
    simp only [dedup, h.2.1, Bool.false_eq_true, if_false]
    rw [ih _ h.2.2]; simp

theorem fresh_hashableAll : ∀ (xs acc : List PyVal), fresh acc xs → hashableAll xs = true := by
  intro xs
  induction xs with
  | nil => intro _ _; simp [hashableAll]
  | cons x t ih =>
    intro acc h
    simp only [fresh] at h
    simp [hashableAll, h.1, ih _ h.2.2]

theorem setItem_list (rest : Bytes) (pre post : List PyVal) (v : PyVal) (st : List PyVal)
    (h : pre.length < two31) :
    setItem rest (v :: .int pre.length :: .list (pre ++ .none :: post) :: st)
      = .cont rest (.list (pre ++ v :: post) :: st) := by
  simp only [setItem, listIndex]
  have h1 : ¬ ((pre.length : Int) < 0) := by omega
  have h2 : (0 : Int) ≤ pre.length ∧ (pre.length : Int) < ((pre ++ PyVal.none :: post).length : Nat) := by
    simp only [List.length_append, List.length_cons]; omega
  simp only [h1, if_false, h2, and_self, if_true, Int.toNat_natCast]
  simp

theorem setItem_dict (rest : Bytes) (kvs : List (PyVal × PyVal)) (k v : PyVal) (st : List PyVal)
    (hh : hashable k = true) (hf : pyMem k (kvs.map Prod.fst) = false) :
    setItem rest (v :: k :: .dict kvs :: st) = .cont rest (.dict (kvs ++ [(k, v)]) :: st) := by
  simp only [setItem, hh, if_true, dictInsert_fresh k v kvs hf]

section
variable (cfg : Cfg)

/-- the induction hypothesis for one value -/
def RT (v : PyVal) : Prop :=
  WF v → ∀ (rest : Bytes) (st : List PyVal), run cfg (enc v ++ rest) st = run cfg rest (v :: st)

theorem run_encAll : ∀ (xs : List PyVal), (∀ x ∈ xs, RT cfg x) → WFAll xs →
    ∀ (rest : Bytes) (st : List PyVal),
      run cfg (encAll xs ++ rest) st = run cfg rest (xs.reverse ++ st) := by
  intro xs
  induction xs with
  | nil => intro _ _ rest st; simp [encAll]
  | cons x t ih =>
    intro hP hW rest st
    simp only [WFAll] at hW
    simp only [encAll, List.append_assoc]
    rw [hP x (by simp) hW.1]
    rw [ih (fun y hy => hP y (by simp [hy])) hW.2]
    simp

theorem run_encItems : ∀ (xs pre : List PyVal), (∀ x ∈ xs, RT cfg x) → WFAll xs →
    pre.length + xs.length < two31 →
    ∀ (rest : Bytes) (st : List PyVal),
      run cfg (encItems pre.length xs ++ rest) (.list (pre ++ List.replicate xs.length .none) :: st)
        = run cfg rest (.list (pre ++ xs) :: st) := by
  intro xs
  induction xs with
  | nil => intro pre _ _ _ rest st; simp [encItems]
  | cons x t ih =>
    intro pre hP hW hlen rest st
    simp only [WFAll] at hW
    simp only [List.length_cons] at hlen
    simp only [encItems, List.append_assoc, List.length_cons, List.replicate_succ]
    have hi : inI32 (pre.length : Int) := by
      unfold inI32; rw [two31_eq] at hlen; omega
    rw [run_encInt cfg _ _ _ (Or.inl hi)]
    rw [hP x (by simp) hW.1]
    simp only [List.cons_append]
    rw [run_cont (show step cfg opSETITEM _ _ = _ from by
      rw [step_SETITEM]
      exact setItem_list _ pre _ x st (by omega))]
    have := ih (pre ++ [x]) (fun y hy => hP y (by simp [hy])) hW.2
      (by simp only [List.length_append, List.length_singleton]; omega) rest st
    simp only [List.length_append, List.length_singleton, List.append_assoc, List.singleton_append] at this
    exact this

theorem run_encPairs : ∀ (kvs pre : List (PyVal × PyVal)),
    (∀ kv ∈ kvs, RT cfg kv.1 ∧ RT cfg kv.2) → WFPairs kvs →
    fresh (pre.map Prod.fst) (kvs.map Prod.fst) →
    ∀ (rest : Bytes) (st : List PyVal),
      run cfg (encPairs kvs ++ rest) (.dict pre :: st) = run cfg rest (.dict (pre ++ kvs) :: st) := by
  intro kvs
  induction kvs with
  | nil => intro pre _ _ _ rest st; simp [encPairs]
  | cons kv t ih =>
    intro pre hP hW hF rest st
    obtain ⟨k, v⟩ := kv
    simp only [WFPairs] at hW
    simp only [List.map_cons, fresh] at hF
    simp only [encPairs, List.append_assoc]
    rw [(hP (k, v) (by simp)).1 hW.1]
    rw [(hP (k, v) (by simp)).2 hW.2.1]
    simp only [List.cons_append]
    rw [run_cont (show step cfg opSETITEM _ _ = _ from by
      rw [step_SETITEM]
      exact setItem_dict _ pre k v st hF.1 hF.2.1)]
    have := ih (pre ++ [(k, v)]) (fun y hy => hP y (by simp [hy])) hW.2.2
      (by simpa using hF.2.2) rest st
    simp only [List.append_assoc, List.singleton_append] at this
    exact this

theorem popN_all (xs st : List PyVal) (h : 0 < xs.length) :
    popN (xs.length : Int) (xs.reverse ++ st) = (xs, st) := by
  unfold popN
  have : (xs.length : Int) > 0 := by omega
  simp only [this, if_true, Int.toNat_natCast]
  have hl : xs.reverse.length = xs.length := by simp
  rw [← hl, List.take_left, List.drop_left]
  simp

theorem buildColl_tuple (xs st : List PyVal) (rest : Bytes) :
    buildColl .tuple (xs.length : Int) rest (xs.reverse ++ st) = .cont rest (.tuple xs :: st) := by
  unfold buildColl
  cases xs with
  | nil => simp
  | cons x t =>
    have h0 : ¬ (((x :: t).length : Nat) : Int) = 0 := by simp only [List.length_cons]; omega
    simp only [h0, if_false]
    rw [popN_all _ _ (by simp)]

theorem buildColl_set (xs st : List PyVal) (rest : Bytes) (hf : fresh [] xs) :
    buildColl .set (xs.length : Int) rest (xs.reverse ++ st) = .cont rest (.set xs :: st) := by
  unfold buildColl
  cases xs with
  | nil => simp [hashableAll, dedup]
  | cons x t =>
    have h0 : ¬ (((x :: t).length : Nat) : Int) = 0 := by simp only [List.length_cons]; omega
    simp only [h0, if_false]
    rw [popN_all _ _ (by simp)]
    simp only [fresh_hashableAll _ _ hf, if_true, dedup_fresh _ _ hf, List.nil_append]

theorem buildColl_frozenset (xs st : List PyVal) (rest : Bytes) (hf : fresh [] xs) :
    buildColl .frozenset (xs.length : Int) rest (xs.reverse ++ st)
      = .cont rest (.frozenset xs :: st) := by
  unfold buildColl
  cases xs with
  | nil => simp [hashableAll, dedup]
  | cons x t =>
    have h0 : ¬ (((x :: t).length : Nat) : Int) = 0 := by simp only [List.length_cons]; omega
    simp only [h0, if_false]
    rw [popN_all _ _ (by simp)]
    simp only [fresh_hashableAll _ _ hf, if_true, dedup_fresh _ _ hf, List.nil_append]

/-- the generalised round-trip lemma: loading the encoding of a well-formed value pushes exactly
that value and continues with the rest of the input -/
theorem run_enc (hcfg : cfg.py3str_as_py2str = false) (hmem : cfg.memLimit = none) (v : PyVal) :
    RT cfg v := by
  refine PyVal.rec (motive_1 := RT cfg)
    (motive_2 := fun xs => ∀ x ∈ xs, RT cfg x)
    (motive_3 := fun kvs => ∀ kv ∈ kvs, RT cfg kv.1 ∧ RT cfg kv.2)
    (motive_4 := fun kv => RT cfg kv.1 ∧ RT cfg kv.2)
    ?none ?bool ?int ?float ?complex ?bytes ?str ?badstr ?list ?tuple ?dict ?set ?frozenset
    ?channel ?foreign ?nil1 ?cons1 ?nil2 ?cons2 ?mk v
  case none => intro _ rest st; simp only [enc, List.cons_append, List.nil_append]; exact run_none cfg rest st
  case bool =>
    intro b _ rest st
    cases b
    · simp only [enc, Bool.false_eq_true, if_false, List.cons_append, List.nil_append]; exact run_false cfg rest st
    · simp only [enc, if_true, List.cons_append, List.nil_append]; exact run_true cfg rest st
  case int => intro i h rest st; simp only [enc, WF] at *; exact run_encInt cfg rest st i h
  case float => intro b h rest st; simp only [enc, WF, List.cons_append] at *; exact run_float cfg rest st b h
  case complex =>
    intro r i h rest st; simp only [enc, WF, List.cons_append] at *
    exact run_complex cfg rest st r i h.1 h.2
  case bytes => intro b h rest st; simp only [enc, WF, List.cons_append] at *; exact run_bytes cfg rest st b h
  case str => intro s h rest st; simp only [enc, WF, List.cons_append] at *; exact run_str cfg rest st hcfg s h
  case badstr => intro h; simp [WF] at h
  case foreign => intro h; simp [WF] at h
  case channel => intro id h; simp [WF] at h
  case list =>
    intro xs ih h rest st
    simp only [WF] at h
    simp only [enc, List.cons_append, List.append_assoc]
    rw [run_newlist cfg _ st hmem xs.length h.1]
    have := run_encItems cfg xs [] ih h.2 (by simpa using h.1) rest st
    simpa using this
  case tuple =>
    intro xs ih h rest st
    simp only [WF] at h
    simp only [enc, List.append_assoc, List.cons_append]
    rw [run_encAll cfg xs ih h.2]
    refine run_cont ?_
    rw [step_BUILDTUPLE]
    rw [rdI32_be4 _ h.1]
    exact buildColl_tuple xs st rest
  case dict =>
    intro kvs ih h rest st
    simp only [WF] at h
    simp only [enc, List.cons_append]
    rw [run_newdict]
    have := run_encPairs cfg kvs [] ih h.1 (by simpa using h.2) rest st
    simpa using this
  case set =>
    intro xs ih h rest st
    simp only [WF] at h
    simp only [enc, List.append_assoc, List.cons_append]
    rw [run_encAll cfg xs ih h.2.1]
    refine run_cont ?_
    rw [step_SET]
    rw [rdI32_be4 _ h.1]
    exact buildColl_set xs st rest h.2.2
  case frozenset =>
    intro xs ih h rest st
    simp only [WF] at h
    simp only [enc, List.append_assoc, List.cons_append]
    rw [run_encAll cfg xs ih h.2.1]
    refine run_cont ?_
    rw [step_FROZENSET]
    rw [rdI32_be4 _ h.1]
    exact buildColl_frozenset xs st rest h.2.2
  case nil1 => intro x hx; simp at hx
  case cons1 =>
    intro head tail ih1 ih2 x hx
    simp only [List.mem_cons] at hx
    cases hx with
    | inl h => subst h; exact ih1
    | inr h => exact ih2 x h
  case nil2 => intro x hx; simp at hx
  case cons2 =>
    intro head tail ih1 ih2 x hx
    simp only [List.mem_cons] at hx
    cases hx with
    | inl h => subst h; exact ih1
    | inr h => exact ih2 x h
  case mk => intro fst snd ih1 ih2; exact ⟨ih1, ih2⟩

end

end ExecnetVerif
