/-
C04 — Connection loss at any byte never hangs or corrupts the survivor (protocol level; the byte
level — a cut at any byte offset yields exactly the complete frames — is in Props/C04Bytes.lean).
-/
import ExecnetVerif.Proofs.Net.Wire
import ExecnetVerif.Proofs.Net.Got
import ExecnetVerif.Proofs.Net.Cb
import ExecnetVerif.Proofs.Net.Fin
import ExecnetVerif.Props.C04Bytes
import ExecnetVerif.Props.NetGranularity
namespace ExecnetVerif
open Net

theorem finInv_reachable {fails : Item → Bool} {st : State} (h : Reachable fails st) : FinInv st :=
  FinInv_reachable fails (fun _ hr => ShapeInv_reachable hr) st h

/-- **C04 (nothing blocks).** After the receiver of a side has finished — the connection broke after
any number of frames (`cut`), was terminated, or a callback raised after the IO had been closed (the
unwritable CLOSE_ERROR ends the receiver thread) — every `receive` and `waitclose` on every channel
object that side still holds returns or raises; none can block, now or later (`finished` is stable). -/
theorem C04_no_block {fails : Item → Bool} {st : State} (h : Reachable fails st) (p : Side) (id : Nat)
    (hf : (st.side p).finished = true) (ha : ((st.side p).chans id).alive = true) :
    (step fails st (.receive p id)).1 ≠ .wouldBlock ∧ (step fails st (.waitclose p id)).1 ≠ .wouldBlock :=
  Net.C04_no_block fails st p id (ShapeInv_reachable h) (finInv_reachable h) hf ha

theorem C04_finished_stable (fails : Item → Bool) (st : State) (p : Side) (op : Op)
    (hf : (st.side p).finished = true) : ((step fails st op).2.side p).finished = true :=
  Net.finished_mono fails st op p hf

/-- **C04 (complete items, in order, then EOF).** What the survivor obtains are, in order and without
repetition, items the peer really sent (C02 holds in every reachable state, cut or not); once the
queued ones are consumed `receive` raises EOFError (C03_receive_at_end), and after a cut a `waitclose`
without a pending remote error raises EOFError too. -/
theorem C04_items_intact {fails : Item → Bool} {st : State} (h : Reachable fails st) (p : Side) (id : Nat) :
    List.Sublist ((st.side p).got id ++ queueItems ((st.side p).chans id).queue) ((st.side p.peer).sent id) :=
  (GotInv_reachable h p id).1.trans (C02_in_order_general h p id)

theorem C04_eof_after_cut (fails : Item → Bool) (st : State) (p : Side) (id : Nat)
    (hg : (st.side p).gwerr = true) (ha : ((st.side p).chans id).alive = true)
    (hr : ((st.side p).chans id).rclosed = true) (he : ((st.side p).chans id).rerrs = []) :
    (step fails st (.waitclose p id)).1 = .eofError :=
  Net.C04_eof_after_cut fails st p id hg ha hr he

theorem C04_cut_sets_error (fails : Item → Bool) (st : State) (p : Side) (hf : (st.side p).finished = false) :
    ((step fails st (.cut p)).2.side p).gwerr = true ∧ ((step fails st (.cut p)).2.side p).finished = true :=
  ⟨Net.gwerr_of_cut fails st p hf, Net.finished_of_cut fails st p hf⟩

/-- **C04 (refusal).** From then on `newchannel`, `remote_exec` and `send` raise OSError, the channel
and callback tables are empty, and the IO is closed. -/
theorem C04_refuse {fails : Item → Bool} {st : State} (h : Reachable fails st) (p : Side)
    (hf : (st.side p).finished = true) :
    (step fails st (.newchannel p)).1 = .osError ∧
    (p = .A → (step fails st .remoteExec).1 = .osError) ∧
    (∀ id v, (step fails st (.send p id v)).1 = .osError ∨ (step fails st (.send p id v)).1 = .notEnabled) ∧
    (st.side p).ioOpen = false ∧ (∀ id, ((st.side p).chans id).registered = false ∧ (st.side p).cbs id = none) := by
  have hfi := finInv_reachable h
  obtain ⟨h1, h2, h3⟩ := Net.C04_refuse fails st p hfi hf
  have := hfi p hf
  exact ⟨h1, h2, h3, this.1, fun id => ⟨(this.2 id).1, (this.2 id).2.1⟩⟩

/-- **C04 (callbacks get their endmarker).** A callback that requested an endmarker has received it
once the receiver finished (the epilogue ends every conversation that still had a callback). -/
theorem C04_callbacks_end (x : SideSt) (isCut : Bool) (id : Nat) (hc : x.cbs id = some true) :
    CbEvent.endmarker ∈ (epilogue x isCut).cbLog id ∧ (epilogue x isCut).cbs id = none := by
  simp [epilogue, hc]

/-! non-vacuity: the connection is cut while an item is queued and another is still in flight -/
example : ((run (fun _ => false) init [.remoteExec, .deliver .B, .send .B 1 ⟨7, []⟩, .send .B 1 ⟨8, []⟩,
      .deliver .A, .cut .A, .receive .A 1, .receive .A 1, .waitclose .A 1, .newchannel .A, .send .A 1 ⟨9, []⟩]).1
    = [.chan 1, .ok, .ok, .ok, .ok, .ok, .item ⟨7, []⟩, .eofError, .eofError, .osError, .osError]) := by decide

end ExecnetVerif
