import ExecnetVerif.Proofs.SerErrors
namespace ExecnetVerif

mutual
/-- built only from the supported builtin types: no channel object, no foreign object -/
def clean : PyVal → Bool
  | .none | .bool _ | .int _ | .float _ | .complex _ _ | .bytes _ | .str _ => true
  | .badstr | .foreign | .channel _ => false
  | .list xs | .tuple xs | .set xs | .frozenset xs => cleanAll xs
  | .dict kvs => cleanPairs kvs
def cleanAll : List PyVal → Bool
  | [] => true
  | x :: xs => clean x && cleanAll xs
def cleanPairs : List (PyVal × PyVal) → Bool
  | [] => true
  | (k, v) :: rest => clean k && clean v && cleanPairs rest
end

theorem cleanAll_iff (xs : List PyVal) : cleanAll xs = true ↔ ∀ x ∈ xs, clean x = true := by
  induction xs with
  | nil => simp [cleanAll]
  | cons x t ih => simp [cleanAll, ih]

theorem cleanPairs_iff (kvs : List (PyVal × PyVal)) :
    cleanPairs kvs = true ↔ ∀ kv ∈ kvs, clean kv.1 = true ∧ clean kv.2 = true := by
  induction kvs with
  | nil => simp [cleanPairs]
  | cons kv t ih => obtain ⟨k, v⟩ := kv; simp [cleanPairs, ih, and_assoc]

theorem rdI32_cont {bs : Bytes} {k : Int → Bytes → Res} {r s} (h : rdI32 bs k = .cont r s) :
    ∃ i r0, k i r0 = .cont r s := by
  unfold rdI32 at h
  split at h
  · exact ⟨_, _, h⟩
  · cases h

theorem rdBytes_cont {bs : Bytes} {k : Bytes → Bytes → Res} {r s} (h : rdBytes bs k = .cont r s) :
    ∃ b r0, k b r0 = .cont r s := by
  unfold rdBytes at h
  obtain ⟨i, r0, h2⟩ := rdI32_cont h
  split at h2
  · cases h2
  · split at h2
    · exact ⟨_, _, h2⟩
    · cases h2

def CleanStack (st : List PyVal) : Prop := ∀ x ∈ st, clean x = true

theorem CleanStack.cons {v : PyVal} {st : List PyVal} (hv : clean v = true) (hs : CleanStack st) :
    CleanStack (v :: st) := by
  intro x hx; simp at hx; rcases hx with rfl | hx
  · exact hv
  · exact hs x hx

theorem dedup_clean : ∀ (xs acc : List PyVal), (∀ x ∈ acc, clean x = true) → (∀ x ∈ xs, clean x = true) →
    ∀ x ∈ dedup acc xs, clean x = true := by
  intro xs
  induction xs with
  | nil => intro acc ha _; simpa [dedup] using ha
  | cons y t ih =>
    intro acc ha hx
    simp only [dedup]
    split
    · exact ih acc ha (fun x h => hx x (by simp [h]))
    · refine ih (acc ++ [y]) ?_ (fun x h => hx x (by simp [h]))
      intro x h; simp at h; rcases h with h | rfl
      · exact ha x h
      · exact hx _ (by simp)

theorem dictInsert_clean (k v : PyVal) (hk : clean k = true) (hv : clean v = true) :
    ∀ (kvs : List (PyVal × PyVal)), (∀ kv ∈ kvs, clean kv.1 = true ∧ clean kv.2 = true) →
    ∀ kv ∈ dictInsert k v kvs, clean kv.1 = true ∧ clean kv.2 = true := by
  intro kvs
  induction kvs with
  | nil => intro _ kv h; simp [dictInsert] at h; subst h; exact ⟨hk, hv⟩
  | cons p t ih =>
    intro hall kv h
    obtain ⟨k', v'⟩ := p
    simp only [dictInsert] at h
    split at h
    · simp at h; rcases h with rfl | h
      · exact ⟨(hall (k', v') (by simp)).1, hv⟩
      · exact hall kv (by simp [h])
    · simp at h; rcases h with rfl | h
      · exact hall (k', v') (by simp)
      · exact ih (fun q hq => hall q (by simp [hq])) kv h

theorem popN_clean {n : Int} {st : List PyVal} (hs : CleanStack st) :
    (∀ x ∈ (popN n st).1, clean x = true) ∧ CleanStack (popN n st).2 := by
  unfold popN
  split
  · refine ⟨fun x hx => ?_, fun x hx => ?_⟩
    · simp at hx; exact hs x (List.mem_of_mem_take hx)
    · exact hs x (List.mem_of_mem_drop hx)
  · refine ⟨fun x hx => ?_, fun x hx => ?_⟩
    · have := List.mem_of_mem_drop hx; simp at this; exact hs x this
    · simp at hx; have := List.mem_of_mem_take hx; simp at this; exact hs x this

theorem buildColl_clean {c n rest st r s} (h : buildColl c n rest st = .cont r s) (hs : CleanStack st) :
    CleanStack s := by
  unfold buildColl at h
  have hp : (∀ x ∈ (if n = 0 then (([] : List PyVal), st) else popN n st).1, clean x = true) ∧
      CleanStack (if n = 0 then (([] : List PyVal), st) else popN n st).2 := by
    split
    · exact ⟨by simp, hs⟩
    · exact popN_clean hs
  cases c <;> simp only at h
  · cases h
    exact CleanStack.cons (by simp only [clean]; exact (cleanAll_iff _).2 hp.1) hp.2
  · by_cases hh : hashableAll (if n = 0 then ([], st) else popN n st).1 = true
    · simp [hh] at h; rw [← h.2]
      exact CleanStack.cons (by simp only [clean]; exact (cleanAll_iff _).2 (dedup_clean _ _ (by simp) hp.1)) hp.2
    · simp [hh] at h
  · by_cases hh : hashableAll (if n = 0 then ([], st) else popN n st).1 = true
    · simp [hh] at h; rw [← h.2]
      exact CleanStack.cons (by simp only [clean]; exact (cleanAll_iff _).2 (dedup_clean _ _ (by simp) hp.1)) hp.2
    · simp [hh] at h

theorem setItem_clean {rest st r s} (h : setItem rest st = .cont r s) (hs : CleanStack st) :
    CleanStack s := by
  unfold setItem at h
  split at h
  · rename_i v k tgt below
    have hv : clean v = true := hs v (by simp)
    have hk : clean k = true := hs k (by simp)
    have ht : clean tgt = true := hs tgt (by simp)
    have hb : CleanStack below := fun x hx => hs x (by simp [hx])
    split at h
    · rename_i xs
      split at h
      · cases h
        refine CleanStack.cons ?_ hb
        simp only [clean] at ht ⊢
        rw [cleanAll_iff] at ht ⊢
        intro x hx
        rcases List.mem_or_eq_of_mem_set hx with h1 | h1
        · exact ht x h1
        · subst h1; exact hv
      · cases h
    · rename_i kvs
      split at h
      · cases h
        refine CleanStack.cons ?_ hb
        simp only [clean] at ht ⊢
        rw [cleanPairs_iff] at ht ⊢
        exact dictInsert_clean k v hk hv kvs ht
      · cases h
    · cases h
  · cases h

theorem replicate_none_clean (n : Nat) : cleanAll (List.replicate n .none) = true := by
  rw [cleanAll_iff]; intro x hx; rw [List.mem_replicate] at hx; rw [hx.2]; rfl

/-- without a channel factory, one opcode keeps the stack free of channel/foreign objects -/
theorem step_clean {cfg : Cfg} {op rest st r s} (hf : cfg.hasFactory = false)
    (h : step cfg op rest st = .cont r s) (hs : CleanStack st) : CleanStack s := by
  unfold step at h
  split at h
  all_goals first
    | (cases h; exact CleanStack.cons rfl hs)
    | (exact setItem_clean h hs)
    | (obtain ⟨b, r0, h2⟩ := rdBytes_cont h
       first
         | (cases h2; exact CleanStack.cons rfl hs)
         | (split at h2 <;> cases h2 <;> exact CleanStack.cons rfl hs)
         | (split at h2
            · cases h2; exact CleanStack.cons rfl hs
            · split at h2 <;> cases h2; exact CleanStack.cons rfl hs)
         | (split at h2
            · cases h2; exact CleanStack.cons rfl hs
            · cases h2))
    | (obtain ⟨i, r0, h2⟩ := rdI32_cont h
       first
         | (cases h2; exact CleanStack.cons rfl hs)
         | (exact buildColl_clean h2 hs)
         | (split at h2
            · cases h2
            · cases h2; exact CleanStack.cons (by simp only [clean]; exact replicate_none_clean _) hs)
         | (simp [hf] at h2))
    | (split at h
       · first
         | (cases h; exact CleanStack.cons rfl hs)
         | (split at h
            · cases h; exact CleanStack.cons rfl hs
            · cases h)
       · cases h)
    | (cases h)

theorem rdI32_stop {bs : Bytes} {k : Int → Bytes → Res} {s} (h : rdI32 bs k = .stop s) :
    ∃ i r0, k i r0 = .stop s := by
  unfold rdI32 at h
  split at h
  · exact ⟨_, _, h⟩
  · cases h

theorem rdBytes_stop {bs : Bytes} {k : Bytes → Bytes → Res} {s} (h : rdBytes bs k = .stop s) :
    ∃ b r0, k b r0 = .stop s := by
  unfold rdBytes at h
  obtain ⟨i, r0, h2⟩ := rdI32_stop h
  split at h2
  · cases h2
  · split at h2
    · exact ⟨_, _, h2⟩
    · cases h2

theorem buildColl_ne_stop {c n rest st s} : buildColl c n rest st ≠ .stop s := by
  intro h
  unfold buildColl at h
  cases c <;> simp only at h
  · cases h
  · by_cases hh : hashableAll (if n = 0 then ([], st) else popN n st).1 = true <;> simp [hh] at h
  · by_cases hh : hashableAll (if n = 0 then ([], st) else popN n st).1 = true <;> simp [hh] at h

theorem setItem_ne_stop {rest st s} : setItem rest st ≠ .stop s := by
  intro h
  unfold setItem at h
  split at h
  · split at h
    · split at h <;> cases h
    · split at h <;> cases h
    · cases h
  · cases h

/-- only STOP stops, and it leaves the stack as it is -/
theorem step_stop_stack {cfg : Cfg} {op rest st s} (h : step cfg op rest st = .stop s) : s = st := by
  unfold step at h
  split at h
  all_goals first
    | (cases h; rfl)
    | (cases h; done)
    | (exact absurd h setItem_ne_stop)
    | (obtain ⟨b, r0, h2⟩ := rdBytes_stop h
       first
         | (cases h2; done)
         | (split at h2 <;> cases h2; done)
         | (split at h2
            · cases h2
            · split at h2 <;> cases h2))
    | (obtain ⟨i, r0, h2⟩ := rdI32_stop h
       first
         | (cases h2; done)
         | (exact absurd h2 buildColl_ne_stop)
         | (split at h2 <;> cases h2))
    | (split at h
       · first
         | (cases h; done)
         | (split at h <;> cases h)
       · cases h)

theorem run_clean (cfg : Cfg) (hf : cfg.hasFactory = false) : ∀ (n : Nat) (input : Bytes) (st : List PyVal),
    input.length ≤ n → CleanStack st → ∀ v, run cfg input st = .ok v → clean v = true := by
  intro n
  induction n with
  | zero =>
    intro input st hl _ v h
    have : input = [] := by cases input <;> simp_all
    subst this; rw [run_nil] at h; cases h
  | succ n ih =>
    intro input st hl hs v h
    cases input with
    | nil => rw [run_nil] at h; cases h
    | cons op rest =>
      cases hst : step cfg op rest st with
      | cont r' st' =>
        rw [run_cont hst] at h
        have := step_len hst
        exact ih r' st' (by simp at hl; omega) (step_clean hf hst hs) v h
      | stop st' =>
        rw [run_stop hst] at h
        have := step_stop_stack hst
        subst this
        unfold finish at h
        split at h
        · cases h; exact hs _ (by simp)
        · cases h
      | err e => rw [run_err hst] at h; cases h

end ExecnetVerif
