/-
Driver command `pool.accepts` — trace inclusion against the thread-level WorkerPool model (`Model/Pool.lean`).

  pool.accepts P=<0|1> M=<0|1> G=<0|1> O=<0|1> ; <event> <event> ...

P: pool has a primary thread, M: main_thread_only, G: gated spawner, O: the pinned tree's (old) protocol.
Events are the LOGICAL events the harness records while the real `WorkerPool` runs under the deterministic
scheduler (nothing about yield points or internal calls):
  sp:i:t      `spawn` of task t returned a Reply to client thread i        rf:i:t   it raised ValueError
  st:t:p|w    the body of task t began on the primary / on a worker thread     en:t     the body ended
  sd:i        `trigger_shutdown` returned      wa:i:r:T  `waitall` returned r (T: a timeout was given)
  tm:i:r:T    `terminate` returned r           gt:i:t:r:T  `Reply.get` returned (r=1) or timed out (r=0)
  pl          `integrate_as_primary_thread` returned
The sequence of calls of every client thread is read off its own events.  The model is simulated along the
trace (candidate states = internal closure over the unobserved steps of all threads between two events, searched
depth-first with memoisation); answer `accept <states expanded>`, `reject <index of the furthest event reached>`
or `unknown <index>` when the search budget is exhausted.
Not part of any theorem (exercised by the correspondence runs).
-/
import ExecnetVerif.Model.Pool
import Std.Data.HashSet
namespace ExecnetVerif
open Pool

inductive PCall where
  | spawn (t : Nat) | shutdown | waitall (timed : Bool) | get (t : Nat) (timed : Bool)
  deriving Repr

structure PItem where
  call : PCall
  /-- index of the event that reports the return of this call; `none`: silent (first half of `terminate`) -/
  ev : Option Nat
  deriving Repr

inductive PEvent where
  | sp (i t : Nat) | rf (i t : Nat) | st (t : Nat) (prim : Bool) | en (t : Nat) | sd (i : Nat)
  | wa (i : Nat) (r timed : Bool) | tm (i : Nat) (r timed : Bool) | gt (i t : Nat) (r timed : Bool) | pl
  deriving Repr, Inhabited

def parseBit (s : String) : Option Bool :=
  if s == "1" then some true else if s == "0" then some false else none

def parsePEvent (tok : String) : Option PEvent :=
  match tok.splitOn ":" with
  | ["sp", i, t] => do pure (.sp (← i.toNat?) (← t.toNat?))
  | ["rf", i, t] => do pure (.rf (← i.toNat?) (← t.toNat?))
  | ["st", t, "p"] => do pure (.st (← t.toNat?) true)
  | ["st", t, "w"] => do pure (.st (← t.toNat?) false)
  | ["en", t] => do pure (.en (← t.toNat?))
  | ["sd", i] => do pure (.sd (← i.toNat?))
  | ["wa", i, r, b] => do pure (.wa (← i.toNat?) (← parseBit r) (← parseBit b))
  | ["tm", i, r, b] => do pure (.tm (← i.toNat?) (← parseBit r) (← parseBit b))
  | ["gt", i, t, r, b] => do pure (.gt (← i.toNat?) (← t.toNat?) (← parseBit r) (← parseBit b))
  | ["pl"] => some .pl
  | _ => none

def parseFlag (name : String) (tok : String) : Option Bool :=
  match tok.splitOn "=" with
  | [n, v] => if n == name then parseBit v else none
  | _ => none

def PEvent.user : PEvent → Option Nat
  | .sp i _ | .rf i _ | .sd i | .wa i _ _ | .tm i _ _ | .gt i _ _ _ => some i
  | _ => none

def PEvent.task : PEvent → Option Nat
  | .sp _ t | .rf _ t | .st t _ | .en t | .gt _ t _ _ => some t
  | _ => none

/-- the calls of every client thread, read off the trace -/
def programs (evs : Array PEvent) (nU : Nat) : Array (Array PItem) := Id.run do
  let mut progs : Array (Array PItem) := Array.replicate nU #[]
  for k in [0:evs.size] do
    match evs[k]! with
    | .sp i t | .rf i t => progs := progs.modify i (·.push ⟨.spawn t, some k⟩)
    | .sd i => progs := progs.modify i (·.push ⟨.shutdown, some k⟩)
    | .wa i _ b => progs := progs.modify i (·.push ⟨.waitall b, some k⟩)
    | .tm i _ b => progs := progs.modify i (fun p => (p.push ⟨.shutdown, none⟩).push ⟨.waitall b, some k⟩)
    | .gt i t _ b => progs := progs.modify i (·.push ⟨.get t b, some k⟩)
    | _ => pure ()
  return progs

structure PNode where
  s : State
  pcs : Array Nat

def agentCode : Option Agent → List Nat
  | none => [0, 0]
  | some (.user i) => [1, i]
  | some .primary => [2, 0]
  | some (.worker t) => [3, t]

def tphaseCode : TPhase → Nat
  | .unused => 0 | .pending => 1 | .inMbox => 2 | .inHand => 3 | .created => 4 | .body => 5
  | .ended => 6 | .resReady => 7 | .removing => 8 | .done => 9

def uphaseCode : UPhase → List Nat
  | .idle => [0, 0, 0] | .spawnHold t => [1, t, 0] | .spawnWait t m => [2, t, m] | .spawnRel t => [3, t, 0]
  | .spawnRet t => [4, t, 0] | .refusedRet => [5, 0, 0] | .shutHold => [6, 0, 0] | .shutRet => [7, 0, 0]
  | .waHold b => [8, b.toNat, 0] | .waWait b => [9, b.toNat, 0] | .waRet r => [10, r.toNat, 0]
  | .getWait t b => [11, t, b.toNat] | .getRet t r => [12, t, r.toNat]

def pphaseCode : PPhase → List Nat
  | .waitReady => [0, 0] | .readMbox => [1, 0] | .run t => [2, t] | .chkAcq t => [3, t] | .chk t => [4, t]
  | .left => [5, 0] | .gone => [6, 0]

/-- everything that influences future behaviour (ghost logs are determined by the phases) -/
def PNode.key (nU nT : Nat) (n : PNode) : List Nat :=
  let s := n.s
  agentCode s.lock ++ [s.shut.toNat, s.ready.toNat] ++ (match s.mbox with | none => [0, 0] | some t => [1, t]) ++
  pphaseCode s.pp ++ s.running ++ [999] ++
  (List.range nT).flatMap (fun t => [tphaseCode (s.phase t), (s.prim t).toNat]) ++
  (List.range nU).flatMap (fun i => uphaseCode (s.us i) ++ [(s.wreg i).toNat, (s.wev i).toNat]) ++ n.pcs.toList

/-- rebuild the function-valued fields from tables (keeps look-ups O(1) after many `upd`s) -/
def normalize (nU nT : Nat) (s : State) : State :=
  let ph := (Array.range nT).map s.phase
  let pr := (Array.range nT).map s.prim
  let us := (Array.range nU).map s.us
  let wr := (Array.range nU).map s.wreg
  let we := (Array.range nU).map s.wev
  let ws := (Array.range nU).map s.wsnap
  let wh := (Array.range nU).map s.wshut
  { s with
    phase := fun t => ph[t]?.getD .unused, prim := fun t => pr[t]?.getD false,
    us := fun i => us[i]?.getD .idle, wreg := fun i => wr[i]?.getD false, wev := fun i => we[i]?.getD false,
    wsnap := fun i => ws[i]?.getD [], wshut := fun i => wh[i]?.getD false }

structure PCtx where
  c : Config
  nU : Nat
  nT : Nat
  progs : Array (Array PItem)
  evs : Array PEvent

def PCtx.item (x : PCtx) (n : PNode) (i : Nat) : Option PItem :=
  (x.progs[i]?.getD #[])[n.pcs[i]?.getD 0]?

/-- Critical sections that cannot block are run to their end as soon as the lock is taken: the lock holder's
steps up to the release commute with every step of every other thread (those never touch the variables the
lock protects, and the unlocked readers — `wait()` / the mailbox read of the primary thread — are only ever
enabled, never disabled, by them), so no trace is lost by not interleaving inside them. -/
partial def settle (c : Config) (s : State) : State :=
  let next : Option (Agent × Action) :=
    match s.lock with
    | some (.user i) =>
      match s.us i with
      | .spawnHold _ => some (.user i, .spawnCheck)
      | .spawnWait _ _ => some (.user i, .spawnWaitfin)
      | .spawnRel _ => some (.user i, .spawnRelease)
      | .shutHold => some (.user i, .shutDo)
      | .waHold _ => some (.user i, .waCheck)
      | _ => none
    | some (.worker t) => some (.worker t, .tRemove t)
    | some .primary =>
      match s.pp with
      | .chk _ => some (.primary, .pCheck)
      | .run t => some (.primary, .tRemove t)
      | _ => none
    | none => none
  match next with
  | none => s
  | some a => match step c s a with
    | some s' => settle c s'
    | none => s

def PCtx.tryStep (x : PCtx) (n : PNode) (a : Agent × Action) (bump : Option Nat := none) : Option PNode :=
  match step x.c n.s a with
  | none => none
  | some s' =>
    some { s := normalize x.nU x.nT (settle x.c s'), pcs := match bump with | none => n.pcs | some i => n.pcs.modify i (· + 1) }

/-- is the (timed-out / successful) branch the one the trace will report for this call? -/
def PCtx.expects (x : PCtx) (it : PItem) : Option Bool :=
  match it.ev with
  | none => none
  | some k => match x.evs[k]? with
    | some (.wa _ r _) | some (.tm _ r _) | some (.gt _ _ r _) => some r
    | _ => none

/-- all internal (unobserved) moves of a candidate -/
def PCtx.internal (x : PCtx) (n : PNode) : List PNode := Id.run do
  let mut out : List PNode := []
  let s := n.s
  for i in [0:x.nU] do
    let it := x.item n i
    let acts : List (Action × Option Nat) :=
      match s.us i, it with
      | .idle, some ⟨.spawn t, _⟩ => [(.spawnAcq t, none)]
      | .idle, some ⟨.shutdown, _⟩ => [(.shutAcq, none)]
      | .idle, some ⟨.waitall b, _⟩ => [(.waAcq b, none)]
      | .idle, some ⟨.get t b, _⟩ => [(.getCall t b, none)]
      | .spawnHold _, _ => [(.spawnCheck, none)]
      | .spawnWait _ _, _ => [(.spawnWaitfin, none)]
      | .spawnRel _, _ => [(.spawnRelease, none)]
      | .shutHold, _ => [(.shutDo, none)]
      | .shutRet, some ⟨.shutdown, none⟩ => [(.shutReturn, some i)]
      | .waHold _, _ => [(.waCheck, none)]
      | .waWait _, some it' => (if x.expects it' == some false then [(Action.waTimeout, none)] else []) ++ [(.waWake, none)]
      | .getWait _ _, some it' => (if x.expects it' == some false then [(Action.getTimeout, none)] else []) ++ [(.getOk, none)]
      | _, _ => []
    for (act, bump) in acts do
      if let some n' := x.tryStep n (.user i, act) bump then out := n' :: out
  for t in [0:x.nT] do
    for act in [Action.tSetReady t, .tRemAcq t, .tRemove t] do
      if let some n' := x.tryStep n (.worker t, act) then out := n' :: out
      if let some n' := x.tryStep n (.primary, act) then out := n' :: out
  for act in [Action.pWait, .pRead, .pChkAcq, .pCheck] do
    if let some n' := x.tryStep n (.primary, act) then out := n' :: out
  return out

/-- the observed move `evs[k]` -/
def PCtx.observe (x : PCtx) (n : PNode) (k : Nat) (e : PEvent) : Option PNode :=
  let s := n.s
  let mine (i : Nat) : Bool := match x.item n i with | some it => it.ev == some k | none => false
  match e with
  | .sp i t => if mine i && s.us i == .spawnRet t then x.tryStep n (.user i, .spawnReturn) (some i) else none
  | .rf i _ => if mine i && s.us i == .refusedRet then x.tryStep n (.user i, .refusedReturn) (some i) else none
  | .st t true => x.tryStep n (.primary, .tBegin t)
  | .st t false => x.tryStep n (.worker t, .tBegin t)
  | .en t => match x.tryStep n (.primary, .tEnd t) with
    | some n' => some n'
    | none => x.tryStep n (.worker t, .tEnd t)
  | .sd i => if mine i && s.us i == .shutRet then x.tryStep n (.user i, .shutReturn) (some i) else none
  | .wa i r _ | .tm i r _ => if mine i && s.us i == .waRet r then x.tryStep n (.user i, .waReturn) (some i) else none
  | .gt i t r _ => if mine i && s.us i == .getRet t r then x.tryStep n (.user i, .getReturn) (some i) else none
  | .pl => x.tryStep n (.primary, .pLeave)

structure PSearch where
  failed : Std.HashSet (List Nat) := {}
  expanded : Nat := 0
  deepest : Nat := 0

/-- Depth-first search for ONE run of the model that produces the trace: from a candidate that has matched the
first `k` events, enumerate its internal closure breadth-first (fewest unobserved steps first) and continue from
every closure state that can perform event `k`.  `(k, state)` pairs that failed are memoised; the number of
expanded states is bounded by `cap` (answer `unknown` beyond it). -/
partial def PCtx.search (x : PCtx) (cap : Nat) (k : Nat) (root : PNode) (st : PSearch) : Option Bool × PSearch :=
  if k ≥ x.evs.size then (some true, st) else
  let rk := k :: root.key x.nU x.nT
  if st.failed.contains rk then (some false, st) else
  let e := x.evs[k]!
  let rec bfs (queue : List PNode) (later : List PNode) (seen : Std.HashSet (List Nat)) (st : PSearch) : Option Bool × PSearch :=
    match queue with
    | [] => match later with
      | [] => (some false, st)
      | _ => bfs later.reverse [] seen st
    | n :: rest =>
      let key := n.key x.nU x.nT
      if seen.contains key then bfs rest later seen st else
      if st.expanded ≥ cap then (none, st) else
      let st := { st with expanded := st.expanded + 1, deepest := max st.deepest k }
      let seen := seen.insert key
      let (r, st) := match x.observe n k e with
        | some n' => x.search cap (k + 1) n' st
        | none => (some false, st)
      match r with
      | some true => (some true, st)
      | none => (none, st)
      | some false => bfs rest (x.internal n ++ later) seen st
  let (r, st) := bfs [root] [] {} st
  match r with
  | some false => (some false, { st with failed := st.failed.insert rk })
  | _ => (r, st)

def PCtx.run (x : PCtx) : String :=
  let start : PNode := { s := normalize x.nU x.nT (settle x.c (init x.c)), pcs := Array.replicate x.nU 0 }
  let (r, st) := x.search 400000 0 start {}
  match r with
  | some true => s!"accept {st.expanded}"
  | some false => s!"reject {st.deepest}"
  | none => s!"unknown {st.deepest}"

def poolHandle : List String → Option String
  | "pool.accepts" :: p :: m :: g :: o :: ";" :: evs =>
    match parseFlag "P" p, parseFlag "M" m, parseFlag "G" g, parseFlag "O" o, evs.mapM parsePEvent with
    | some p, some m, some g, some o, some evs =>
      let evs := evs.toArray
      let nU := evs.foldl (fun acc e => match e.user with | some i => max acc (i + 1) | none => acc) 0
      let nT := evs.foldl (fun acc e => match e.task with | some t => max acc (t + 1) | none => acc) 0
      if nU > 64 || nT > 64 then some "bad-op" else
      let x : PCtx := { c := { primary := p, mto := m, gated := g, old := o }, nU := nU, nT := nT,
                        progs := programs evs nU, evs := evs }
      some x.run
    | _, _, _, _, _ => some "bad-op"
  | "pool.accepts" :: _ => some "bad-op"
  | _ => none

end ExecnetVerif
