/-
Driver commands of the bootstrap model (C15).  Not part of any theorem.
  boot.kind p v y s g k         -> import | exec | socket | error        (bits: popen via python ssh vagrant_ssh socket)
  boot.io   p v y s g k         -> proxy | pipe | socket | assertion | error
  boot.closed <L stdlib> <L builtins> <L main> <L before> <L defined> <L free>
              <n> (module root rel guarded fallback <L bound> <L names> <L backends>)*
              <m> (module <L names> <L viaMain> <L viaOther> <L assigned> <L unprovided>)*
                                 -> closed | open import:<module> | open name:<n>
  where <L x> = count followed by that many tokens.
-/
import ExecnetVerif.Model.Bootstrap
namespace ExecnetVerif
open Bootstrap

abbrev P (α : Type) := List String → Option (α × List String)

def pBit : P Bool
  | "0" :: r => some (false, r)
  | "1" :: r => some (true, r)
  | _ => none

def pTok : P String
  | t :: r => some (t, r)
  | [] => none

def pMany {α : Type} (p : P α) : Nat → P (List α)
  | 0, r => some ([], r)
  | k + 1, r => do
    let (x, r1) ← p r
    let (xs, r2) ← pMany p k r1
    pure (x :: xs, r2)

def pList {α : Type} (p : P α) : P (List α) := fun r => do
  let (n, r1) ← pTok r
  let k ← n.toNat?
  pMany p k r1

def pImport : P Import := fun r => do
  let (module, r) ← pTok r
  let (root, r) ← pTok r
  let (rel, r) ← pBit r
  let (guarded, r) ← pBit r
  let (fallback, r) ← pBit r
  let (bound, r) ← pList pTok r
  let (names, r) ← pList pTok r
  let (backends, r) ← pList pTok r
  pure ({ module, root, relative := rel, bound, names, scope := "", funcLevel := false, guarded, fallback, backends }, r)

def pFallback : P Fallback := fun r => do
  let (module, r) ← pTok r
  let (names, r) ← pList pTok r
  let (viaMain, r) ← pList pTok r
  let (viaOther, r) ← pList pTok r
  let (assigned, r) ← pList pTok r
  let (unprovided, r) ← pList pTok r
  pure ({ module, names, viaMain, viaOther, assigned, unprovided }, r)

def parseSpec (toks : List String) : Option Spec :=
  match pMany pBit 6 toks with
  | some ([a, b, c, d, e, f], []) => some ⟨a, b, c, d, e, f⟩
  | _ => none

def bootClosed (toks : List String) : Option String := do
  let (stdlib, r) ← pList pTok toks
  let (builtins, r) ← pList pTok r
  let (main, r) ← pList pTok r
  let (before, r) ← pList pTok r
  let (defined, r) ← pList pTok r
  let (free, r) ← pList pTok r
  let (imports, r) ← pList pImport r
  let (fallbacks, r) ← pList pFallback r
  if r ≠ [] then none
  let u : SUnit := { name := "", imports, fallbacks, excluded := [], defined, freeGlobals := free }
  match firstOpen stdlib builtins main before u with
  | some w => pure s!"open {w}"
  | none => pure "closed"

def bootHandle : List String → Option String
  | "boot.kind" :: toks =>
    match parseSpec toks with
    | some s => some (match bootstrapKind s with
      | .import => "import" | .exec => "exec" | .socket => "socket" | .error => "error")
    | none => some "bad-op"
  | "boot.io" :: toks =>
    match parseSpec toks with
    | some s => some (match ioKind s with
      | .proxy => "proxy" | .pipe => "pipe" | .socket => "socket" | .assertion => "assertion" | .error => "error")
    | none => some "bad-op"
  | "boot.closed" :: toks => some ((bootClosed toks).getD "bad-op")
  | _ => none

end ExecnetVerif
