/-
`BaseGateway._send` with the deferral of re-entrant sends (fix D30).

A send writes its frame with one `to_io`.  While that write is in progress, Python code of the same thread can run —
a garbage collection finalises forgotten channels and their `__del__` calls `_send` again (CLOSE / LAST_MESSAGE).  The
send lock is re-entrant, so the nested call gets in; `_send` notices (`_sending`) and appends the message to
`_send_deferred`; the outer call writes the deferred messages after its own frame — and while *those* are being written
further finalisers may run and defer further messages.

`SendTree.node f ks`: the frame `f`, and the sends `ks` that are attempted (re-entrantly) while `f` is being written,
each again with the sends attempted while *it* is written later.  `drain` is the loop of `_send`: the wire receives
whole frames, one after the other, in level order of the tree; nothing is lost, nothing is written twice, nothing is
written inside another frame.
-/
namespace ExecnetVerif.SendDefer

inductive SendTree (α : Type) where
  | node (frame : α) (during : List (SendTree α))

namespace SendTree

mutual
  def size {α : Type} : SendTree α → Nat
    | node _ ks => 1 + sizeList ks
  def sizeList {α : Type} : List (SendTree α) → Nat
    | [] => 0
    | t :: ts => size t + sizeList ts
end

mutual
  /-- every frame anybody tried to send -/
  def frames {α : Type} : SendTree α → List α
    | node f ks => f :: framesList ks
  def framesList {α : Type} : List (SendTree α) → List α
    | [] => []
    | t :: ts => frames t ++ framesList ts
end

end SendTree

open SendTree

theorem sizeList_append {α : Type} (a b : List (SendTree α)) : sizeList (a ++ b) = sizeList a + sizeList b := by
  induction a with
  | nil => simp [sizeList]
  | cons t ts ih => simp [sizeList, ih, Nat.add_assoc]

/-- the loop of `_send`: `queue` = the message being sent followed by `_send_deferred`; writing the head frame lets the
sends attempted during that write join the end of the queue -/
def drain {α : Type} : List (SendTree α) → List α
  | [] => []
  | node f ks :: q => f :: drain (q ++ ks)
termination_by q => sizeList q
decreasing_by
  simp only [sizeList, size, sizeList_append]
  omega

/-- what one top-level `_send(message)` puts on the wire -/
def sendOne {α : Type} (t : SendTree α) : List α := drain [t]

end ExecnetVerif.SendDefer
