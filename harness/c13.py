"""C13 — loading untrusted bytes is total, typed-error-only and side-effect free (DESIGN.md §4 C13)."""
from __future__ import annotations

import os
import select
import struct
import subprocess

from . import common, pyval

OPS = b"@ABCDEFGHIJKLMNOPQRST"


class Worker:
    def __init__(self):
        env = dict(os.environ)
        env["PYTHONPATH"] = os.path.join(common.REPO, "src")
        self.p = subprocess.Popen(["/venv/bin/python", os.path.join(common.VERIF, "harness", "loadworker.py")],
                                  stdin=subprocess.PIPE, stdout=subprocess.PIPE, env=env)

    def ask(self, mode: str, data: bytes, timeout=20.0):
        self.p.stdin.write((mode + " " + pyval.hexs(data) + "\n").encode())
        self.p.stdin.flush()
        r, _, _ = select.select([self.p.stdout], [], [], timeout)
        if not r:
            self.p.kill()
            return "timeout"
        line = self.p.stdout.readline()
        if not line:
            return "crash"
        return line.decode().rstrip("\n")

    def close(self):
        try:
            self.p.stdin.close()
            self.p.wait(5)
        except Exception:
            self.p.kill()


def i4(n):
    return struct.pack("!i", n)


def has_unjustified_newlist(bs: bytes) -> bool:
    """the known-finding shape: a NEWLIST ('K') count larger than the remaining input length"""
    for i in range(len(bs) - 4):
        if bs[i] == 0x4B:
            n = struct.unpack("!i", bs[i + 1:i + 5])[0]
            if n > len(bs) - i - 5:
                return True
    return False


INT_ALPHA = [b"0", b"1", b"7", b"9", b"_", b"+", b"-", b" ", b"\t", b"\n", b"\x0b", b"\x0c", b"\r", b"\x00", b"a", b"L", b".", b"e",
             b"\xd9\xa1", b"x"]
KEYS = [b"F" + i4(1), b"R", b"C", b"F" + i4(0), b"D" + struct.pack("!d", 1.0), b"D" + struct.pack("!d", 0.0), b"D" + struct.pack("!d", -0.0),
        b"T" + struct.pack("!dd", 1.0, 0.0), b"T" + struct.pack("!dd", 1.0, -0.0), b"T" + struct.pack("!dd", 0.0, 1.0),
        b"D" + struct.pack("!d", float("nan")), b"D" + struct.pack("!d", float("inf")), b"H" + i4(16) + b"9007199254740992",
        b"D" + struct.pack("!d", 2.0**53), b"H" + i4(16) + b"9007199254740993", b"D" + struct.pack("!d", 1e300), b"H" + i4(5) + b"1" + b"0" * 4,
        b"D" + struct.pack("!d", 1e4), b"N" + i4(1) + b"a", b"A" + i4(1) + b"a", b"L", b"F" + i4(1) + b"@" + i4(1), b"R@" + i4(1),
        b"F" + i4(1) + b"E" + i4(1), b"RE" + i4(1), b"D" + struct.pack("!d", 1.0) + b"E" + i4(1), b"F" + i4(-1), b"D" + struct.pack("!d", -1.0),
        b"D" + struct.pack("!Q", 1), b"D" + struct.pack("!d", 0.5), b"D" + struct.pack("!d", 2.5e-308)]


def gen_soup(rng):
    out = bytearray()
    n = rng.choice([1, 2, 3, 5, 8, 13])
    for _ in range(n):
        c = rng.random()
        op = rng.choice(OPS) if c < 0.93 else rng.getrandbits(8)
        out.append(op)
        if op in b"FGKB@OE":  # int4 argument
            k = rng.random()
            if k < 0.5:
                v = rng.choice([0, 1, 2, 3, -1, -2])
            elif k < 0.8:
                v = rng.randint(-5, 12)
            elif k < 0.9:
                v = rng.choice([2**31 - 1, -(2**31), 2**20, 2**16, 70000, -70000])
            else:
                v = struct.unpack("!i", bytes(rng.getrandbits(8) for _ in range(4)))[0]
                if op == 0x4B and v > 2**20 and rng.random() < 0.9:
                    v = v % 1000
            out += i4(v)
        elif op in b"HIAMNS":
            ln = rng.choice([0, 1, 2, 3, 5, 9])
            if op in b"HI":
                payload = b"".join(rng.choice(INT_ALPHA) for _ in range(ln))
                if rng.random() < 0.5:
                    payload = str(rng.choice([0, 5, -5, 2**40, -(2**70)])).encode()
            elif rng.random() < 0.5:
                payload = "".join(chr(rng.choice(pyval.CODEPOINTS)) for _ in range(ln)).encode("utf-8", "surrogatepass")
            else:
                payload = bytes(rng.getrandbits(8) for _ in range(ln))
            k = rng.random()
            declared = len(payload) if k < 0.75 else len(payload) + rng.choice([-2, -1, 1, 2, 100, 2**31 - 1 - len(payload), -len(payload) - 1, -(2**31) - len(payload)])
            declared = max(-(2**31), min(2**31 - 1, declared))
            out += i4(declared) + payload
        elif op == 0x44:
            out += bytes(rng.getrandbits(8) for _ in range(rng.choice([8, 8, 8, 7, 3])))
        elif op == 0x54:
            out += bytes(rng.getrandbits(8) for _ in range(rng.choice([16, 16, 16, 15, 8])))
    if rng.random() < 0.7:
        out.append(0x51)
    return bytes([2]) + bytes(out) if rng.random() < 0.9 else bytes(out)


def gen_struct(rng):
    """structured but adversarial: dict/set/list construction with colliding keys, bad indices, odd counts"""
    k = rng.random()
    if k < 0.4:  # dict with equal-valued keys of different types
        out = bytearray(b"J")
        for _ in range(rng.choice([1, 2, 3, 4, 6])):
            out += rng.choice(KEYS) + rng.choice(KEYS) + b"P"
        return b"\x02" + bytes(out) + b"Q"
    if k < 0.7:  # set / frozenset / tuple with any count
        items = [rng.choice(KEYS) for _ in range(rng.choice([0, 1, 2, 3, 5]))]
        cnt = rng.choice([len(items), len(items), 0, 1, -1, -2, len(items) + 1, 2, -len(items), 100, -100])
        pre = b"".join(rng.choice(KEYS) for _ in range(rng.choice([0, 0, 1, 2])))
        body = pre + b"".join(items) + bytes([rng.choice(b"@OE")]) + i4(cnt)
        if pre and rng.random() < 0.7:
            body += b"@" + i4(rng.choice([2, 3, len(pre)]))
        return b"\x02" + body + b"Q"
    # list with arbitrary indices
    n = rng.choice([0, 1, 2, 3, 4, -1])
    out = bytearray(b"K" + i4(n))
    for _ in range(rng.choice([0, 1, 2, 3, 5])):
        idx = rng.choice([b"F" + i4(rng.randint(-6, 6)), b"R", b"C", b"L", b"D" + struct.pack("!d", 1.0), b"H" + i4(1) + b"1", b"N" + i4(1) + b"0"])
        out += idx + rng.choice(KEYS) + b"P"
    if rng.random() < 0.2:
        out += b"P"
    return b"\x02" + bytes(out) + b"Q"


def mutations(rng, d: bytes, exhaustive: bool):
    outs = []
    positions = range(len(d)) if exhaustive else [rng.randrange(len(d)) for _ in range(6)]
    for i in positions:
        subs = [0x00, 0xFF, 0x7F, 0x80, rng.choice(OPS), rng.getrandbits(8), d[i] ^ 1]
        if not exhaustive:
            subs = subs[3:6]
        for b in subs:
            if b != d[i]:
                outs.append(d[:i] + bytes([b]) + d[i + 1:])
        outs.append(d[:i] + d[i + 1:])
        outs.append(d[:i] + bytes([rng.choice(OPS)]) + d[i:])
    return outs


def judge(ctx, res, data: bytes, mode: str, impl: str, origin: str, valid_full: bytes | None = None):
    """model-free oracle on the implementation's outcome"""
    case = {"hex": pyval.hexs(data), "mode": mode, "origin": origin}
    if impl.startswith("ok ") or impl == "huge":
        if valid_full is not None and len(data) < len(valid_full):
            res.violations.append(dict(case=case, what="a strict prefix of a valid dump loaded successfully", impl=impl[:200]))
            return
        if impl != "huge" and (" H " in " " + impl or " X" in impl):
            res.violations.append(dict(case=case, what="loads returned a value outside the builtin grammar (channel/foreign object)", impl=impl[:200]))
        res.stat("impl_ok")
        return
    cls = impl[4:] if impl.startswith("err ") else impl
    res.stat("impl_" + cls)
    if cls in ("EOFError", "DataFormatError"):
        if valid_full is not None and len(data) < len(valid_full) and cls != "EOFError":
            res.violations.append(dict(case=case, what="strict prefix of a valid dump raised DataFormatError, not EOFError (the input merely ends early)", impl=impl))
        return
    finding = None
    if cls == "MemoryError" and has_unjustified_newlist(data):
        finding = "C13-newlist-count-exceeds-input"
    res.violations.append(dict(case=case, what=f"loads raised {cls} (neither DataFormatError nor EOFError)" if cls not in ("timeout", "crash") else f"loads {cls}",
                               finding=finding, impl=impl))


def run(ctx, n=None):
    res = common.Result()
    res.rule = ("byte strings from: opcode soups with adversarial length fields; structured adversarial dict/set/tuple/list programs "
                "(equal keys across bool/int/float/complex, arbitrary counts and indices); int-grammar and UTF-8 payload fuzz; every single-byte "
                "substitution/deletion/insertion of valid dumps (exhaustive for dumps <= 40 B); ALL strict prefixes of generated valid dumps; "
                "every fifth input through load() on a stream handing out 1 or 3 bytes per read; "
                "distinct = distinct (mode, bytes); non-trivial = more than the version byte and one opcode")
    rng = ctx.rng("bytes")
    w = Worker()
    cases = []  # (data, mode, origin, valid_full)
    try:
        # corpus: minimised failures of the pinned tree (D5) and the D6 demonstration
        corpus = ["024600", "0248000000016151", "024e00000001ff51", "024251", "0242000000015151", "024b000000014c4c5051", "024a4b000000004c5051",
                  "024c4c4c5051", "0246000000004c4c5051", "02", "-", "024f0000000151", "024b00000000460000000051", "024effffffff51",
                  "02480000000351", "0244000051", "0251", "024c4c51", "034c51", "024b00000001460000000546000000015051",
                  "024b0000000146ffffffff4c5051", "024a4b000000004c5051", "02460000000140000000014600000001400000000140000000024a504c5051"]
        for h in corpus:
            cases.append((pyval.unhex(h), "000", "corpus", None))
        n = n or ctx.budget(3500, 250000, 12000)
        for i in range(n):
            k = i % 10
            if k < 4:
                cases.append((gen_soup(rng), rng.choice(["000", "000", "100", "010", "110", "001"]), "soup", None))
            elif k < 7:
                cases.append((gen_struct(rng), "000", "struct", None))
            else:
                g = pyval.Gen(rng, max_depth=3, max_size=rng.choice([3, 6, 12]))
                v = g.value()
                try:
                    d = ctx.execnet.dumps(v)
                except Exception:
                    continue
                if len(d) > 400:
                    continue
                exhaustive = len(d) <= 40
                if k == 7:
                    for p in range(len(d)):
                        cases.append((d[:p], "000", "prefix", d))
                    res.stat("prefix_sets")
                else:
                    for m in mutations(rng, d, exhaustive and i % 30 == 8):
                        cases.append((m, "000", "mutation", None))
        # every fifth input is loaded from a stream that hands out 1 or 3 bytes per read(): same outcome, same exact types
        for j in range(0, len(cases), 5):
            data, mode, origin, full = cases[j]
            if mode[2] == "0" and origin != "corpus":
                cases[j] = (data, mode[:2] + ("2" if j % 10 == 0 else "3"), origin, full)
                res.stat("short_reading_stream_inputs")
        # run the implementation
        items = []
        for data, mode, origin, full in cases:
            impl = w.ask(mode, data)
            if impl in ("timeout", "crash"):
                w.close()
                w = Worker()
            nontrivial = len(data) > 2
            res.count((mode, data), nontrivial=nontrivial)
            judge(ctx, res, data, mode, impl, origin, full)
            items.append((data, mode, impl))
            if origin != "corpus":
                res.sample({"hex": pyval.hexs(data)[:120], "mode": mode, "impl": impl[:80]}, limit=8)
        # dedicated known-finding demonstration (D6)
        d6 = bytes.fromhex("024b7fffffff51")
        impl = w.ask("000", d6)
        res.count(("000", d6))
        judge(ctx, res, d6, "000", impl, "D6-demo")
    finally:
        w.close()
    deep_nesting_probe(ctx, res)
    read_exact_correspondence(ctx, res, ctx.budget(1500, 40000, 6000))
    # model correspondence
    lines = ["ser.loads %s0 %s" % (mode[:2], pyval.hexs(data)) for data, mode, _ in items]
    outs = ctx.driver.ask(lines)
    for (data, mode, impl), out in zip(items, outs):
        if out == "err MemoryError":
            res.stat("model_memlimit_skipped")
            continue
        if impl == "huge":
            res.stat("impl_huge_skipped")
            continue
        if impl in ("timeout", "crash"):
            res.mismatches.append(dict(op="ser.loads", hex=pyval.hexs(data)[:300], mode=mode, impl=impl, model=out[:200]))
            continue
        same = impl == out
        if not same and impl.startswith("ok ") and out.startswith("ok "):
            try:
                same = pyval.parse_line(impl[3:]) == pyval.parse_line(out[3:])
            except Exception:
                same = False
        if same:
            res.traces += 1
        else:
            res.mismatches.append(dict(op="ser.loads", hex=pyval.hexs(data)[:300], mode=mode, impl=impl[:300], model=out[:300]))
    return res


class ChunkStream:
    """the adversary of Model/Chunk.lean: read(k) hands out the next chunk if it has at most k bytes, else its first k bytes"""

    def __init__(self, chunks):
        self.chunks = [bytes(c) for c in chunks]

    def read(self, k=-1):
        if not self.chunks:
            return b""
        c = self.chunks[0]
        if k is None or k < 0 or len(c) <= k:
            self.chunks.pop(0)
            return c
        self.chunks[0] = c[k:]
        return c[:k]


def read_exact_correspondence(ctx, res, n):
    """Unserializer._read_exact(k) on chunked streams against `rdx.run` (unserReadExact); model-free: the result is the next k
    bytes as `bytes`, the rest stays, EOFError names what was there"""
    gb = ctx.execnet.gateway_base
    rng = ctx.rng("read-exact")
    cases = []
    for i in range(n):
        nchunks = rng.choice([0, 1, 2, 3, 5, 8])
        chunks = [bytes(rng.randrange(256) for _ in range(rng.choice([1, 1, 2, 3, 7, 20]))) for _ in range(nchunks)]
        if chunks and rng.random() < 0.15:
            chunks.insert(rng.randrange(len(chunks) + 1), b"")   # a read that returns nothing although more follows
        total = sum(len(c) for c in chunks)
        k = rng.choice([0, 1, 2, 4, total, max(0, total - 1), total + 1, rng.randrange(total + 3)])
        st = ChunkStream(chunks)
        try:
            got = gb.Unserializer(st)._read_exact(k)
            impl = "ok %s rest=%s" % (pyval.hexs(got) if got else "-", pyval.hexs(b"".join(st.chunks)) if b"".join(st.chunks) else "-")
            typ = type(got)
        except EOFError as e:
            m = __import__("re").search(r"got (\d+)", str(e))
            impl = "err %s" % (m.group(1) if m else "?")
            typ = bytes
        except BaseException as e:  # noqa: BLE001
            impl = "raise " + type(e).__name__
            typ = bytes
        case = {"read_exact": k, "chunks": [pyval.hexs(c) for c in chunks]}
        res.count(("rdx", k, tuple(chunks)), nontrivial=nchunks >= 2)
        res.stat("read_exact_" + impl.split()[0])
        data = b"".join(chunks)
        clean = b"" not in chunks
        if clean:
            want = ("ok %s rest=%s" % (pyval.hexs(data[:k]) or "-", pyval.hexs(data[k:]) or "-")) if k <= len(data) else "err %d" % len(data)
            if impl != want or typ is not bytes:
                res.violations.append(dict(case=case, finding=None, impl=impl,
                                           what="_read_exact(%d) on a stream handing out %r-byte pieces: %s (%s), expected %s as bytes" % (
                                               k, [len(c) for c in chunks], impl[:120], typ.__name__, want[:120])))
                continue
        cases.append((case, impl, "rdx.run %d %s" % (k, " ".join(pyval.hexs(c) if c else "-" for c in chunks))))
    outs = ctx.driver.ask([l for _c, _i, l in cases])
    for (case, impl, line), out in zip(cases, outs):
        if impl == out:
            res.traces += 1
        else:
            res.mismatches.append(dict(op="rdx.run", case=case, impl=impl, model=out, line=line[:300]))


def deep_nesting_probe(ctx, res):
    """known finding C13-deep-nesting-hash-stack-overflow: ~1.5 MB of plain bytes — a tuple nested 300 000 levels deep
    (BUILDTUPLE x n, built iteratively by the loader) made a member of a set — crash the interpreter: hashing the tuple
    recurses in C without a guard.  Run in a process of its own; a segmentation fault is the finding, anything else is judged
    like every other input (typed error or a value)."""
    import subprocess
    import sys

    n = 300000
    code = ("import execnet\n"
            "data = b'\\x02L' + b'@\\x00\\x00\\x00\\x01' * %d + b'O\\x00\\x00\\x00\\x01Q'\n"
            "try:\n    execnet.loads(data); print('ok')\n"
            "except (execnet.DataFormatError, EOFError) as e:\n    print('typed', type(e).__name__)\n"
            "except BaseException as e:\n    print('other', type(e).__name__)\n" % n)
    env = dict(os.environ, PYTHONPATH=os.path.join(common.REPO, "src"))
    p = subprocess.run([sys.executable, "-c", code], env=env, capture_output=True, text=True, timeout=120)
    res.count(("deep-nesting-probe", n))
    case = dict(shape="NONE BUILDTUPLE(1) x %d SET(1) STOP" % n, bytes=2 + 5 * n + 6)
    if p.returncode < 0:
        res.violations.append(dict(case=case, what="loads() of %d plain bytes killed the interpreter with signal %d (no exception at all)"
                                   % (case["bytes"], -p.returncode), finding="C13-deep-nesting-hash-stack-overflow", impl="signal %d" % -p.returncode))
    elif not p.stdout.startswith(("ok", "typed")):
        res.violations.append(dict(case=case, what="loads() of a deeply nested tuple in a set: %s %s" % (p.stdout.strip()[:80], p.stderr.strip()[-120:]),
                                   finding=None, impl=p.stdout.strip()[:80]))


def search(ctx, prev):
    return run(ctx)


def replay(ctx, payload):
    res = common.Result()
    c = payload["case"]
    data = pyval.unhex(c["hex"])
    w = Worker()
    try:
        impl = w.ask(c.get("mode", "000"), data)
    finally:
        w.close()
    judge(ctx, res, data, c.get("mode", "000"), impl, "replay")
    out = ctx.driver.ask(["ser.loads %s0 %s" % (c.get("mode", "000")[:2], pyval.hexs(data))])[0]
    if out != impl and out != "err MemoryError":
        res.mismatches.append(dict(op="ser.loads", hex=c["hex"], impl=impl, model=out))
    res.count(data)
    return res
