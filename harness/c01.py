"""C01 — serializer round-trip is total and type-exact (DESIGN.md §4 C01)."""
from __future__ import annotations

import io
import sys

from . import common, pyval
from .pyval import Foreign


def _contains_bad(v):
    """does the value contain an unsupported leaf or a non-encodable str?"""
    stack = [v]
    while stack:
        x = stack.pop()
        t = type(x)
        if t is str:
            try:
                x.encode("utf-8")
            except UnicodeEncodeError:
                return True
        elif t not in pyval.SUPPORTED:
            return True
        else:
            stack.extend(pyval.children(x))
    return False


def classify(v, exc):
    """map an implementation failure to a *specific* known-finding id, or None"""
    if isinstance(exc, ValueError) and not isinstance(exc, UnicodeError) and pyval.max_int_digits(v) > 4300:
        return "C01-int-digits-over-4300"
    if isinstance(exc, RecursionError) and pyval.depth_of(v) > 150:
        return "C01-nesting-depth-recursionlimit"
    return None


def impl_roundtrip(execnet, v):
    """returns ('ok', bytes, value) | ('DumpError', msg) | ('other', exc)"""
    try:
        b = execnet.dumps(v)
    except execnet.DumpError as e:
        return ("DumpError", str(e))
    except BaseException as e:  # noqa: BLE001 - anything else is a finding
        return ("other", e)
    try:
        w = execnet.loads(b)
    except BaseException as e:  # noqa: BLE001
        return ("loadfail", b, e)
    return ("ok", b, w)


def check_value(ctx, res, v, origin):
    """run one value through impl (dumps/loads, dump/load) and model; record findings"""
    execnet = ctx.execnet
    line = pyval.render(v)
    out = impl_roundtrip(execnet, v)
    bad = _contains_bad(v)
    case = {"tokens": line, "origin": origin}
    res.count(line, nontrivial=pyval.is_nontrivial(v))
    if out[0] == "ok":
        res.stat("impl_ok")
        if bad:
            res.violations.append(dict(case=case, what="unsupported value was serialized instead of DumpError", impl=out[1].hex()))
            return None
        if pyval.canon(out[2]) != pyval.canon(v):
            res.violations.append(dict(case=case, what="loads(dumps(v)) != v (type-exact)", impl=repr(out[2])[:300]))
            return None
        # stream variants
        f = io.BytesIO()
        execnet.dump(f, v)
        if f.getvalue() != out[1]:
            res.violations.append(dict(case=case, what="dump(stream) wrote different bytes than dumps", impl=f.getvalue().hex()))
            return None
        f.seek(0)
        if pyval.canon(execnet.load(f)) != pyval.canon(v):
            res.violations.append(dict(case=case, what="load(stream) != v", impl=""))
            return None
        # a stream that hands out short reads (pipe, socket): at most k bytes per read() call, k derived from the bytes
        k = (1, 2, 3, 7, 64)[len(out[1]) % 5]
        try:
            back = execnet.load(ShortReads(out[1] + b"TRAILER", k))
        except Exception as e:  # noqa: BLE001
            res.violations.append(dict(case=case, what="load() from a stream giving <= %d bytes per read raised %r" % (k, e), impl=out[1].hex()[:200]))
            return None
        if pyval.canon(back) != pyval.canon(v) or type(back) is not type(out[2]):
            res.violations.append(dict(case=case, what="load() from a stream giving <= %d bytes per read != v" % k, impl=repr(back)[:200]))
            return None
        return ("ok", out[1])
    if out[0] == "DumpError":
        res.stat("impl_DumpError")
        if not bad:
            res.violations.append(dict(case=case, what="supported value rejected with DumpError: " + out[1]))
            return None
        return ("DumpError",)
    if out[0] == "loadfail":
        res.violations.append(dict(case=case, what="loads failed on dumps output: %r" % (out[2],), impl=out[1].hex()))
        return None
    exc = out[1]
    res.stat("impl_" + type(exc).__name__)
    res.violations.append(dict(case=case, what="dumps raised %s instead of DumpError/success" % type(exc).__name__,
                               finding=classify(v, exc)))
    return ("ValueError",) if isinstance(exc, ValueError) else None


class ShortReads:
    """a binary stream whose read(n) returns at most k bytes (never more than asked for)"""

    def __init__(self, data, k):
        self.data, self.pos, self.k = data, 0, k

    def read(self, n=-1):
        n = self.k if n is None or n < 0 else min(n, self.k)
        piece = self.data[self.pos:self.pos + n]
        self.pos += len(piece)
        return piece


def compare_model(ctx, res, items):
    """items: list of (line, impl_outcome) ; ask the driver and compare"""
    lines = ["ser.dumps " + line for line, _ in items]
    outs = ctx.driver.ask(lines)
    loads_req = []
    for (line, impl), out in zip(items, outs):
        if impl is None:
            continue
        if impl[0] == "ok":
            exp = "ok " + pyval.hexs(impl[1])
            if out != exp:
                res.mismatches.append(dict(op="ser.dumps", case=line[:400], impl=exp[:200], model=out[:200]))
            else:
                loads_req.append((line, impl[1]))
        else:
            exp = "err " + impl[0]
            if out != exp:
                res.mismatches.append(dict(op="ser.dumps", case=line[:400], impl=exp, model=out[:200]))
    outs = ctx.driver.ask(["ser.loads 000 " + pyval.hexs(b) for _, b in loads_req])
    for (line, b), out in zip(loads_req, outs):
        if not out.startswith("ok ") or pyval.parse_line(out[3:]) != pyval.parse_line(line):
            res.mismatches.append(dict(op="ser.loads", case=line[:400], impl="roundtrip ok", model=out[:200]))
        else:
            res.traces += 1


CORPUS = [
    # minimised past failures of the pinned tree (run first)
    "I -2147483649",                       # D1: struct.error below -2**31
    "I -2147483648", "I 2147483647", "I 2147483648",
    "L 1 I -9223372036854775809",
    "M 2 T I 1 D 3ff0000000000000 S -",    # bool key then (would-be-equal) value positions
    "P 2 D 7ff8000000000000 D 8000000000000000",
    "M 1 P 2 I 1 Z 1 I 2 L 1 E 0",
    "L 1 X", "M 1 I 1 X", "P 1 U", "E 1 X", "M 1 X I 1",
    "S f48fbfbf", "S 00", "S ed9fbf", "S ee8080",
]


def named_class_cases(execnet):
    """D2: classes that merely share a supported type's name must be rejected with DumpError"""
    out = []
    for nm in ("list", "NoneType", "long", "Channel", "dict", "int", "str", "bool", "float", "tuple", "set", "frozenset", "bytes", "complex"):
        cls = type(nm, (), {})
        out.append((nm, cls()))
    for base in (int, str, list, dict, tuple, float, bytes, set, frozenset, complex):
        sub = type("Sub" + base.__name__, (base,), {})
        out.append(("subclass-of-" + base.__name__, sub()))
    import collections

    out.append(("OrderedDict", collections.OrderedDict(a=1)))
    out.append(("bytearray", bytearray(b"x")))
    out.append(("object", object()))
    out.append(("range", range(3)))
    out.append(("type", int))
    return out


def channel_phase(ctx, res, values):
    """Channel.send -> peer echo -> receive, over a real popen gateway; a rejected value must leave
    the connection untouched and the channel usable."""
    execnet = ctx.execnet
    group = execnet.Group()
    try:
        gw = group.makegateway("popen")
        ch = gw.remote_exec("while 1:\n    channel.send(channel.receive())\n")
        written = [0]
        real_write = gw._io.write

        def counting_write(data):
            written[0] += len(data)
            return real_write(data)

        gw._io.write = counting_write
        for v in values:
            line = pyval.render(v)
            bad = _contains_bad(v)
            before = written[0]
            res.count("chan " + line, nontrivial=pyval.is_nontrivial(v))
            try:
                ch.send(v)
            except execnet.DumpError:
                if not bad:
                    res.violations.append(dict(case={"tokens": line, "origin": "channel"}, what="Channel.send rejected a supported value"))
                elif written[0] != before:
                    res.violations.append(dict(case={"tokens": line, "origin": "channel"}, what="bytes reached the connection before DumpError"))
                else:
                    try:
                        ch.send(1)
                        ok = ch.receive(10) == 1
                    except BaseException as e:  # noqa: BLE001
                        ok = False
                        res.violations.append(dict(case={"tokens": line, "origin": "channel"}, what="channel unusable after a rejected send (DumpError): the next send/receive failed with %r" % (e,)))
                        return
                    if not ok:
                        res.violations.append(dict(case={"tokens": line, "origin": "channel"}, what="channel unusable after DumpError: echo of the next item is wrong"))
                    res.stat("chan_rejected")
                continue
            except BaseException as e:  # noqa: BLE001
                res.violations.append(dict(case={"tokens": line, "origin": "channel"}, what="Channel.send raised %r" % (e,), finding=classify(v, e)))
                continue
            if bad:
                res.violations.append(dict(case={"tokens": line, "origin": "channel"}, what="Channel.send accepted an unsupported value"))
                try:
                    ch.receive(10)
                except BaseException as e:  # noqa: BLE001
                    res.violations[-1]["what"] += "; the peer could not take it: receive of the echo failed with %r" % (e,)
                    return
                continue
            try:
                w = ch.receive(10)
            except BaseException as e:  # noqa: BLE001
                res.violations.append(dict(case={"tokens": line, "origin": "channel"}, what="receive of the echoed value failed with %r (connection corrupted?)" % (e,)))
                return
            if pyval.canon(w) != pyval.canon(v):
                res.violations.append(dict(case={"tokens": line, "origin": "channel"}, what="value changed in transit", impl=repr(w)[:300]))
            res.stat("chan_ok")
    finally:
        group.terminate(timeout=2.0)


def run(ctx, nvalues=None):
    res = common.Result()
    res.rule = ("type-directed recursive generator over the supported grammar (boundary-biased ints/floats/strings), a malformed "
                "stream with one unsupported leaf or lone surrogate, name-colliding/subclass objects, a frozen corpus; each value "
                "through dumps/loads, dump/load(BytesIO) and (subset) Channel.send->echo->receive; distinct = distinct rendered "
                "value; non-trivial = non-empty container or boundary leaf")
    execnet = ctx.execnet
    items = []
    # 1. corpus
    for line in CORPUS:
        v = pyval.build_line(line)
        items.append((pyval.render(v), check_value(ctx, res, v, "corpus")))
    # 2. name-colliding classes / subclasses (model: foreign leaf)
    for nm, obj in named_class_cases(execnet):
        for wrap in (lambda x: x, lambda x: [1, x], lambda x: {"k": (x,)}):
            v = wrap(obj)
            res.count(("named", nm, repr(type(v))))
            try:
                execnet.dumps(v)
                res.violations.append(dict(case={"tokens": pyval.render(v), "origin": "named-class " + nm}, what="instance of class %s serialized instead of DumpError" % nm))
            except execnet.DumpError:
                res.stat("named_rejected")
            except BaseException as e:  # noqa: BLE001
                res.violations.append(dict(case={"tokens": pyval.render(v), "origin": "named-class " + nm}, what="instance of class %s raised %s instead of DumpError" % (nm, type(e).__name__)))
    # 2b. every kind of lone surrogate is "not UTF-8 encodable" (incl. the surrogateescape range U+DC80..U+DCFF)
    for cp in (0xD800, 0xDB7F, 0xDBFF, 0xDC00, 0xDC7F, 0xDC80, 0xDCA9, 0xDCC3, 0xDCE9, 0xDCFF, 0xDD00, 0xDFFF):
        for wrap in (lambda x: x, lambda x: ["ok", x], lambda x: {x: 1}, lambda x: {"k": (None, x + "tail")}):
            v = wrap("caf" + chr(cp))
            res.count(("surrogate", cp, repr(type(v))))
            items.append((pyval.render(v), check_value(ctx, res, v, "surrogate")))
    # 3. generated main stream + malformed stream
    n = nvalues or ctx.budget(2500, 120000, 7000)
    rng = ctx.rng("values")
    chan_values = []
    for i in range(n):
        malformed = i % 5 == 4
        g = pyval.Gen(rng, max_depth=5 if not ctx.thorough else 8, max_size=rng.choice([5, 20, 60, 150]),
                      allow_foreign=malformed, allow_badstr=malformed)
        v = g.value()
        for k, c in g.kinds.items():
            res.stat("gen_" + k, c)
        impl = check_value(ctx, res, v, "gen")
        line = pyval.render(v)
        items.append((line, impl))
        res.sample(line[:200])
        if i % 12 == 0 and len(chan_values) < ctx.budget(150, 3000, 500):
            chan_values.append(v)
    compare_model(ctx, res, items)
    # 4. through a real channel
    chan_values += [pyval.build_line(l) for l in CORPUS]
    channel_phase(ctx, res, chan_values)
    # 5. dedicated demonstrations of the two CPython limits (known findings)
    for v in (10**4300, [1, {"k": -(10**5000)}]):
        impl = check_value(ctx, res, v, "digit-limit")
    deep = []
    for _ in range(20000):
        deep = [deep]
    old = sys.getrecursionlimit()
    try:
        res.count("deep-20000")
        try:
            execnet.dumps(deep)
        except RecursionError as e:
            res.violations.append(dict(case={"tokens": "L 1 (x20000)", "origin": "deep"}, what="dumps raised RecursionError",
                                       finding="C01-nesting-depth-recursionlimit"))
        except execnet.DumpError:
            pass
    finally:
        sys.setrecursionlimit(old)
        # break the chain iteratively so that deallocation does not recurse
        while deep:
            deep = deep.pop()
    return res


def search(ctx, prev):
    return run(ctx)


def replay(ctx, payload):
    res = common.Result()
    line = payload["case"]["tokens"]
    v = pyval.build_line(line)
    impl = check_value(ctx, res, v, "replay")
    compare_model(ctx, res, [(line, impl)])
    return res
