/-
C13 (no prefix): a strict prefix of the encoding of a well-formed value runs out of input.

`SP p l` ("`p` is a strict prefix of `l`") is kept in witness form, `l = p ++ t` with `t ≠ []`,
which is what the case analyses need; `SP_iff` relates it to `p <+: l ∧ p ≠ l`.
-/
import ExecnetVerif.Proofs.SerRoundtrip
namespace ExecnetVerif

/-! ### strict prefixes -/

/-- `p` is a strict prefix of `l` -/
def SP (p l : Bytes) : Prop := ∃ t, t ≠ [] ∧ l = p ++ t

theorem SP_iff (p l : Bytes) : SP p l ↔ (p <+: l ∧ p ≠ l) := by
  constructor
  · rintro ⟨t, ht, rfl⟩
    refine ⟨List.prefix_append _ _, ?_⟩
    intro h
    have hl := congrArg List.length h
    simp only [List.length_append] at hl
    exact ht (List.eq_nil_of_length_eq_zero (by omega))
  · rintro ⟨⟨t, rfl⟩, hne⟩
    refine ⟨t, ?_, rfl⟩
    rintro rfl
    simp at hne

theorem SP_length {p l : Bytes} (h : SP p l) : p.length < l.length := by
  obtain ⟨t, ht, rfl⟩ := h
  have : t.length ≠ 0 := fun h0 => ht (List.eq_nil_of_length_eq_zero h0)
  simp only [List.length_append]; omega

theorem SP_nil {p : Bytes} : ¬ SP p [] := by
  intro h; have := SP_length h; simp at this

/-- a strict prefix of `a :: l` is empty or `a ::` a strict prefix of `l` -/
theorem SP_cons {p l : Bytes} {a : UInt8} (h : SP p (a :: l)) :
    p = [] ∨ ∃ q, p = a :: q ∧ SP q l := by
  obtain ⟨t, ht, e⟩ := h
  cases p with
  | nil => exact Or.inl rfl
  | cons b q =>
    right
    simp only [List.cons_append, List.cons.injEq] at e
    obtain ⟨rfl, rfl⟩ := e
    exact ⟨q, rfl, t, ht, rfl⟩

/-- a strict prefix of `a ++ b` is a strict prefix of `a`, or all of `a` and a strict prefix of `b` -/
theorem SP_append {p a b : Bytes} (h : SP p (a ++ b)) :
    SP p a ∨ ∃ q, p = a ++ q ∧ SP q b := by
  obtain ⟨t, ht, e⟩ := h
  rcases List.append_eq_append_iff.mp e with ⟨a', rfl, rfl⟩ | ⟨c', rfl, rfl⟩
  · exact Or.inr ⟨a', rfl, t, ht, rfl⟩
  · cases c' with
    | nil =>
      refine Or.inr ⟨[], by simp, b, ?_, by simp⟩
      simpa using ht
    | cons c cs => exact Or.inl ⟨c :: cs, by simp, rfl⟩

/-! ### the exact-length readers on short input -/

theorem rd4_some_len {bs : Bytes} {n r} (h : rd4 bs = some (n, r)) : bs.length = r.length + 4 := by
  unfold rd4 at h
  split at h
  · simp only [Option.some.injEq, Prod.mk.injEq] at h; obtain ⟨_, rfl⟩ := h; simp
  · simp at h

theorem rd4_short {q : Bytes} (h : q.length < 4) : rd4 q = none := by
  cases h4 : rd4 q with
  | none => rfl
  | some x =>
    obtain ⟨n, r⟩ := x
    have := rd4_some_len h4; omega

theorem rd8_short {q : Bytes} (h : q.length < 8) : rd8 q = none := by
  unfold rd8
  split
  · rename_i hi r1 h1
    have h2 : r1.length < 4 := by have := rd4_some_len h1; omega
    rw [rd4_short h2]
  · rfl

theorem readN_short {n : Nat} {q : Bytes} (h : q.length < n) : readN n q = none := by
  unfold readN
  rw [if_neg (by omega)]

theorem rdI32_short {q : Bytes} (h : q.length < 4) (k : Int → Bytes → Res) :
    rdI32 q k = .err .eof := by
  unfold rdI32
  rw [rd4_short h]

/-- `_read_byte_string` on a strict prefix of (length, payload): cut inside the length field or
inside the payload, the read comes up short -/
theorem rdBytes_short (b q : Bytes) (hb : b.length < two31) (h : SP q (be4 b.length ++ b))
    (k : Bytes → Bytes → Res) : rdBytes q k = .err .eof := by
  unfold rdBytes
  rcases SP_append h with h1 | ⟨q', rfl, h2⟩
  · exact rdI32_short (by have := SP_length h1; rwa [be4_length] at this) _
  · rw [rdI32_be4 _ hb]
    have hn : ¬ ((b.length : Int) < 0) := by omega
    simp only [hn, if_false, Int.toNat_natCast]
    rw [readN_short (SP_length h2)]

/-! ### leaves -/

section
variable (cfg : Cfg)

theorem run_op_prefix (op : UInt8) (p : Bytes) (hp : SP p [op]) (st : List PyVal) :
    run cfg p st = .error .eof := by
  rcases SP_cons hp with rfl | ⟨q, rfl, hq⟩
  · exact run_nil cfg st
  · exact absurd hq SP_nil

theorem run_encInt_prefix (i : Int) (h : inI32 i ∨ numDigits i ≤ maxStrDigits) (p : Bytes)
    (hp : SP p (encInt i)) (st : List PyVal) : run cfg p st = .error .eof := by
  unfold encInt at hp
  split at hp
  · rcases SP_cons hp with rfl | ⟨q, rfl, hq⟩
    · exact run_nil cfg st
    · refine run_err ?_
      rw [step_INT]
      exact rdI32_short (by have := SP_length hq; rwa [packI32, be4_length] at this) _
  · rename_i hi
    have hd : numDigits i ≤ maxStrDigits := by
      cases h with
      | inl h => exact absurd h hi
      | inr h => exact h
    have hlen : (intText i).length < two31 := by
      have := intText_length_le i
      rw [two31_eq]; unfold maxStrDigits at hd; omega
    rcases SP_cons hp with rfl | ⟨q, rfl, hq⟩
    · exact run_nil cfg st
    · refine run_err ?_
      rw [step_LONGINT]
      exact rdBytes_short _ _ hlen hq _

theorem run_float_prefix (b : Nat) (p : Bytes) (hp : SP p (opFLOAT :: be8 b)) (st : List PyVal) :
    run cfg p st = .error .eof := by
  rcases SP_cons hp with rfl | ⟨q, rfl, hq⟩
  · exact run_nil cfg st
  · refine run_err ?_
    rw [step_FLOAT]
    have : q.length < 8 := SP_length hq
    rw [rd8_short this]

theorem be8_length (n : Nat) : (be8 n).length = 8 := rfl

theorem run_complex_prefix (r i : Nat) (hr : r < two64) (p : Bytes)
    (hp : SP p (opCOMPLEX :: (be8 r ++ be8 i))) (st : List PyVal) :
    run cfg p st = .error .eof := by
  rcases SP_cons hp with rfl | ⟨q, rfl, hq⟩
  · exact run_nil cfg st
  · refine run_err ?_
    rw [step_COMPLEX]
    rcases SP_append hq with h1 | ⟨q', rfl, h2⟩
    · have : q.length < 8 := SP_length h1
      rw [rd8_short this]
    · rw [rd8_be8 _ _ (by rw [two64_eq] at hr; exact hr)]
      simp only
      have : q'.length < 8 := SP_length h2
      rw [rd8_short this]

theorem run_bytes_prefix (b : Bytes) (h : b.length < two31) (p : Bytes)
    (hp : SP p (opBYTES :: (be4 b.length ++ b))) (st : List PyVal) :
    run cfg p st = .error .eof := by
  rcases SP_cons hp with rfl | ⟨q, rfl, hq⟩
  · exact run_nil cfg st
  · refine run_err ?_
    rw [step_BYTES]
    exact rdBytes_short _ _ h hq _

theorem run_str_prefix (b : Bytes) (h : b.length < two31) (p : Bytes)
    (hp : SP p (opPY3STRING :: (be4 b.length ++ b))) (st : List PyVal) :
    run cfg p st = .error .eof := by
  rcases SP_cons hp with rfl | ⟨q, rfl, hq⟩
  · exact run_nil cfg st
  · refine run_err ?_
    rw [step_PY3STRING]
    exact rdBytes_short _ _ h hq _

/-- the tail of a tuple / set / frozenset encoding: opcode and 4-byte count -/
theorem run_count_prefix (op : UInt8) (k : List PyVal → Int → Bytes → Res)
    (hstep : ∀ rest st, step cfg op rest st = rdI32 rest (k st)) (n : Nat) (p : Bytes)
    (hp : SP p (op :: be4 n)) (st : List PyVal) : run cfg p st = .error .eof := by
  rcases SP_cons hp with rfl | ⟨q, rfl, hq⟩
  · exact run_nil cfg st
  · refine run_err ?_
    rw [hstep]
    exact rdI32_short (by have := SP_length hq; rwa [be4_length] at this) _

/-! ### containers -/

/-- the induction hypothesis for one value: a strict prefix of its encoding runs out of input,
whatever the stack -/
def PT (v : PyVal) : Prop :=
  WF v → ∀ (p : Bytes), SP p (enc v) → ∀ (st : List PyVal), run cfg p st = .error .eof

variable (hcfg : cfg.py3str_as_py2str = false) (hmem : cfg.memLimit = none)
include hcfg hmem

theorem run_encAll_prefix : ∀ (xs : List PyVal), (∀ x ∈ xs, PT cfg x) → WFAll xs →
    ∀ (p : Bytes), SP p (encAll xs) → ∀ (st : List PyVal), run cfg p st = .error .eof := by
  intro xs
  induction xs with
  | nil => intro _ _ p hp; simp only [encAll] at hp; exact absurd hp SP_nil
  | cons x t ih =>
    intro hP hW p hp st
    simp only [WFAll] at hW
    simp only [encAll] at hp
    rcases SP_append hp with h1 | ⟨q, rfl, h2⟩
    · exact hP x (by simp) hW.1 p h1 st
    · rw [run_enc cfg hcfg hmem x hW.1]
      exact ih (fun y hy => hP y (by simp [hy])) hW.2 q h2 _

theorem run_encItems_prefix : ∀ (xs pre : List PyVal), (∀ x ∈ xs, PT cfg x) → WFAll xs →
    pre.length + xs.length < two31 →
    ∀ (p : Bytes), SP p (encItems pre.length xs) → ∀ (st : List PyVal),
      run cfg p (.list (pre ++ List.replicate xs.length .none) :: st) = .error .eof := by
  intro xs
  induction xs with
  | nil => intro pre _ _ _ p hp; simp only [encItems] at hp; exact absurd hp SP_nil
  | cons x t ih =>
    intro pre hP hW hlen p hp st
    simp only [WFAll] at hW
    simp only [List.length_cons] at hlen
    simp only [encItems] at hp
    have hi : inI32 (pre.length : Int) := by
      unfold inI32; rw [two31_eq] at hlen; omega
    rcases SP_append hp with h1 | ⟨q, rfl, h2⟩
    · exact run_encInt_prefix cfg _ (Or.inl hi) p h1 _
    · rw [run_encInt cfg _ _ _ (Or.inl hi)]
      rcases SP_append h2 with h3 | ⟨q2, rfl, h4⟩
      · exact hP x (by simp) hW.1 q h3 _
      · rw [run_enc cfg hcfg hmem x hW.1]
        rcases SP_cons h4 with rfl | ⟨q3, rfl, h5⟩
        · exact run_nil cfg _
        · simp only [List.length_cons, List.replicate_succ]
          rw [run_cont (show step cfg opSETITEM _ _ = _ from by
            rw [step_SETITEM]
            exact setItem_list _ pre _ x st (by omega))]
          have := ih (pre ++ [x]) (fun y hy => hP y (by simp [hy])) hW.2
            (by simp only [List.length_append, List.length_singleton]; omega) q3
            (by simpa only [List.length_append, List.length_singleton] using h5) st
          simp only [List.append_assoc, List.singleton_append] at this
          exact this

theorem run_encPairs_prefix : ∀ (kvs pre : List (PyVal × PyVal)),
    (∀ kv ∈ kvs, PT cfg kv.1 ∧ PT cfg kv.2) → WFPairs kvs →
    fresh (pre.map Prod.fst) (kvs.map Prod.fst) →
    ∀ (p : Bytes), SP p (encPairs kvs) → ∀ (st : List PyVal),
      run cfg p (.dict pre :: st) = .error .eof := by
  intro kvs
  induction kvs with
  | nil => intro pre _ _ _ p hp; simp only [encPairs] at hp; exact absurd hp SP_nil
  | cons kv t ih =>
    intro pre hP hW hF p hp st
    obtain ⟨k, v⟩ := kv
    simp only [WFPairs] at hW
    simp only [List.map_cons, fresh] at hF
    simp only [encPairs] at hp
    rcases SP_append hp with h1 | ⟨q, rfl, h2⟩
    · exact (hP (k, v) (by simp)).1 hW.1 p h1 _
    · rw [run_enc cfg hcfg hmem k hW.1]
      rcases SP_append h2 with h3 | ⟨q2, rfl, h4⟩
      · exact (hP (k, v) (by simp)).2 hW.2.1 q h3 _
      · rw [run_enc cfg hcfg hmem v hW.2.1]
        rcases SP_cons h4 with rfl | ⟨q3, rfl, h5⟩
        · exact run_nil cfg _
        · rw [run_cont (show step cfg opSETITEM _ _ = _ from by
            rw [step_SETITEM]
            exact setItem_dict _ pre k v st hF.1 hF.2.1)]
          exact ih (pre ++ [(k, v)]) (fun y hy => hP y (by simp [hy])) hW.2.2
            (by simpa using hF.2.2) q3 h5 st

/-- tuple / set / frozenset: items, then opcode and count -/
theorem run_coll_prefix (op : UInt8) (k : List PyVal → Int → Bytes → Res)
    (hstep : ∀ rest st, step cfg op rest st = rdI32 rest (k st))
    (xs : List PyVal) (ih : ∀ x ∈ xs, PT cfg x) (hW : WFAll xs) (p : Bytes)
    (hp : SP p (encAll xs ++ op :: be4 xs.length)) (st : List PyVal) :
    run cfg p st = .error .eof := by
  rcases SP_append hp with h1 | ⟨q, rfl, h2⟩
  · exact run_encAll_prefix cfg hcfg hmem xs ih hW p h1 st
  · rw [run_encAll cfg xs (fun x _ => run_enc cfg hcfg hmem x) hW]
    exact run_count_prefix cfg op k hstep _ q h2 _

/-- the generalised no-prefix lemma: a strict prefix of the encoding of ONE well-formed value runs
out of input, whatever the stack -/
theorem run_enc_prefix (v : PyVal) : PT cfg v := by
  refine PyVal.rec (motive_1 := PT cfg)
    (motive_2 := fun xs => ∀ x ∈ xs, PT cfg x)
    (motive_3 := fun kvs => ∀ kv ∈ kvs, PT cfg kv.1 ∧ PT cfg kv.2)
    (motive_4 := fun kv => PT cfg kv.1 ∧ PT cfg kv.2)
    ?none ?bool ?int ?float ?complex ?bytes ?str ?badstr ?list ?tuple ?dict ?set ?frozenset
    ?channel ?foreign ?nil1 ?cons1 ?nil2 ?cons2 ?mk v
  case none => intro _ p hp st; simp only [enc] at hp; exact run_op_prefix cfg _ p hp st
  case bool =>
    intro b _ p hp st
    cases b
    · simp only [enc, Bool.false_eq_true, if_false] at hp; exact run_op_prefix cfg _ p hp st
    · simp only [enc, if_true] at hp; exact run_op_prefix cfg _ p hp st
  case int => intro i h p hp st; simp only [enc, WF] at *; exact run_encInt_prefix cfg i h p hp st
  case float => intro b _ p hp st; simp only [enc] at hp; exact run_float_prefix cfg b p hp st
  case complex =>
    intro r i h p hp st; simp only [enc, WF] at *
    exact run_complex_prefix cfg r i h.1 p hp st
  case bytes => intro b h p hp st; simp only [enc, WF] at *; exact run_bytes_prefix cfg b h p hp st
  case str => intro s h p hp st; simp only [enc, WF] at *; exact run_str_prefix cfg _ h p hp st
  case badstr => intro h; simp [WF] at h
  case foreign => intro h; simp [WF] at h
  case channel => intro id h; simp [WF] at h
  case list =>
    intro xs ih h p hp st
    simp only [WF] at h
    simp only [enc] at hp
    rcases SP_cons hp with rfl | ⟨q, rfl, hq⟩
    · exact run_nil cfg st
    · rcases SP_append hq with h1 | ⟨q', rfl, h2⟩
      · refine run_err ?_
        rw [step_NEWLIST]
        exact rdI32_short (by have := SP_length h1; rwa [be4_length] at this) _
      · rw [run_newlist cfg _ st hmem xs.length h.1]
        have := run_encItems_prefix cfg hcfg hmem xs [] ih h.2 (by simpa using h.1) q'
          (by simpa using h2) st
        simpa using this
  case tuple =>
    intro xs ih h p hp st
    simp only [WF] at h
    simp only [enc] at hp
    exact run_coll_prefix cfg hcfg hmem opBUILDTUPLE (fun st n r => buildColl .tuple n r st)
      (fun _ _ => rfl) xs ih h.2 p hp st
  case dict =>
    intro kvs ih h p hp st
    simp only [WF] at h
    simp only [enc] at hp
    rcases SP_cons hp with rfl | ⟨q, rfl, hq⟩
    · exact run_nil cfg st
    · rw [run_newdict]
      exact run_encPairs_prefix cfg hcfg hmem kvs [] ih h.1 (by simpa using h.2) q hq st
  case set =>
    intro xs ih h p hp st
    simp only [WF] at h
    simp only [enc] at hp
    exact run_coll_prefix cfg hcfg hmem opSET (fun st n r => buildColl .set n r st)
      (fun _ _ => rfl) xs ih h.2.1 p hp st
  case frozenset =>
    intro xs ih h p hp st
    simp only [WF] at h
    simp only [enc] at hp
    exact run_coll_prefix cfg hcfg hmem opFROZENSET (fun st n r => buildColl .frozenset n r st)
      (fun _ _ => rfl) xs ih h.2.1 p hp st
  case nil1 => intro x hx; simp at hx
  case cons1 =>
    intro head tail ih1 ih2 x hx
    simp only [List.mem_cons] at hx
    cases hx with
    | inl h => subst h; exact ih1
    | inr h => exact ih2 x h
  case nil2 => intro x hx; simp at hx
  case cons2 =>
    intro head tail ih1 ih2 x hx
    simp only [List.mem_cons] at hx
    cases hx with
    | inl h => subst h; exact ih1
    | inr h => exact ih2 x h
  case mk => intro fst snd ih1 ih2; exact ⟨ih1, ih2⟩

/-- a strict prefix of a complete internal dump `enc v ++ [STOP]` runs out of input -/
theorem run_dump_prefix (v : PyVal) (h : WF v) (p : Bytes) (hp : SP p (enc v ++ [opSTOP]))
    (st : List PyVal) : run cfg p st = .error .eof := by
  rcases SP_append hp with h1 | ⟨q, rfl, h2⟩
  · exact run_enc_prefix cfg hcfg hmem v h p h1 st
  · rw [run_enc cfg hcfg hmem v h]
    exact run_op_prefix cfg _ q h2 _

end

end ExecnetVerif
