"""C10 — channel protocol property (DESIGN.md §4 C10); shared machinery in netprops.py."""
from __future__ import annotations

from . import common, netfine, netprops

PROP = "C10"


def run(ctx):
    res = common.Result()
    res.rule = ("(a) op programs vs the Lean Net model (callback logs are part of the compared digest); (b) transcript oracle: callback log = items then at most "
                "one endmarker, last; receive/second setcallback refused; callback unregistered <=> requested endmarker delivered; (c) scenarios: setcallback after "
                "0-5 received items at a random moment relative to in-flight items, endings by exec end / close / connection loss, channel kept or dropped: "
                "received-before ++ callback items == sent, endmarker exactly once and last, no callback left registered")
    netprops.op_level(ctx, res, PROP, ctx.budget(400, 24000, 600))
    # two-step receive (get … put the ENDMARKER back) against Model/NetFine.lean, guarded and unguarded histories
    netfine.fine_level(ctx, res, PROP, ctx.budget(80, 15000, 300))
    netprops.run_scenarios(ctx, res, netprops.scenario_streams, ctx.budget(150, 36000, 500), "streams-cb", with_callbacks=True)
    netprops.run_scenarios(ctx, res, netprops.scenario_cut, ctx.budget(60, 12000, 200), "cut")
    netprops.process_level_multichannel(ctx, res, ngw=2 if not ctx.thorough else 3)
    netprops.process_level_backlog(ctx, res, sizes=(1000, 1001, 5000))
    return res


def search(ctx, prev):
    return run(ctx)


def replay(ctx, payload):
    c = payload["case"]
    if "ops" in c:
        return netprops.replay_ops(ctx, PROP, c["ops"].split(" ; "))
    return run(ctx)
