/-
Plumbing for the callback invariants (`Proofs/Net/Cb.lean`): `State.side`/`State.set`, `upd`, and the
"view" of one (side, id) — the fields `CbInv` talks about — together with the effect of every helper
of the model (`createAt`, `registerAll`, `localClose`, `doClose`, `chanClose`, `epilogue`, `handle`)
on that view.
-/
import ExecnetVerif.Proofs.Net.Defs
namespace ExecnetVerif.Net

/-! ### sides -/

@[simp] theorem Side.peer_ne_cb (s : Side) : s.peer ≠ s := by cases s <;> simp [Side.peer]
@[simp] theorem Side.ne_peer_cb (s : Side) : s ≠ s.peer := by cases s <;> simp [Side.peer]
@[simp] theorem Side.peer_peer_cb (s : Side) : s.peer.peer = s := by cases s <;> rfl

@[simp] theorem State.side_set_self (st : State) (s : Side) (x : SideSt) : (st.set s x).side s = x := by
  cases s <;> rfl

@[simp] theorem State.side_set_peer_cb (st : State) (s : Side) (x : SideSt) :
    (st.set s x).side s.peer = st.side s.peer := by
  cases s <;> rfl

@[simp] theorem State.side_peer_set_cb (st : State) (s : Side) (x : SideSt) :
    (st.set s.peer x).side s = st.side s := by
  cases s <;> rfl

theorem State.side_set_cb (st : State) (s p : Side) (x : SideSt) :
    (st.set s x).side p = if p = s then x else st.side p := by
  cases s <;> cases p <;> rfl

theorem Side.eq_or_peer (s p : Side) : p = s ∨ p = s.peer := by
  cases s <;> cases p <;> simp [Side.peer]

@[simp] theorem State.side_A_cb (st : State) : st.side .A = st.a := rfl
@[simp] theorem State.side_B_cb (st : State) : st.side .B = st.b := rfl

/-! ### `upd` -/

@[simp] theorem upd_same_cb {α : Type} (f : Nat → α) (k : Nat) (v : α) : upd f k v k = v := by simp [upd]

theorem upd_other {α : Type} (f : Nat → α) {k i : Nat} (v : α) (h : i ≠ k) : upd f k v i = f i := by
  simp [upd, h]

theorem upd_apply_cb {α : Type} (f : Nat → α) (k i : Nat) (v : α) :
    upd f k v i = if i = k then v else f i := rfl

/-! ### the view of one (side, id) -/

/-- the fields of one side the callback invariants mention for one channel id -/
structure View where
  queue : Option (List QItem)
  registered : Bool
  created : Bool
  rclosed : Bool
  cbs : Option Bool
  cbLog : List CbEvent
  got : List Item
  broken : Bool
  cbWants : Option Bool
  ended : Bool

def view (x : SideSt) (id : Nat) : View :=
  { queue := (x.chans id).queue, registered := (x.chans id).registered, created := (x.chans id).created,
    rclosed := (x.chans id).rclosed,
    cbs := x.cbs id, cbLog := x.cbLog id, got := x.got id, broken := x.broken id,
    cbWants := x.cbWants id, ended := x.ended id }

/-- `createAt` on the view -/
def View.create (v : View) : View :=
  if v.registered then v
  else { v with queue := some [], registered := true, created := true,
                rclosed := false, broken := v.broken || (v.created || v.ended) }

/-- the callback log after the callback (if any) has been popped and its endmarker fired -/
def View.endLog (v : View) : List CbEvent :=
  match v.cbs with
  | some true => v.cbLog ++ [.endmarker]
  | _ => v.cbLog

/-- `localClose` / `doClose` / `epilogue` on the view: `b` = the record is marked closed,
`e` = `ended` is set -/
def View.close (b e : Bool) (v : View) : View :=
  { v with queue := if b then pushEnd v.queue else v.queue,
           registered := false,
           rclosed := v.rclosed || b,
           cbs := none,
           cbLog := v.endLog,
           ended := v.ended || e }

/-- a DATA item handed to the callback -/
def View.cbItem (v : View) (i : Item) : View :=
  { v with cbLog := v.cbLog ++ [.item i], got := v.got ++ [i] }

theorem View.create_create (v : View) : v.create.create = v.create := by
  unfold View.create; split <;> simp_all

theorem view_createAt (x : SideSt) (j id : Nat) :
    view (createAt x j) id = if id = j then (view x id).create else view x id := by
  by_cases h : id = j
  · subst h
    simp only [view, createAt, createChan, View.create, upd_same_cb, if_true]
    by_cases hr : (x.chans id).registered = true <;> simp [hr]
  · simp [view, createAt, upd_other _ _ h, h]

theorem view_registerAll (x : SideSt) (ids : List Nat) (id : Nat) :
    view (registerAll x ids) id = if id ∈ ids then (view x id).create else view x id := by
  induction ids generalizing x with
  | nil => simp [registerAll]
  | cons j t ih =>
    have : registerAll x (j :: t) = registerAll (createAt x j) t := rfl
    rw [this, ih, view_createAt]
    by_cases h1 : id = j <;> by_cases h2 : id ∈ t <;> simp [h1, h2, View.create_create]

/-- the fields `registerAll` does not touch -/
theorem registerAll_frame (x : SideSt) (ids : List Nat) :
    (registerAll x ids).cbs = x.cbs ∧ (registerAll x ids).cbLog = x.cbLog ∧
    (registerAll x ids).got = x.got ∧ (registerAll x ids).cbWants = x.cbWants ∧
    (registerAll x ids).ended = x.ended ∧ (registerAll x ids).ioOpen = x.ioOpen ∧
    (registerAll x ids).finished = x.finished := by
  induction ids generalizing x with
  | nil => simp [registerAll]
  | cons j t ih =>
    have : registerAll x (j :: t) = registerAll (createAt x j) t := rfl
    rw [this]
    have := ih (createAt x j)
    simpa [createAt] using this

theorem view_noLongerOpened (x : SideSt) (j id : Nat) :
    view (noLongerOpened x j) id =
      if id = j then { view x id with registered := false, cbs := none, cbLog := (view x id).endLog }
      else view x id := by
  by_cases h : id = j
  · subst h
    simp only [view, noLongerOpened, View.endLog, upd_same_cb, if_true]
    rfl
  · simp [view, noLongerOpened, upd_other _ _ h, h]

theorem view_localClose (x : SideSt) (j : Nat) (err : Option Nat) (so : Bool) (id : Nat) :
    view (localClose x j err so) id =
      if id = j then (view x id).close (x.chans j).registered true else view x id := by
  unfold localClose
  by_cases hr : (x.chans j).registered = true
  · simp only [hr, if_true]
    rw [view_noLongerOpened]
    by_cases h : id = j
    · subst h
      simp [view, View.close, View.endLog, hr]
    · simp [h, view, upd_other _ _ h]
  · simp only [hr, Bool.false_eq_true, ↓reduceIte]
    rw [view_noLongerOpened]
    by_cases h : id = j
    · subst h
      simp [view, View.close, View.endLog, hr]
    · simp [h, view, upd_other _ _ h]

theorem view_doClose (x : SideSt) (j : Nat) (f : Frame) (id : Nat) :
    view (doClose x j f).2 id = view x id ∨
    view (doClose x j f).2 id = if id = j then (view x id).close true true else view x id := by
  unfold doClose
  by_cases hg : (!x.ioOpen && !(x.chans j).rclosed) = true
  · left; simp [hg]
  · right
    simp only [hg, Bool.false_eq_true, ↓reduceIte]
    rw [view_noLongerOpened]
    by_cases h : id = j
    · subst h
      by_cases hio : x.ioOpen = true <;>
        simp [hio, view, View.close, View.endLog]
    · by_cases hio : x.ioOpen = true <;>
        simp [hio, h, view, upd_other _ _ h]

theorem view_chanClose (x : SideSt) (j : Nat) (err : Option Nat) (id : Nat) :
    view (chanClose x j err).2 id = view x id ∨
    view (chanClose x j err).2 id = if id = j then (view x id).close true true else view x id := by
  unfold chanClose
  by_cases h1 : (x.chans j).executing = true
  · left; simp [h1]
  · by_cases h2 : (x.chans j).closed = true
    · left; simp [h1, h2]
    · simp only [h1, h2, Bool.false_eq_true, ↓reduceIte]
      exact view_doClose x j _ id

theorem view_epilogue (x : SideSt) (isCut : Bool) (id : Nat) :
    view (epilogue x isCut) id =
      (view x id).close (x.chans id).registered ((x.chans id).registered || (x.cbs id).isSome) := by
  by_cases hr : (x.chans id).registered = true
  · simp [epilogue, view, View.close, View.endLog, hr]; rfl
  · simp [epilogue, view, View.close, View.endLog, hr]; rfl

end ExecnetVerif.Net
