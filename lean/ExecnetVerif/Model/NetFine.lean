/-
A finer-grained view of `Channel.receive` on top of the L3 `Net` model.

`receive()` is not atomic in the code: it (1) takes the head of the queue (`itemqueue.get`), and if that
is the ENDMARKER it (2) puts it back "for other receivers" and only then reports EOF / a pending
RemoteError.  Between (1) and (2) the queue lacks the ENDMARKER while other threads — other receivers
on the same channel, the receiver thread of the gateway, other user threads — keep running.

`FState` = the coarse state plus the multiset of ENDMARKERs currently "in the hand" of a receiver.
Every other operation stays atomic (`FOp.coarse`); `recvGet`/`recvFin` are the two halves of receive.
`abs` puts the in-hand ENDMARKERs back: Props/NetFine.lean (proofs in Proofs/Net/Fine*.lean) shows that under the
hypothesis `respectsHands` — no `setcallback`/`drop` on a channel, and no delivery re-creating its id, while a
receiver of that channel holds its ENDMARKER — every fine history is observationally a coarse history (so all
`Net` theorems carry over to this granularity), and that the hypothesis is necessary (the D22 schedule loses the
endmarker; a re-created id gets an ENDMARKER that no coarse history can produce).
-/
import ExecnetVerif.Model.Net
namespace ExecnetVerif.Net

structure FState where
  st : State
  /-- receivers that took an ENDMARKER off the queue of (side, id) and have not put it back yet -/
  hand : List (Side × Nat) := []

inductive FOp where
  | coarse (op : Op)
  /-- first half of `receive`: `x = itemqueue.get()` -/
  | recvGet (s : Side) (id : Nat)
  /-- second half, only after `recvGet` returned the ENDMARKER: put it back, report the end -/
  | recvFin (s : Side) (id : Nat)

def finit : FState := { st := init }

/-- remove one occurrence -/
def eraseOne (k : Side × Nat) : List (Side × Nat) → List (Side × Nat)
  | [] => []
  | x :: xs => if x = k then xs else x :: eraseOne k xs

def fstep (fails : Item → Bool) (f : FState) : FOp → Out × FState
  | .coarse op => let (o, st') := step fails f.st op; (o, { f with st := st' })
  | .recvGet s id =>
    let x := f.st.side s
    let c := x.chans id
    if !c.alive then (.notEnabled, f)
    else match c.queue with
      | none => (.osError, f)
      | some [] => (.wouldBlock, f)
      | some (.item v :: q) =>
        let x' : SideSt := { x with chans := upd x.chans id { c with queue := some q }, got := upd x.got id (x.got id ++ [v]) }
        (.item v, { f with st := f.st.set s x' })
      | some (.endmarker :: q) =>
        -- the ENDMARKER is in this receiver's hand now; nothing is reported yet
        let x' : SideSt := { x with chans := upd x.chans id { c with queue := some q } }
        (.ok, { st := f.st.set s x', hand := (s, id) :: f.hand })
  | .recvFin s id =>
    if !(f.hand.contains (s, id)) then (.notEnabled, f)
    else
      let x := f.st.side s
      let c := x.chans id
      -- `itemqueue.put(x)`: onto the queue object the receiver got hold of; if `setcallback` detached
      -- that queue meanwhile (`queue = none`) the put is lost for everybody else
      let c1 := { c with queue := c.queue.map (· ++ [.endmarker]) }
      let hand' := eraseOne (s, id) f.hand
      match c.rerrs with
      | e :: es =>
        let x' : SideSt := { x with chans := upd x.chans id { c1 with rerrs := es } }
        (.remoteError e, { st := f.st.set s x', hand := hand' })
      | [] =>
        let x' : SideSt := { x with chans := upd x.chans id c1 }
        (.eofError, { st := f.st.set s x', hand := hand' })

def frun (fails : Item → Bool) (f : FState) : List FOp → List Out × FState
  | [] => ([], f)
  | op :: ops =>
    let (o, f1) := fstep fails f op
    let (os, f2) := frun fails f1 ops
    (o :: os, f2)

/-- put every in-hand ENDMARKER back where it came from -/
def putBack (st : State) (k : Side × Nat) : State :=
  let x := st.side k.1
  let c := x.chans k.2
  let x' : SideSt := { x with chans := upd x.chans k.2 { c with queue := c.queue.map (· ++ [.endmarker]) } }
  st.set k.1 x'

def FState.abs (f : FState) : State := f.hand.foldl putBack f.st

/-- the coarse operation a fine operation stands for (`none` = a silent step: taking the ENDMARKER in hand, or
a receiver that finds the queue empty because another receiver holds the ENDMARKER — it keeps blocking) -/
def FOp.coarseOf (f : FState) : FOp → Option Op
  | .coarse (.receive s id) =>
    -- an atomic receive issued while another receiver holds the ENDMARKER finds the queue empty and keeps blocking
    let c := (f.st.side s).chans id
    match c.queue with
    | some [] => if c.alive && f.hand.contains (s, id) then none else some (.receive s id)
    | _ => some (.receive s id)
  | .coarse op => some op
  | .recvGet s id =>
    let c := (f.st.side s).chans id
    match c.queue with
    | some (.endmarker :: _) => if c.alive then none else some (.receive s id)
    | some [] => if c.alive && f.hand.contains (s, id) then none else some (.receive s id)
    | _ => some (.receive s id)
  | .recvFin s id => if f.hand.contains (s, id) then some (.receive s id) else none

/-- the hypothesis under which the two-step receive is harmless: while a receiver of a channel holds its
ENDMARKER, no `setcallback` on that channel (D22: the put-back goes to the detached queue, the endmarker is lost
for every other receiver) and the channel object is not dropped (the receiver itself references it).

The model identifies channel objects by their id, so a delivery that re-creates an id (`createAt`: a DATA item that
carries the channel id, or a CHANNEL_EXEC for it) while a receiver of the OLD object still holds its ENDMARKER is
outside the scope of the refinement as well: in the code the put-back goes to the old object, which the model no
longer tracks (the coarse model marks such re-opened ids `broken` anyway).  `fine_deliver_guard_needed` shows that
this clause cannot be left out. -/
def FOp.respectsHands (f : FState) : FOp → Bool
  | .coarse (.setcallback s id _) => !(f.hand.contains (s, id))
  | .coarse (.drop s id) => !(f.hand.contains (s, id))
  | .coarse (.deliver p) =>
    match (f.st.side p.peer).out with
    | .data _ v :: _ => v.chans.all fun k => !(f.hand.contains (p, k))
    | .exec id :: _ => !(f.hand.contains (p, id))
    | _ => true
  | _ => true

/-- every operation of the run respects the hands at the moment it is issued -/
def guardedRun (fails : Item → Bool) : FState → List FOp → Bool
  | _, [] => true
  | f, op :: ops => op.respectsHands f && guardedRun fails (fstep fails f op).2 ops

/-- the coarse history a fine history stands for -/
def project (fails : Item → Bool) : FState → List FOp → List Op
  | _, [] => []
  | f, op :: ops =>
    match op.coarseOf f with
    | none => project fails (fstep fails f op).2 ops
    | some cop => cop :: project fails (fstep fails f op).2 ops

/-- the outputs of the non-silent steps -/
def visibleOuts (fails : Item → Bool) : FState → List FOp → List Out
  | _, [] => []
  | f, op :: ops =>
    match op.coarseOf f with
    | none => visibleOuts fails (fstep fails f op).2 ops
    | some _ => (fstep fails f op).1 :: visibleOuts fails (fstep fails f op).2 ops

end ExecnetVerif.Net
