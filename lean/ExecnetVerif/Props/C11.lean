/-
C11 — Workers never outlive their initiator.
Property theorems only; the model is `Model/WorkerExit.lean`.
-/
import ExecnetVerif.Model.WorkerExit
import ExecnetVerif.Generated.Tables
namespace ExecnetVerif
open WorkerExit

/-! ### the regenerated constants the theorems are stated over -/

/-- the ladder of the code under study: the two `waitall` time-outs as extracted from
`WorkerGateway._terminate_execution` (a missing / non-numeric time-out becomes `none` = unbounded) -/
def ladderOfTable (l : List Int) (fin : Nat) : Ladder :=
  { t5 := l[0]?.map Int.toNat, t10 := l[1]?.map Int.toNat, fin := fin }

def codeLadder (fin : Nat) : Ladder := ladderOfTable Generated.exitLadderDeci fin

def T5 : Nat := 50
def T10 : Nat := 100

/-- **pinned constants**: `waitall(5.0)` then `waitall(10.0)` -/
theorem C11_ladder_pinned : Generated.exitLadderDeci = [50, 100] := by decide

/-- **pinned structure** of `_terminate_execution`: shutdown, bounded wait, SIGINT to self (or
`interrupt_main` on win32), bounded wait, `os._exit(1)` — no rung missing, in this order -/
theorem C11_ladder_steps_pinned : Generated.exitLadderSteps =
    [(0, "trigger_shutdown()"), (0, "waitall(5.0)"), (2, "kill(os.getpid(), 2)"), (3, "interrupt_main()"),
     (1, "waitall(10.0)"), (2, "_exit(1)")] := by decide

/-- **pinned reactions** the model transcribes: `serve` swallows KeyboardInterrupt, `executetask` re-raises
KeyboardInterrupt after closing the channel and ignores EOFError, `Reply.run` catches every BaseException,
the receiver's epilogue runs `_finished_receiving` before `_terminate_execution` before closing the io -/
theorem C11_handlers_pinned :
    Generated.serveHandlers = [("KeyboardInterrupt", false)] ∧
    Generated.executetaskHandlers = [("KeyboardInterrupt", true), ("BaseException", false)] ∧
    Generated.replyRunHandlers = [("BaseException", false)] ∧
    Generated.receiverEpilogue = ["_finished_receiving()", "_terminate_execution()", "close_read()",
      "close_write()", "trigger_shutdown()"] := by decide

theorem codeLadder_eq (fin : Nat) : codeLadder fin = ⟨some T5, some T10, fin⟩ := by
  simp [codeLadder, ladderOfTable, C11_ladder_pinned, T5, T10]

/-! ### what each activity class reaches -/

/-- exit record predicted for each activity class: rung, exit status, time (`fin` = interpreter
finalisation time after `serve()` returned; `os._exit` needs none) -/
def expectedExit (fin : Nat) (a : Activity) (t0 : Nat) : Exit :=
  match a with
  | .idle => ⟨t0 + fin, 0, .clean⟩
  | .blockedInReceive => ⟨t0 + fin, 0, .clean⟩
  | .sleeping d => if d ≤ T5 then ⟨t0 + d + fin, 0, .clean⟩ else ⟨t0 + T5 + fin, 0, .sigint⟩
  | .busyInterruptible => ⟨t0 + T5 + fin, 0, .sigint⟩
  | .swallowsKeyboardInterrupt => ⟨t0 + T5 + T10, 1, .hardExit⟩
  | .extraDaemonThreads false => ⟨t0 + fin, 0, .clean⟩
  | .extraDaemonThreads true => ⟨t0 + T5 + fin, 0, .sigint⟩

/-- **C11 (rung).** For every activity class and every moment `t0` at which the connection ends, the
worker process exits, and it does so on exactly this rung of the ladder: idle workers, workers blocked in
`channel.receive()` and workers whose body ends within 5 s leave cleanly; sleeping / computing bodies are
ended by the SIGINT rung after 5 s (as is a worker whose pool is kept busy by a non-main thread, through
`serve`'s `except KeyboardInterrupt`); a body that swallows KeyboardInterrupt is ended by `os._exit(1)`
after 5 s + 10 s. -/
theorem C11_rung (fin : Nat) (a : Activity) (t0 : Nat) :
    (run (codeLadder fin) a t0).gone = some (expectedExit fin a t0) := by
  rw [codeLadder_eq]
  cases a with
  | idle => simp [run, fuel, iter, step, init, initMain, initPoolBusy, waitall, running, rungOf, expectedExit]
  | blockedInReceive =>
    simp [run, fuel, iter, step, init, initMain, initPoolBusy, waitall, running, rungOf, expectedExit]
  | sleeping d =>
    by_cases h : d ≤ 50
    · simp [run, fuel, iter, step, init, initMain, initPoolBusy, waitall, running, selfFinish, rungOf,
        expectedExit, T5, h]
    · simp [run, fuel, iter, step, init, initMain, initPoolBusy, waitall, running, selfFinish, rungOf,
        expectedExit, interruptMain, T5, h]
  | busyInterruptible =>
    simp [run, fuel, iter, step, init, initMain, initPoolBusy, waitall, running, selfFinish, rungOf,
      expectedExit, interruptMain, T5]
  | swallowsKeyboardInterrupt =>
    simp [run, fuel, iter, step, init, initMain, initPoolBusy, waitall, running, selfFinish,
      expectedExit, interruptMain, T5, T10]
  | extraDaemonThreads b =>
    cases b <;>
    simp [run, fuel, iter, step, init, initMain, initPoolBusy, waitall, running, selfFinish, rungOf,
      expectedExit, interruptMain, T5]

/-- **C11 (bound).** Whatever the worker is executing when its initiator goes away at `t0`, the worker
process is gone by `t0 + 5 s + 10 s + ε`, where ε is the interpreter's finalisation time after `serve()`
returned (`os._exit` needs none). -/
theorem C11_bound (fin : Nat) (a : Activity) (t0 : Nat) :
    ∃ e, (run (codeLadder fin) a t0).gone = some e ∧ e.time ≤ t0 + T5 + T10 + fin := by
  refine ⟨_, C11_rung fin a t0, ?_⟩
  cases a with
  | sleeping d => by_cases h : d ≤ 50 <;> simp [expectedExit, T5, T10, h] <;> omega
  | extraDaemonThreads b => cases b <;> simp [expectedExit, T5, T10] <;> omega
  | _ => simp [expectedExit, T5, T10] <;> omega

theorem waitall_bounded_isSome (s : St) (T : Nat) (a b : Pc) : (waitall s (some T) a b).isSome := by
  unfold waitall
  split
  · simp
  · cases selfFinish s with
    | none => simp
    | some f => simp only []; split <;> simp

/-- **C11 (no rung skipped).** With the code's time-outs, every state in which the process still exists
has an enabled timed successor — in any state whatsoever, reachable or not: the ladder cannot stop before
the process is gone (no unbounded wait anywhere on it). -/
theorem C11_no_rung_skipped (fin : Nat) (s : St) (h : s.gone = none) :
    (step (codeLadder fin) s).isSome := by
  rw [codeLadder_eq]
  obtain ⟨now, pc, main, poolBusy, sigintAt, gone⟩ := s
  simp only at h
  subst h
  cases pc <;> simp [step, waitall_bounded_isSome]

/-- every run is over (process gone) after at most `fuel` steps -/
theorem C11_reaches_exit (fin : Nat) (a : Activity) (t0 : Nat) :
    (run (codeLadder fin) a t0).gone.isSome := by
  rw [C11_rung]; rfl

/-- what a forwarding gateway's main thread can be doing: blocked in the pipe read (ended by SIGINT), or
ended `d` ticks later by a failing forward of a frame its sub-process wrote -/
def ForwarderLike (f : Activity) : Prop := f = .busyInterruptible ∨ ∃ d, f = .sleeping d

theorem forwarder_exit (fin : Nat) (f : Activity) (hf : ForwarderLike f) (t0 : Nat) :
    ∃ e, (run (codeLadder fin) f t0).gone = some e ∧ e.time ≤ t0 + T5 + fin := by
  refine ⟨_, C11_rung fin f t0, ?_⟩
  rcases hf with rfl | ⟨d, rfl⟩
  · simp [expectedExit]
  · by_cases h : d ≤ T5
    · simp [expectedExit, h]
    · simp [expectedExit, h]

/-- **C11 (via chains).** A worker reached through forwarding gateways sees the end of its connection only
when the forwarder next to it is gone, and a forwarder is gone at the latest after its SIGINT rung: the
bound grows by 5 s (+ε) per hop. -/
theorem C11_via_bound (fin : Nat) (a : Activity) (fwd : List Activity) (hf : ∀ f ∈ fwd, ForwarderLike f)
    (t0 : Nat) :
    ∃ s e, runVia (codeLadder fin) fwd a t0 = some s ∧ s.gone = some e ∧
      e.time ≤ t0 + fwd.length * (T5 + fin) + T5 + T10 + fin := by
  induction fwd generalizing t0 with
  | nil =>
    obtain ⟨e, he, hb⟩ := C11_bound fin a t0
    exact ⟨_, e, rfl, he, by simpa using hb⟩
  | cons f fs ih =>
    obtain ⟨e0, he0, hb0⟩ := forwarder_exit fin f (hf f (by simp)) t0
    obtain ⟨s, e, hs, he, hb⟩ := ih (fun g hg => hf g (List.mem_cons_of_mem _ hg)) e0.time
    refine ⟨s, e, ?_, he, ?_⟩
    · simp only [runVia, he0]; exact hs
    · have : (fs.length + 1) * (T5 + fin) = fs.length * (T5 + fin) + (T5 + fin) := Nat.succ_mul _ _
      simp only [List.length_cons]
      omega

/-- the bound is tight: a body that swallows KeyboardInterrupt lives exactly 15 s; behind one forwarder 20 s -/
theorem C11_bound_tight :
    (run (codeLadder 0) .swallowsKeyboardInterrupt 7).gone = some ⟨7 + 150, 1, .hardExit⟩ ∧
    (runVia (codeLadder 0) [.busyInterruptible] .swallowsKeyboardInterrupt 7).map (·.gone) = some (some ⟨7 + 200, 1, .hardExit⟩) := by
  constructor
  · rw [C11_rung]; rfl
  · simp only [runVia, C11_rung, expectedExit]; rfl

/-- why the constants are pinned: with an unbounded second wait (`waitall(None)`) a body that swallows
KeyboardInterrupt keeps the worker alive forever — the run is stuck with the process still there -/
theorem C11_unbounded_wait_counterexample :
    (run ⟨some 50, none, 0⟩ .swallowsKeyboardInterrupt 0).gone = none ∧
    step ⟨some 50, none, 0⟩ (run ⟨some 50, none, 0⟩ .swallowsKeyboardInterrupt 0) = none := by decide

/-! ### non-vacuity: concrete non-trivial runs -/

example : (run (codeLadder 2) (.sleeping 80) 1000).gone = some ⟨1052, 0, .sigint⟩ := by
  rw [C11_rung]; rfl
example : (run (codeLadder 2) (.sleeping 30) 1000).gone = some ⟨1032, 0, .clean⟩ := by
  rw [C11_rung]; rfl
/-- a mid-ladder state (in the second wait, SIGINT already sent, body still running) has a successor -/
example : step (codeLadder 0) ⟨60, .wait10, .inTask .swallow, false, some 60, none⟩ =
    some ⟨160, .hardExit, .inTask .swallow, false, some 60, none⟩ := by
  rw [codeLadder_eq]; rfl

end ExecnetVerif
