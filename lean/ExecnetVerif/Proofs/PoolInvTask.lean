import ExecnetVerif.Proofs.PoolInv
namespace ExecnetVerif.Pool
set_option maxHeartbeats 1600000

theorem inv_tBegin {c : Config} {s s' : State} {a : Agent} {t : TaskId} (h : Inv c s)
    (hs : taskStep s a (.tBegin t) = some s') : Inv c s' := by
  simp only [taskStep] at hs
  inv_open h
  inv_step hs

theorem inv_tEnd {c : Config} {s s' : State} {a : Agent} {t : TaskId} (h : Inv c s)
    (hs : taskStep s a (.tEnd t) = some s') : Inv c s' := by
  simp only [taskStep] at hs
  inv_open h
  inv_step hs

theorem inv_tSetReady {c : Config} {s s' : State} {a : Agent} {t : TaskId} (h : Inv c s)
    (hs : taskStep s a (.tSetReady t) = some s') : Inv c s' := by
  simp only [taskStep] at hs
  inv_open h
  inv_step hs

theorem inv_tRemAcq {c : Config} {s s' : State} {a : Agent} {t : TaskId} (h : Inv c s)
    (hs : taskStep s a (.tRemAcq t) = some s') : Inv c s' := by
  simp only [taskStep] at hs
  inv_open h
  inv_step hs

theorem inv_tRemove {c : Config} {s s' : State} {a : Agent} {t : TaskId} (h : Inv c s)
    (hs : taskStep s a (.tRemove t) = some s') : Inv c s' := by
  simp only [taskStep] at hs
  inv_open h
  inv_step hs
  all_goals (
    rename_i hcond hempty _
    intro i b hi hw u hu
    by_cases hut : u = t
    · simp [upd, hut]
    · have hne : s.phase u ≠ .unused := wsn i (by simp [hi, inWa]) u hu
      have hnr : u ∉ s.running := by
        intro hmem
        have : u ∈ s.running.erase t := (List.Nodup.mem_erase_iff runND).2 ⟨hut, hmem⟩
        rw [hempty] at this
        cases this
      have hnl : live (s.phase u) = false := by
        have := run u
        cases hl : live (s.phase u) <;> simp_all
      have hd := not_live hnl
      cases hwe : s.wev i
      · simp [upd, hut]; grind
      · simp [upd, hut]; exact wtrueW i b hi hwe u hu)

end ExecnetVerif.Pool
