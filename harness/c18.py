"""C18 — channel protocol property (DESIGN.md §4 C18); shared machinery in netprops.py."""
from __future__ import annotations

from . import common, netprops

PROP = "C18"


def run(ctx):
    res = common.Result()
    res.rule = ("(a) op programs with channel transfers vs the Lean Net model (registered ids / callback tables are part of the compared digest); (b) transcript "
                "oracle: ids handed out are pairwise distinct with the allocator's parity; (c) scenarios: 1-3 creator threads x 2-12 open/transfer/close cycles "
                "(remote creates and sends a channel back, local creates and sends one nested in containers, plain): items arrive on the intended "
                "conversation, ids distinct, _channels/_callbacks/remote numchannels back at baseline; also under line-level pre-emption (6 per run)")
    netprops.op_level(ctx, res, PROP, ctx.budget(400, 24000, 600))
    netprops.run_scenarios(ctx, res, netprops.scenario_ids, ctx.budget(60, 18000, 250), "ids")
    # the same with line-level pre-emptions inside execnet's own code (2-3 creator threads): id allocation is a critical section
    netprops.run_scenarios(ctx, res, netprops.scenario_ids, ctx.budget(40, 3000, 400), "ids-preempt", preempt=6)
    return res


def search(ctx, prev):
    return run(ctx)


def replay(ctx, payload):
    c = payload["case"]
    if "ops" in c:
        return netprops.replay_ops(ctx, PROP, c["ops"].split(" ; "))
    return run(ctx)
