/-
`main_thread_only` pools with a primary thread never start a worker thread: every accepted task is handed to
the primary thread (used by C14: "every body runs in the worker's main thread, one at a time").
-/
import ExecnetVerif.Proofs.PoolReach
namespace ExecnetVerif.Pool
set_option maxHeartbeats 1600000

/-- every accepted task belongs to the primary thread -/
def AllPrim (s : State) : Prop := ∀ t, s.phase t ≠ .unused → s.prim t = true

theorem allPrim_userStep {c : Config} {s s' : State} {i : Uid} {act : Action} (hp : c.primary = true) (hm : c.mto = true)
    (inv : Inv c s) (h : AllPrim s) (hs : userStep c s i act = some s') : AllPrim s' := by
  unfold AllPrim at *
  have mbNone := inv.mbNone
  have primOf := inv.primOf
  have swait := inv.swait
  cases act <;> simp only [userStep, hp, hm, Bool.and_self] at hs
  all_goals (try (repeat' split at hs))
  all_goals (first | (cases hs; done) | (cases hs; dsimp only []; grind) | skip)
  -- the only branch of `spawn` that starts a worker thread needs a set event with an empty mailbox, which
  -- means shutdown (and then `spawn` has already refused)
  rename_i hsh hrd _ _ hmb
  exfalso
  cases hm' : s.mbox with
  | some m => exact hmb m rfl hm'
  | none =>
    cases hr : s.ready with
    | false => exact hrd ⟨trivial, hr⟩
    | true => exact hsh (mbNone hm' hr)

theorem allPrim_taskStep {s s' : State} {a : Agent} {act : Action}
    (h : AllPrim s) (hs : taskStep s a act = some s') : AllPrim s' := by
  unfold AllPrim at *
  cases act <;> simp only [taskStep] at hs
  all_goals (try (repeat' split at hs))
  all_goals (first | (cases hs; done) | (cases hs; dsimp only []; grind) | skip)

theorem allPrim_primStep {c : Config} {s s' : State} {act : Action}
    (inv : Inv c s) (h : AllPrim s) (hs : primStep c s act = some s') : AllPrim s' := by
  unfold AllPrim at *
  have mbAcc := inv.mbAcc
  cases act <;> simp only [primStep] at hs
  all_goals (try (repeat' split at hs))
  all_goals (first | (cases hs; done) | (cases hs; dsimp only []; grind) | skip)

theorem allPrim_reachable {c : Config} {s : State} (hc : c.old = false) (hp : c.primary = true) (hm : c.mto = true)
    (h : Reachable c s) : AllPrim s := by
  induction h with
  | init => intro t ht; simp [init] at ht
  | @step s1 s2 a hr hs ih =>
    have inv := inv_reachable hc hr
    obtain ⟨ag, act⟩ := a
    cases ag with
    | user i => exact allPrim_userStep hp hm inv ih hs
    | worker t => exact allPrim_taskStep ih hs
    | primary =>
      simp only [step] at hs
      split at hs
      · exact allPrim_primStep inv ih hs
      · exact allPrim_taskStep ih hs

end ExecnetVerif.Pool
