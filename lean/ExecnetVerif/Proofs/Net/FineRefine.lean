/-
The refinement: a guarded fine run from any state satisfying `FInv` with a reachable abstraction is the coarse
run of its projection.
-/
import ExecnetVerif.Proofs.Net.FineSimRecv
namespace ExecnetVerif.Net.Fine
open ExecnetVerif.Net

theorem frun_cons (fails : Item → Bool) (f : FState) (op : FOp) (ops : List FOp) :
    (frun fails f (op :: ops)).2 = (frun fails (fstep fails f op).2 ops).2 := rfl

theorem run_cons (fails : Item → Bool) (st : State) (op : Op) (ops : List Op) :
    run fails st (op :: ops) =
      ((step fails st op).1 :: (run fails (step fails st op).2 ops).1, (run fails (step fails st op).2 ops).2) := rfl

theorem refines_gen (fails : Item → Bool) (fops : List FOp) :
    ∀ f : FState, FInv f → Reachable fails f.abs → guardedRun fails f fops = true →
      run fails f.abs (project fails f fops) = (visibleOuts fails f fops, (frun fails f fops).2.abs) := by
  induction fops with
  | nil => intro f _ _ _; rfl
  | cons op ops ih =>
    intro f hinv hr hg
    simp only [guardedRun, Bool.and_eq_true] at hg
    obtain ⟨hg1, hg2⟩ := hg
    obtain ⟨hinv', hsim⟩ := sim_step fails f op hinv hr hg1
    rw [frun_cons]
    cases hco : op.coarseOf f with
    | none =>
      rw [hco] at hsim
      have h := ih (fstep fails f op).2 hinv' (hsim ▸ hr) hg2
      simp only [project, visibleOuts, hco]
      rw [← hsim]; exact h
    | some cop =>
      rw [hco] at hsim
      have hr' : Reachable fails (fstep fails f op).2.abs := by
        have := hr.step cop
        rw [hsim] at this; exact this
      have h := ih (fstep fails f op).2 hinv' hr' hg2
      simp only [project, visibleOuts, hco]
      rw [run_cons, hsim]
      simp only
      rw [h]

theorem abs_finit : finit.abs = init := rfl

end ExecnetVerif.Net.Fine
