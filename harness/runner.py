"""./check <ID> [--tier quick|thorough] [--replay file]   (see DESIGN.md §1.4)

exit 0: property held on everything explored (KNOWN-FINDING lines allowed)
exit 1: VIOLATION property=<id> replay=<path> [no-failing-input-found]
exit 2: the machinery itself failed (never a VIOLATION line)
"""
from __future__ import annotations

import argparse
import importlib
import json
import os
import sys
import traceback

sys.path.insert(0, os.path.dirname(os.path.dirname(os.path.abspath(__file__))))

from harness import common  # noqa: E402


class Ctx:
    def __init__(self, prop, tier, seed):
        self.prop = prop
        self.tier = tier
        self.seed = seed
        self.thorough = tier == "thorough"
        self.driver = common.Driver()
        self.execnet = common.import_execnet()
        self.search_mode = False  # True during the failing-input search (bigger budgets)
        self.deepen = False       # quick tier, but the anchored source differs from the frozen tree: enlarged budgets

    def rng(self, tag):
        return common.rng_for(self.seed, f"{self.prop}:{tag}")

    def budget(self, quick, thorough, search=None):
        if self.search_mode:
            return search if search is not None else max(quick * 4, thorough // 4)
        if self.thorough:
            return thorough
        if self.deepen:
            return search if search is not None else max(quick * 4, thorough // 4)
        return quick


def _default_signal_dispositions():
    """A check started from a background job of a non-interactive shell inherits SIGINT/SIGQUIT = SIG_IGN, and so would
    every worker process it creates: a worker that ignores SIGINT cannot be ended by the SIGINT rung of execnet's exit
    ladder (C11) — an artefact of how the check was launched, not of the code.  A Python-level handler here makes every
    exec'd child start with the default disposition again."""
    import signal

    for sig, handler in ((signal.SIGINT, signal.default_int_handler), (signal.SIGQUIT, signal.SIG_DFL)):
        try:
            if signal.getsignal(sig) == signal.SIG_IGN:
                signal.signal(sig, handler)
        except (ValueError, OSError):
            pass


def _arm_watchdog(prop, tier, seed):
    """A check that does not finish is no use to anybody.  After a generous wall-clock limit (quick 25 min, thorough 90 min,
    `VERIF_WALL_LIMIT` seconds overrides) the run is ended from a timer thread: on a tree whose source differs from the frozen one
    this is reported as a broken correspondence (the check's bounded waits did not cover what the code now does), otherwise as
    a failure of the tool (exit 2)."""
    import threading

    limit = float(os.environ.get("VERIF_WALL_LIMIT", "0") or 0) or (5400.0 if tier == "thorough" else 1500.0)

    def fire():
        try:
            from harness import fingerprint
            changed = fingerprint.changed()
        except Exception:  # noqa: BLE001
            changed = []
        try:
            if changed:
                path = common.write_replay(prop, "correspondence-broken", dict(
                    seed=seed, tier=tier, undischarged=[], search_evaluations=0,
                    mismatches=[dict(op="harness-run", impl="the check did not finish within %.0f s on code that differs from the frozen tree (%s)"
                                     % (limit, ", ".join(changed[:6])), model="finishes on the tree the check was frozen on")]))
                print(f"VIOLATION property={prop} replay={path} no-failing-input-found", flush=True)
                os._exit(1)
            print("TOOL FAILURE: the check did not finish within %.0f s" % limit, file=sys.stderr, flush=True)
        finally:
            os._exit(2)
    t = threading.Timer(limit, fire)
    t.daemon = True
    t.start()


def main(argv=None):
    _default_signal_dispositions()
    ap = argparse.ArgumentParser()
    ap.add_argument("prop")
    ap.add_argument("--tier", default=os.environ.get("VERIF_TIER", "quick"), choices=["quick", "thorough"])
    ap.add_argument("--replay", default=None)
    args = ap.parse_args(argv)
    prop = args.prop.upper()
    seed = common.get_seed()
    t0 = common.now()
    try:
        mod = importlib.import_module("harness." + prop.lower())
        proof = common.prove(prop, args.tier)
        ctx = Ctx(prop, args.tier, seed)
        touched = []
        changed_any = []
        _arm_watchdog(prop, args.tier, seed)
        if not args.replay and args.tier == "quick" and os.environ.get("VERIF_NO_DEEPEN") != "1":
            try:
                from harness import fingerprint
                touched = fingerprint.changed_for(prop)
            except Exception:  # noqa: BLE001 — a convenience, never a reason to fail
                touched = []
            try:
                changed_any = fingerprint.changed()
            except Exception:  # noqa: BLE001
                changed_any = []
            if touched:
                ctx.deepen = True
                print("note: functions this property is anchored in differ from the tree the checks were frozen on (%s%s): "
                      "running the enlarged budgets" % (", ".join(touched[:4]), " …" if len(touched) > 4 else ""))
        if args.replay:
            with open(args.replay) as f:
                payload = json.load(f)
            res = mod.replay(ctx, payload)
        else:
            try:
                res = mod.run(ctx)
            except common.ToolFailure:
                raise
            except Exception as e:  # noqa: BLE001
                if not (touched or changed_any):
                    raise
                # The harness itself tripped over the behaviour of code that differs from the tree it was built on (its
                # own bookkeeping assumes what the frozen tree does).  That is no tool failure: the correspondence between
                # the model/harness and this code could not be established.
                res = common.Result()
                res.mismatches.append(dict(op="harness-run", impl="the check's own run raised %r on the changed code" % (e,),
                                           model="completes on the tree the check was frozen on",
                                           traceback=traceback.format_exc()[-1500:]))
        if touched:
            res.extra["anchored_functions_changed_since_freeze"] = touched
        exit_code = 0
        printed = set()
        unknown = []
        for v in res.violations:
            k = common.match_known(prop, v)
            if k is not None:
                if k["id"] not in printed:
                    printed.add(k["id"])
                    print(f"KNOWN-FINDING: property={prop} {k['what']}")
            else:
                unknown.append(v)
        nviol = len(unknown)
        if unknown:
            path = common.write_replay(prop, "oracle", dict(seed=seed, tier=args.tier, **unknown[0]))
            print(f"VIOLATION property={prop} replay={path}")
            for v in unknown[1:4]:
                print("  also:", json.dumps(v, default=repr)[:300])
            exit_code = 1
        elif (proof["broken"] or res.mismatches) and not args.replay:
            # proof obligation or correspondence broken: search the implementation for a failing input
            why = []
            for name, reason in proof["broken"][:5]:
                why.append(f"obligation {name}: {reason}")
            for m in res.mismatches[:5]:
                why.append("correspondence: " + json.dumps(m, default=repr)[:400])
            print("proof/correspondence no longer checks:", *why, sep="\n  ")
            found = []
            if hasattr(mod, "search"):
                ctx.search_mode = True
                try:
                    sres = mod.search(ctx, res)
                except common.ToolFailure:
                    raise
                except Exception as e:  # noqa: BLE001
                    if not (touched or changed_any):
                        raise
                    sres = common.Result()
                    why.append("search run raised %r on the changed code" % (e,))
                for v in sres.violations:
                    if common.match_known(prop, v) is None:
                        found.append(v)
                res.evaluations += sres.evaluations
                res.hashes |= sres.hashes
            if found:
                path = common.write_replay(prop, "oracle", dict(seed=seed, tier=args.tier, **found[0]))
                print(f"VIOLATION property={prop} replay={path}")
                nviol = len(found)
            else:
                path = common.write_replay(
                    prop,
                    "proof-broken" if proof["broken"] else "correspondence-broken",
                    dict(
                        seed=seed,
                        tier=args.tier,
                        undischarged=[list(b) for b in proof["broken"]],
                        mismatches=res.mismatches[:10],
                        build_log_tail=proof["log"][-3000:] if proof["broken"] else "",
                        search_evaluations=res.evaluations,
                    ),
                )
                print(f"VIOLATION property={prop} replay={path} no-failing-input-found")
                nviol = 1
            exit_code = 1
        common.write_evidence(
            prop, args.tier, seed, proof, res, common.now() - t0, nviol,
            checker_cmd=f"cd lean && lake build {common.load_obligations(prop)['module']} && lake env lean <#print axioms of each obligation>",
        )
        ob = len(proof["obligations"])
        print(
            f"{prop} tier={args.tier} seed={seed}: obligations {len(proof['discharged'])}/{ob}, "
            f"{res.evaluations} evaluations, {len(res.hashes)} distinct non-trivial, "
            f"{len(res.mismatches)} model/impl mismatches, {nviol} violations, {common.now() - t0:.1f}s"
        )
        return exit_code
    except common.ToolFailure as e:
        print("TOOL FAILURE:", e, file=sys.stderr)
        return 2
    except Exception:
        traceback.print_exc()
        return 2


if __name__ == "__main__":
    sys.exit(main())
