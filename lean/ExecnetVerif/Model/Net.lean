/-
L3 `Net`: the channel protocol between the two ends of one gateway connection, at API-operation
granularity — two endpoints × channel tables × two frame FIFOs; API ops, receiver `deliver`,
`drop` (GC of the last reference), `cut` (connection loss), exec finish.  Transcribed from
`Channel`, `ChannelFactory`, `Message` handlers, `BaseGateway._thread_receiver` and
`WorkerGateway.executetask` in gateway_base.py (after the `fix:` commits; DESIGN.md Appendix A).

Every operation is total: an operation that is not enabled answers `notEnabled` and leaves the
state unchanged, so ANY list of operations is a history and a theorem over all operation lists is a
theorem over all interleavings of user threads and receiver threads at this granularity.

Ghost fields (`sent`, `got`, `kept`, `delivered`, `cbLog`, `dropped`, `broken`, `cbWants`, `ended`,
`closeSeen`) record history only; no operation reads them.
-/
namespace ExecnetVerif.Net

inductive Side where
  | A | B
  deriving DecidableEq, Repr, Inhabited

def Side.peer : Side → Side
  | .A => .B
  | .B => .A

/-- a channel item: an opaque payload plus the ids of the channel objects it contains -/
structure Item where
  val : Nat
  chans : List Nat
  deriving DecidableEq, Repr, Inhabited

inductive QItem where
  | item (v : Item)
  | endmarker
  deriving DecidableEq, Repr

inductive CbEvent where
  | item (v : Item)
  | endmarker
  deriving DecidableEq, Repr

inductive Frame where
  | data (id : Nat) (v : Item)
  | close (id : Nat)
  | closeErr (id : Nat) (e : Nat)
  | lastMsg (id : Nat)
  | exec (id : Nat)
  | terminate
  deriving DecidableEq, Repr

/-- one `Channel` object (the one registered for the id, or the most recent one) -/
structure Chan where
  created : Bool := false
  registered : Bool := false
  alive : Bool := false
  queue : Option (List QItem) := some []
  closed : Bool := false
  rclosed : Bool := false
  rerrs : List Nat := []
  executing : Bool := false
  deriving Repr

structure SideSt where
  chans : Nat → Chan
  cbs : Nat → Option Bool          -- `_callbacks`: id ↦ wants an endmarker
  count : Nat
  finished : Bool := false
  gwerr : Bool := false
  ioOpen : Bool := true
  out : List Frame := []           -- frames written by this side, not yet handled by the peer
  -- ghost history
  sent : Nat → List Item := fun _ => []
  got : Nat → List Item := fun _ => []
  kept : Nat → List Item := fun _ => []
  delivered : Nat → List Item := fun _ => []
  cbLog : Nat → List CbEvent := fun _ => []
  dropped : Nat → Bool := fun _ => false
  broken : Nat → Bool := fun _ => false
  cbWants : Nat → Option Bool := fun _ => none
  ended : Nat → Bool := fun _ => false
  closeSeen : Nat → Bool := fun _ => false   -- a closing frame of the peer for the id was handled here
  closeSent : Nat → Bool := fun _ => false   -- this side wrote a closing frame for the id

structure State where
  a : SideSt
  b : SideSt

def State.side (st : State) : Side → SideSt
  | .A => st.a
  | .B => st.b

def State.set (st : State) (s : Side) (x : SideSt) : State :=
  match s with
  | .A => { st with a := x }
  | .B => { st with b := x }

def upd {α : Type} (f : Nat → α) (k : Nat) (v : α) : Nat → α := fun i => if i = k then v else f i

def initSide (start : Nat) : SideSt :=
  { chans := fun _ => {}, cbs := fun _ => none, count := start }

/-- the initiator allocates odd ids from 1, the worker even ids from 2 -/
def init : State := { a := initSide 1, b := initSide 2 }

inductive Outcome where
  | ret
  | raise (e : Nat)
  deriving DecidableEq, Repr

inductive Op where
  | newchannel (s : Side)
  | remoteExec
  | send (s : Side) (id : Nat) (v : Item)
  | close (s : Side) (id : Nat) (err : Option Nat)
  | receive (s : Side) (id : Nat)
  | waitclose (s : Side) (id : Nat)
  | setcallback (s : Side) (id : Nat) (wantsEnd : Bool)
  | drop (s : Side) (id : Nat)
  | isclosed (s : Side) (id : Nat)
  | deliver (p : Side)
  | execFinish (id : Nat) (o : Outcome)
  | cut (p : Side)
  deriving Repr

inductive Out where
  | ok
  | chan (id : Nat)
  | item (v : Item)
  | bool (b : Bool)
  | osError
  | eofError
  | remoteError (e : Nat)
  | cbRaised
  | wouldBlock
  | notEnabled
  deriving DecidableEq, Repr

/-- `ChannelFactory.new(id)`: the registered object, or a fresh one -/
def createChan (c : Chan) : Chan :=
  if c.registered then c else { created := true, registered := true, alive := true }

/-- create-or-get the channel object for `id` at one side.  Ghost: if an object for the id has
existed here before and is no longer registered, or the conversation has already ended at this side,
the id is being re-opened: it is marked `broken` (the per-conversation theorems exclude such ids). -/
def createAt (x : SideSt) (id : Nat) : SideSt :=
  { x with chans := upd x.chans id (createChan (x.chans id)),
           broken := upd x.broken id
             (x.broken id || (((x.chans id).created || x.ended id) && !(x.chans id).registered)) }

/-- register every channel id contained in a decoded item (`load_channel` → `new(id)`) -/
def registerAll (x : SideSt) (ids : List Nat) : SideSt := ids.foldl createAt x

/-- `_no_longer_opened(id)`: unregister, pop the callback and fire its endmarker -/
def noLongerOpened (x : SideSt) (id : Nat) : SideSt :=
  let c := x.chans id
  { x with
    chans := upd x.chans id { c with registered := false },
    cbs := upd x.cbs id none,
    cbLog := upd x.cbLog id (match x.cbs id with
      | some true => x.cbLog id ++ [.endmarker]
      | _ => x.cbLog id) }

def pushEnd (q : Option (List QItem)) : Option (List QItem) := q.map (· ++ [.endmarker])

/-- `ChannelFactory._local_close(id, remoteerror, sendonly)` -/
def localClose (x : SideSt) (id : Nat) (err : Option Nat) (sendonly : Bool) : SideSt :=
  let c := x.chans id
  let x := { x with ended := upd x.ended id true }
  if c.registered then
    let c' := { c with rerrs := c.rerrs ++ err.toList, queue := pushEnd c.queue,
                       closed := c.closed || !sendonly, rclosed := true }
    noLongerOpened { x with chans := upd x.chans id c' } id
  else noLongerOpened x id

/-- the body of `Channel.close` after the guards; `frame` is the closing frame to write -/
def doClose (x : SideSt) (id : Nat) (frame : Frame) : Out × SideSt :=
  let c := x.chans id
  if !x.ioOpen && !c.rclosed then (.osError, x)   -- the send fails and the exception propagates
  else
    let x := if x.ioOpen then { x with out := x.out ++ [frame], closeSent := upd x.closeSent id true } else x
    let c' := { c with closed := true, rclosed := true, queue := pushEnd c.queue }
    (.ok, noLongerOpened { x with chans := upd x.chans id c', ended := upd x.ended id true } id)

def closeFrame (id : Nat) : Option Nat → Frame
  | none => .close id
  | some e => .closeErr id e

/-- `Channel.close(error)` -/
def chanClose (x : SideSt) (id : Nat) (err : Option Nat) : Out × SideSt :=
  let c := x.chans id
  if c.executing then (.osError, x)
  else if c.closed then (.ok, x)
  else doClose x id (closeFrame id err)

/-- drain of the old queue in `setcallback`: returns the callback events, the items handed over,
whether the callback raised, whether an ENDMARKER was met -/
def drain (fails : Item → Bool) : List QItem → List Item × Bool × Bool
  | [] => ([], false, false)
  | .endmarker :: _ => ([], false, true)
  | .item v :: rest =>
    if fails v then ([v], true, false)
    else
      let (vs, raised, sawEnd) := drain fails rest
      (v :: vs, raised, sawEnd)

def dataOf (id : Nat) : List Frame → List Item
  | [] => []
  | .data i v :: rest => if i = id then v :: dataOf id rest else dataOf id rest
  | _ :: rest => dataOf id rest

/-- the receiver epilogue: `_finished_receiving`, then the IO is closed -/
def epilogue (x : SideSt) (isCut : Bool) : SideSt :=
  { x with
    gwerr := x.gwerr || isCut,
    finished := true,
    ioOpen := false,
    chans := fun id =>
      let c := x.chans id
      if c.registered then { c with queue := pushEnd c.queue, registered := false, rclosed := true } else c,
    cbs := fun _ => none,
    ended := fun id => x.ended id || (x.chans id).registered || (x.cbs id).isSome,
    cbLog := fun id => match x.cbs id with
      | some true => x.cbLog id ++ [.endmarker]
      | _ => x.cbLog id }

/-- the receiver thread of side `p` handles one frame -/
def handle (fails : Item → Bool) (x : SideSt) (isWorker : Bool) : Frame → SideSt
  | .data id v =>
    let x := { x with delivered := upd x.delivered id (x.delivered id ++ [v]) }
    match x.cbs id with
    | some _ =>
      let x := registerAll x v.chans
      let x := { x with cbLog := upd x.cbLog id (x.cbLog id ++ [.item v]),
                        got := upd x.got id (x.got id ++ [v]),
                        kept := upd x.kept id (x.kept id ++ [v]) }
      if fails v then
        if x.ioOpen then
          localClose { x with out := x.out ++ [.closeErr id v.val], closeSent := upd x.closeSent id true }
            id (some v.val) false
        else
          -- the CLOSE_ERROR cannot be written any more: the OSError escapes the handler and ends the
          -- receiver thread (generic-exception exit: epilogue without a remembered EOFError)
          epilogue x false
      else x
    | none =>
      let c := x.chans id
      match c.registered, c.queue with
      | true, some q =>
        let x := registerAll x v.chans
        let c := x.chans id
        { x with chans := upd x.chans id { c with queue := (c.queue.map (· ++ [.item v])) },
                 kept := upd x.kept id (x.kept id ++ [v]) }
      | _, _ => { x with dropped := upd x.dropped id true }
  | .close id => localClose { x with closeSeen := upd x.closeSeen id true } id none false
  | .closeErr id e => localClose { x with closeSeen := upd x.closeSeen id true } id (some e) false
  | .lastMsg id => localClose { x with closeSeen := upd x.closeSeen id true } id none true
  | .exec id =>
    if isWorker then
      let x := createAt x id
      { x with chans := upd x.chans id { x.chans id with executing := true } }
    else x
  | .terminate => epilogue x false

def step (fails : Item → Bool) (st : State) : Op → Out × State
  | .newchannel s =>
    let x := st.side s
    if x.finished then (.osError, st)
    else
      let id := x.count
      (.chan id, st.set s { createAt x id with count := x.count + 2 })
  | .remoteExec =>
    let x := st.a
    if x.finished then (.osError, st)
    else
      let id := x.count
      if !x.ioOpen then (.osError, st.set .A { x with count := x.count + 2 })
      else
        (.chan id, st.set .A { createAt x id with count := x.count + 2, out := x.out ++ [.exec id] })
  | .send s id v =>
    let x := st.side s
    let c := x.chans id
    if !c.alive || !(v.chans.all fun k => (x.chans k).alive) then (.notEnabled, st)
    else if c.closed then (.osError, st)
    else if !x.ioOpen then (.osError, st)
    else (.ok, st.set s { x with out := x.out ++ [.data id v], sent := upd x.sent id (x.sent id ++ [v]) })
  | .close s id err =>
    let x := st.side s
    if !(x.chans id).alive then (.notEnabled, st)
    else
      let (o, x') := chanClose x id err
      (o, st.set s x')
  | .receive s id =>
    let x := st.side s
    let c := x.chans id
    if !c.alive then (.notEnabled, st)
    else match c.queue with
      | none => (.osError, st)
      | some [] => (.wouldBlock, st)
      | some (.item v :: q) =>
        (.item v, st.set s { x with chans := upd x.chans id { c with queue := some q },
                                    got := upd x.got id (x.got id ++ [v]) })
      | some (.endmarker :: q) =>
        let c1 := { c with queue := some (q ++ [.endmarker]) }
        match c.rerrs with
        | e :: es => (.remoteError e, st.set s { x with chans := upd x.chans id { c1 with rerrs := es } })
        | [] => (.eofError, st.set s { x with chans := upd x.chans id c1 })
  | .waitclose s id =>
    let x := st.side s
    let c := x.chans id
    if !c.alive then (.notEnabled, st)
    else if !c.rclosed then (.wouldBlock, st)
    else match c.rerrs with
      | e :: es => (.remoteError e, st.set s { x with chans := upd x.chans id { c with rerrs := es } })
      | [] => if x.gwerr then (.eofError, st) else (.ok, st)
  | .setcallback s id w =>
    let x := st.side s
    let c := x.chans id
    if !c.alive then (.notEnabled, st)
    else match c.queue with
      | none => (.osError, st)
      | some q =>
        let (vs, raised, sawEnd) := drain fails q
        let x := { x with chans := upd x.chans id { c with queue := none },
                          cbWants := upd x.cbWants id (some w),
                          got := upd x.got id (x.got id ++ vs),
                          cbLog := upd x.cbLog id (x.cbLog id ++ vs.map .item ++
                            (if sawEnd && w then [.endmarker] else [])) }
        if raised then (.cbRaised, st.set s { x with broken := upd x.broken id true })
        else if sawEnd then (.ok, st.set s x)
        else if c.closed || c.rclosed then (.ok, st.set s x)
        else (.ok, st.set s { x with cbs := upd x.cbs id (some w) })
  | .drop s id =>
    let x := st.side s
    let c := x.chans id
    if !c.alive || c.executing then (.notEnabled, st)
    else
      let x1 := { x with chans := upd x.chans id { c with alive := false, registered := false } }
      if c.closed || !x.ioOpen then (.ok, st.set s x1)
      else
        let frame : Frame := if c.rclosed then .close id else if c.queue.isNone then .lastMsg id else .close id
        (.ok, st.set s { x1 with out := x1.out ++ [frame], closeSent := upd x1.closeSent id true })
  | .isclosed s id =>
    let x := st.side s
    if !(x.chans id).alive then (.notEnabled, st) else (.bool (x.chans id).closed, st)
  | .deliver p =>
    let x := st.side p
    let y := st.side p.peer
    if x.finished then (.notEnabled, st)
    else match y.out with
      | [] => (.notEnabled, st)
      | f :: rest =>
        let st1 := st.set p.peer { y with out := rest }
        let x' := handle fails (st1.side p) (p == .B) f
        let st2 := st1.set p x'
        -- a GATEWAY_TERMINATE ends the connection in both directions
        if x'.finished then (.ok, st2.set p.peer { st2.side p.peer with ioOpen := false }) else (.ok, st2)
  | .execFinish id o =>
    let x := st.b
    let c := x.chans id
    if !c.executing then (.notEnabled, st)
    else
      let x := { x with chans := upd x.chans id { c with executing := false } }
      let err := match o with
        | .ret => none
        | .raise e => if x.finished then none else some e
      let (r, x') := chanClose x id err
      (r, st.set .B x')
  | .cut p =>
    let x := st.side p
    if x.finished then (.notEnabled, st)
    else
      -- the receiver of `p` saw EOF: `p` closes its IO, so the peer's writes fail from now on
      let st1 := st.set p (epilogue x true)
      (.ok, st1.set p.peer { st1.side p.peer with ioOpen := false })

def run (fails : Item → Bool) (st : State) : List Op → List Out × State
  | [] => ([], st)
  | op :: ops =>
    let (o, st1) := step fails st op
    let (os, st2) := run fails st1 ops
    (o :: os, st2)

/-- every state some history of operations leads to -/
def Reachable (fails : Item → Bool) (st : State) : Prop := ∃ ops, (run fails init ops).2 = st

end ExecnetVerif.Net
