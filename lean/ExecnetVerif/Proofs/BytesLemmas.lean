import ExecnetVerif.Model.Bytes
namespace ExecnetVerif

theorem be4_length (n : Nat) : (be4 n).length = 4 := rfl

theorem val4_be4 (n : Nat) (h : n < 4294967296) :
    val4 (UInt8.ofNat (n / 16777216 % 256)) (UInt8.ofNat (n / 65536 % 256))
      (UInt8.ofNat (n / 256 % 256)) (UInt8.ofNat (n % 256)) = n := by
  unfold val4
  simp only [UInt8.toNat_ofNat']
  omega

theorem rd4_be4 (n : Nat) (rest : Bytes) (h : n < 4294967296) :
    rd4 (be4 n ++ rest) = some (n, rest) := by
  unfold be4 rd4
  simp only [List.cons_append, List.nil_append]
  rw [val4_be4 n h]

theorem toU32_lt (i : Int) : toU32 i < 4294967296 := by
  unfold toU32; omega

theorem ofU32_toU32 (i : Int) (h : inI32 i) : ofU32 (toU32 i) = i := by
  unfold inI32 at h
  unfold ofU32 toU32
  split <;> omega

theorem rd8_be8 (n : Nat) (rest : Bytes) (h : n < 18446744073709551616) :
    rd8 (be8 n ++ rest) = some (n, rest) := by
  unfold be8 rd8
  rw [List.append_assoc, rd4_be4 _ _ (by omega)]
  simp only
  rw [rd4_be4 _ _ (by omega)]
  simp only [Option.some.injEq, Prod.mk.injEq, and_true]
  omega

theorem readN_append (b rest : Bytes) : readN b.length (b ++ rest) = some (b, rest) := by
  unfold readN
  simp

/-! ### decimal text -/

theorem isDigit_digitByte (d : Nat) (h : d < 10) : isDigit (digitByte d) = true := by
  unfold isDigit digitByte
  simp only [UInt8.toNat_ofNat']
  have : (48 + d) % 256 = 48 + d := by omega
  simp [this]; omega

theorem digitByte_val (d : Nat) (h : d < 10) : (digitByte d).toNat - 48 = d := by
  unfold digitByte
  simp only [UInt8.toNat_ofNat']
  omega

theorem digitByte_not_us (d : Nat) (h : d < 10) : (digitByte d).toNat ≠ 95 := by
  unfold digitByte
  simp only [UInt8.toNat_ofNat']
  omega

theorem natDigits_ne_nil (n : Nat) : natDigits n ≠ [] := by
  rw [natDigits]; split <;> simp

theorem parseDigits_snoc (d : Nat) (hd : d < 10) : ∀ (l : Bytes) (a k : Nat) (p : Bool) (v m : Nat),
    parseDigits l a k p = some (v, m, []) →
    parseDigits (l ++ [digitByte d]) a k p = some (v * 10 + d, m + 1, []) := by
  intro l
  induction l with
  | nil =>
    intro a k p v m hp
    cases p <;> simp [parseDigits] at hp
    obtain ⟨rfl, rfl⟩ := hp
    simp [parseDigits, isDigit_digitByte d hd, digitByte_val d hd]
  | cons b t iht =>
    intro a k p v m hp
    by_cases hb : isDigit b = true
    · simp only [List.cons_append, parseDigits, hb, if_true] at hp ⊢
      exact iht _ _ _ v m hp
    · by_cases hus : b.toNat = 95
      · simp only [List.cons_append, parseDigits, hb, hus, if_true] at hp ⊢
        cases p
        · simp at hp
        · cases t with
          | nil => simp at hp
          | cons c t' =>
            by_cases hc : isDigit c = true
            · simp only [hc, if_true, List.cons_append] at hp ⊢
              exact iht _ _ _ v m hp
            · simp [hc] at hp
      · simp only [List.cons_append, parseDigits, hb, hus] at hp ⊢
        cases p <;> simp at hp

/-- parsing the digits of `n` yields `n` and counts them -/
theorem parseDigits_natDigits (n : Nat) :
    parseDigits (natDigits n) 0 0 false = some (n, (natDigits n).length, []) := by
  induction n using Nat.strongRecOn with
  | _ n ih =>
    rw [natDigits]
    split
    · rename_i h
      simp [parseDigits, isDigit_digitByte n h, digitByte_val n h]
    · rename_i h
      have := ih (n / 10) (by omega)
      have h2 := parseDigits_snoc (n % 10) (by omega) _ _ _ _ _ _ this
      rw [h2]
      simp only [List.length_append, List.length_singleton]
      congr 2
      omega

theorem natDigits_head_isDigit (n : Nat) : ∃ c t, natDigits n = c :: t ∧ isDigit c = true := by
  induction n using Nat.strongRecOn with
  | _ n ih =>
    rw [natDigits]
    split
    · rename_i h; exact ⟨_, _, rfl, isDigit_digitByte n h⟩
    · rename_i h
      obtain ⟨c, t, hc, hd⟩ := ih (n / 10) (by omega)
      exact ⟨c, t ++ [digitByte (n % 10)], by rw [hc]; rfl, hd⟩

theorem isDigit_not_space {c : UInt8} (h : isDigit c = true) : isSpace c = false := by
  unfold isDigit at h; unfold isSpace
  simp only [Bool.and_eq_true, decide_eq_true_eq] at h
  simp only [Bool.or_eq_false_iff, decide_eq_false_iff_not, Bool.and_eq_false_imp, decide_eq_true_eq]
  omega

theorem parseUnsigned_natDigits (n : Nat) (h : (natDigits n).length ≤ maxStrDigits) :
    parseUnsigned (natDigits n) = some n := by
  obtain ⟨c, t, hc, hd⟩ := natDigits_head_isDigit n
  have hp := parseDigits_natDigits n
  unfold parseUnsigned
  rw [hc] at hp h ⊢
  simp only [hd, if_true, hp, dropSpaces]
  simp only [List.length_cons] at h
  simp; omega

theorem dropSpaces_digit {c : UInt8} {t : Bytes} (hd : isDigit c = true) :
    dropSpaces (c :: t) = c :: t := by
  simp [dropSpaces, isDigit_not_space hd]

theorem parseInt_intText (i : Int) (h : numDigits i ≤ maxStrDigits) :
    parseInt (intText i) = some i := by
  unfold intText numDigits at *
  split
  · rename_i hneg
    have hn : (-i).toNat = i.natAbs := by omega
    rw [hn]
    unfold parseInt
    have h45 : isSpace (45 : UInt8) = false := by decide
    simp only [dropSpaces, h45, Bool.false_eq_true, if_false]
    rw [parseUnsigned_natDigits _ h]
    show some (-(i.natAbs : Int)) = some i
    congr 1; omega
  · rename_i hneg
    have hn : i.toNat = i.natAbs := by omega
    rw [hn]
    obtain ⟨c, t, hc, hd⟩ := natDigits_head_isDigit i.natAbs
    have hu := parseUnsigned_natDigits _ h
    unfold parseInt
    rw [hc] at hu ⊢
    rw [dropSpaces_digit hd]
    have h1 : c ≠ 45 := by intro hc'; subst hc'; revert hd; decide
    have h2 : c ≠ 43 := by intro hc'; subst hc'; revert hd; decide
    split
    · rename_i r heq; simp at heq; exact absurd heq.1 h1
    · rename_i r heq; simp at heq; exact absurd heq.1 h2
    · rw [hu]; show some ((i.natAbs : Nat) : Int) = some i; congr 1; omega

/-! ### UTF-8 -/

theorem utf8_roundtrip (s : String) : utf8Decode (utf8Encode s) = some s := by
  unfold utf8Decode utf8Encode String.toUTF8
  have : (ByteArray.mk s.toByteArray.data.toList.toArray) = s.toByteArray := by
    simp
  rw [this, String.fromUTF8?, dif_pos s.isValidUTF8]
  rfl

end ExecnetVerif
