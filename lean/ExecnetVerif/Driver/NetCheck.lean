/-
Executable (bounded over the ids in use) versions of the `Net` invariants, used only to sanity-test
the invariant STATEMENTS on random histories before/after proving them — not part of any proof.
  net.inv <ops>  → "ok" | "FAIL <clause> side id"
-/
import ExecnetVerif.Driver.NetIO
import ExecnetVerif.Proofs.Net.Defs
namespace ExecnetVerif.Net

def isSublist [DecidableEq α] : List α → List α → Bool
  | [], _ => true
  | _ :: _, [] => false
  | a :: as, b :: bs => if a = b then isSublist as bs else isSublist (a :: as) bs

def shapeOk (c : Chan) : Bool :=
  match c.queue with
  | none => true
  | some q =>
    let items := q.takeWhile (fun x => x != .endmarker)
    let rest := q.dropWhile (fun x => x != .endmarker)
    rest.all (· == .endmarker) && ((rest.length == 0) == (c.rclosed == false)) && items.all (· != .endmarker)

def endLast (l : List CbEvent) : Bool :=
  match l.reverse with
  | [] => true
  | _ :: r => !(r.contains .endmarker)

def wellOrderedB (id : Nat) : List Frame → Bool
  | [] => true
  | f :: post => (if f.isClosing id then (dataOf id post).isEmpty else true) && wellOrderedB id post

def checkSide (st : State) (p : Side) (id : Nat) : Option String :=
  let x := st.side p
  let y := st.side p.peer
  let c := x.chans id
  let bad (nm : String) : Option String := some s!"FAIL {nm} {if p == .A then "A" else "B"} {id}"
  if y.sent id != x.delivered id ++ dataOf id y.out then bad "wire" else
  if !isSublist (x.kept id) (x.delivered id) then bad "kept-sublist" else
  if x.dropped id == false && x.kept id != x.delivered id then bad "kept-eq" else
  if !shapeOk c then bad "queue-shape" else
  if c.closed && !c.rclosed then bad "closed-rclosed" else
  if c.registered && !(c.created && c.alive && !c.closed && !c.rclosed) then bad "registered" else
  if c.alive && !c.created then bad "alive-created" else
  if c.created && c.alive && !c.registered && !c.rclosed then bad "unregistered-rclosed" else
  if c.executing && !c.alive then bad "executing" else
  if !c.created && !(c.queue == some [] && !c.closed && !c.rclosed && c.rerrs.isEmpty && !c.executing) then bad "uncreated" else
  if !isSublist (x.got id ++ queueItems c.queue) (x.kept id) then bad "got-sublist" else
  if x.broken id == false && x.got id ++ queueItems c.queue != x.kept id then bad "got-eq" else
  if (x.cbs id).isSome && x.broken id == false && !(c.queue.isNone && x.cbWants id == x.cbs id && x.ended id == false) then bad "cb-registered" else
  if x.broken id == false && !endLast (x.cbLog id) then bad "end-last" else
  if x.broken id == false && (x.cbLog id).contains .endmarker && (x.cbs id).isSome then bad "end-unregisters" else
  if (x.cbWants id).isNone && !((x.cbLog id).isEmpty && (x.cbs id).isNone) then bad "no-cb-before-setcallback" else
  if (x.cbWants id).isSome && x.ended id == false && x.broken id == false && x.cbs id != x.cbWants id then bad "cb-stays" else
  if x.cbWants id == some true && x.ended id && x.broken id == false && !(x.cbLog id).contains .endmarker then bad "end-eventually" else
  if x.broken id == false && (x.cbLog id).contains .endmarker && x.cbWants id != some true then bad "end-on-request" else
  if x.broken id == false && (x.got id).drop ((x.got id).length - (cbItems (x.cbLog id)).length) != cbItems (x.cbLog id) then bad "cb-suffix" else
  if x.ended id && x.broken id == false && c.registered then bad "ended-forgotten" else
  if x.broken id == false && c.queue.isSome && (x.cbWants id).isSome then bad "aux-queue-nowants" else
  if !c.created && (x.cbWants id).isSome then bad "aux-uncreated-nowants" else
  if x.broken id == false && c.rclosed && !x.ended id then bad "aux-rclosed-ended" else
  if x.finished && !(x.ioOpen == false && !c.registered && (x.cbs id).isNone && (!c.alive || c.rclosed)) then bad "finished" else
  if x.closeSent id == false && x.out.any (·.isClosing id) then bad "closeSent-noClosing" else
  if x.closeSent id && x.broken id == false && !(c.closed || !c.alive) then bad "closeSent-refuses" else
  if x.broken id == false && !wellOrderedB id x.out then bad "well-ordered" else
  if y.closeSeen id && !x.closeSent id then bad "closeSeen-closeSent" else
  if y.closeSeen id && x.broken id == false && !(dataOf id x.out).isEmpty then bad "closeSeen-nodata" else
  none

def checkIds (st : State) : Option String :=
  if st.a.count % 2 != 1 || st.b.count % 2 != 0 then some "FAIL parity" else
  let maxId := max st.a.count st.b.count + 4
  (List.range maxId).findSome? fun id =>
    (if (st.a.chans id).created && id % 2 == 1 && !(id < st.a.count) then some s!"FAIL idA {id}" else none) <|>
    (if (st.b.chans id).created && id % 2 == 0 && !(id < st.b.count) then some s!"FAIL idB {id}" else none) <|>
    checkSide st .A id <|> checkSide st .B id

def netCheckHandle : List String → Option String
  | "net.inv" :: toks =>
    let groups := (splitSemi toks [] []).filter (· ≠ [])
    match groups.mapM parseOp with
    | none => some "bad-op"
    | some ops =>
      -- check after every prefix
      let rec go (st : State) (ops : List Op) (n : Nat) : String :=
        match checkIds st with
        | some e => s!"{e} after {n} ops"
        | none =>
          match ops with
          | [] => "ok"
          | op :: rest => go (step failsDefault st op).2 rest (n + 1)
      let outs := (run failsDefault init ops).1
      let ids := outs.filterMap chanOut
      if ids.eraseDups.length != ids.length then some "FAIL distinct-ids" else some (go init ops 0)
  | _ => none

end ExecnetVerif.Net
