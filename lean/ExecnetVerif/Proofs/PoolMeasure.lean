/-
A well-founded progress measure for the WorkerPool model: every step that is not the start of a new client call
strictly decreases `measure N` (N bounds the client-thread and task ids in use), so between two client calls the
pool can only take finitely many steps.
-/
import ExecnetVerif.Proofs.PoolReach
namespace ExecnetVerif.Pool

def wT : TPhase → Nat
  | .unused => 0 | .done => 0 | .removing => 1 | .resReady => 2 | .ended => 3 | .body => 4
  | .created => 5 | .inHand => 5 | .inMbox => 12 | .pending => 13

def wP : PPhase → Nat
  | .gone => 0 | .left => 1 | .readMbox => 2 | .waitReady => 3 | .chk _ => 4 | .chkAcq _ => 5 | .run _ => 6

def wU : UPhase → Nat
  | .idle => 0 | .spawnRet _ => 1 | .refusedRet => 1 | .spawnRel _ => 2 | .spawnWait _ _ => 3 | .spawnHold _ => 17
  | .shutRet => 1 | .shutHold => 2 | .waRet _ => 1 | .waWait _ => 2 | .waHold _ => 3 | .getRet _ _ => 1 | .getWait _ _ => 2

def sumTo (f : Nat → Nat) : Nat → Nat
  | 0 => 0
  | n + 1 => sumTo f n + f n

/-- remaining work of all calls in flight, all accepted tasks and the primary thread -/
def measure (N : Nat) (s : State) : Nat :=
  sumTo (fun i => wU (s.us i)) N + sumTo (fun t => wT (s.phase t)) N + wP s.pp

/-- `N` bounds the ids in use -/
structure Bounded (N : Nat) (s : State) : Prop where
  users : ∀ i, N ≤ i → s.us i = .idle
  tasks : ∀ t, N ≤ t → s.phase t = .unused
  fresh : ∀ i t, s.us i = .spawnHold t → t < N

theorem sumTo_congr {f g : Nat → Nat} {N : Nat} (h : ∀ j, j < N → f j = g j) : sumTo f N = sumTo g N := by
  induction N with
  | zero => rfl
  | succ n ih =>
    simp only [sumTo]
    rw [ih (fun j hj => h j (by omega)), h n (by omega)]

theorem sumTo_upd {α : Type} (w : α → Nat) (g : Nat → α) (i : Nat) (v : α) (N : Nat) (h : i < N) :
    sumTo (fun j => w (upd g i v j)) N + w (g i) = sumTo (fun j => w (g j)) N + w v := by
  induction N with
  | zero => omega
  | succ n ih =>
    simp only [sumTo]
    by_cases hin : i = n
    · subst hin
      have h1 : sumTo (fun j => w (upd g i v j)) i = sumTo (fun j => w (g j)) i :=
        sumTo_congr (fun j hj => by
          have : j ≠ i := by omega
          simp [upd, this])
      have h2 : upd g i v i = v := by simp [upd]
      rw [h1, h2]
      omega
    · have := ih (by omega)
      have h2 : upd g i v n = g n := by
        have : n ≠ i := fun h => hin h.symm
        simp [upd, this]
      rw [h2]
      omega

theorem le_sumTo (f : Nat → Nat) (i N : Nat) (h : i < N) : f i ≤ sumTo f N := by
  induction N with
  | zero => omega
  | succ n ih =>
    simp only [sumTo]
    by_cases hin : i = n
    · subst hin; omega
    · have := ih (by omega); omega

theorem sumU_upd (g : Uid → UPhase) (i : Uid) (v : UPhase) (N : Nat) (h : i < N) :
    sumTo (fun j => wU (upd g i v j)) N = sumTo (fun j => wU (g j)) N + wU v - wU (g i) := by
  have := sumTo_upd wU g i v N h
  omega

theorem sumT_upd (g : TaskId → TPhase) (t : TaskId) (v : TPhase) (N : Nat) (h : t < N) :
    sumTo (fun j => wT (upd g t v j)) N = sumTo (fun j => wT (g j)) N + wT v - wT (g t) := by
  have := sumTo_upd wT g t v N h
  omega

theorem lt_of_used {N : Nat} {s : State} (hb : Bounded N s) {t : TaskId} (h : s.phase t ≠ .unused) : t < N := by
  cases Nat.lt_or_ge t N with
  | inl h1 => exact h1
  | inr h1 => exact absurd (hb.tasks t h1) h

theorem lt_of_busy {N : Nat} {s : State} (hb : Bounded N s) {i : Uid} (h : s.us i ≠ .idle) : i < N := by
  cases Nat.lt_or_ge i N with
  | inl h1 => exact h1
  | inr h1 => exact absurd (hb.users i h1) h

theorem bounded_us {N : Nat} {s : State} (hb : Bounded N s) {i : Uid} (hi : i < N) (v : UPhase)
    (hv : ∀ t, v ≠ .spawnHold t) (s' : State) (hu : s'.us = upd s.us i v)
    (hp : ∀ t, s'.phase t ≠ .unused → s.phase t ≠ .unused ∨ t < N) : Bounded N s' := by
  refine ⟨fun j hj => ?_, fun t ht => ?_, fun j t hjt => ?_⟩
  · have : j ≠ i := fun h => by rw [h] at hj; exact Nat.lt_irrefl _ (Nat.lt_of_lt_of_le hi hj)
    simp [hu, upd, this]; exact hb.users j hj
  · cases hpt : s'.phase t with
    | unused => rfl
    | _ =>
      exfalso
      rcases hp t (by simp [hpt]) with h | h
      · exact h (hb.tasks t ht)
      · exact Nat.lt_irrefl _ (Nat.lt_of_lt_of_le h ht)
  · rw [hu] at hjt
    simp only [upd] at hjt
    split at hjt
    · exact absurd hjt (hv t)
    · exact hb.fresh j t hjt

set_option maxHeartbeats 1600000 in
/-- every step of a client thread other than the start of a call decreases the measure -/
theorem measure_user {c : Config} {s s' : State} {i : Uid} {act : Action} {N : Nat} (inv : Inv c s)
    (hb : Bounded N s) (hcall : act.isCall = false) (hs : userStep c s i act = some s') :
    measure N s' < measure N s ∧ Bounded N s' := by
  have shold := inv.shold
  have swait := inv.swait
  cases act <;> simp [Action.isCall] at hcall <;> cases hu : s.us i <;> simp only [userStep, hu] at hs
  all_goals (first | (cases hs; done) | skip)
  all_goals (try (repeat' split at hs))
  all_goals (first | (cases hs; done) | skip)
  all_goals (
    have hiN : i < N := lt_of_busy hb (by simp [hu])
    have hle := le_sumTo (fun j => wU (s.us j)) i N hiN
    simp only [hu, wU] at hle
    cases hs
    refine ⟨?_, ?_⟩)
  all_goals (first
    | (simp only [measure]; rw [sumU_upd _ _ _ _ hiN]; simp only [hu, wU]; omega)
    | exact bounded_us hb hiN _ (by simp) _ rfl (fun t ht => Or.inl ht)
    | skip)
  -- the steps that move a task: the check inside `spawn` and the end of the blocked hand-over
  all_goals (first
    | (have htN := hb.fresh i _ hu
       have hph := shold i _ hu
       first
       | (simp only [measure]; rw [sumU_upd _ _ _ _ hiN, sumT_upd _ _ _ _ htN]; simp only [hu, hph, wU, wT]; omega)
       | (refine bounded_us hb hiN _ (by simp) _ rfl (fun t ht => ?_)
          simp only [upd] at ht
          split at ht
          · rename_i h; exact Or.inr (h ▸ htN)
          · exact Or.inl ht))
    | (have hph := (swait i _ _ hu).1
       have htN := lt_of_used hb (t := _) (by rw [hph]; simp)
       have hleT := le_sumTo (fun j => wT (s.phase j)) _ N htN
       simp only [hph, wT] at hleT
       first
       | (simp only [measure]; rw [sumU_upd _ _ _ _ hiN, sumT_upd _ _ _ _ htN]; simp only [hu, hph, wU, wT]; omega)
       | (refine bounded_us hb hiN _ (by simp) _ rfl (fun t ht => ?_)
          simp only [upd] at ht
          split at ht
          · rename_i h; exact Or.inr (h ▸ htN)
          · exact Or.inl ht)))

theorem bounded_same_us {N : Nat} {s : State} (hb : Bounded N s) (s' : State) (hu : s'.us = s.us)
    (hp : ∀ t, s'.phase t ≠ .unused → s.phase t ≠ .unused ∨ t < N) : Bounded N s' := by
  refine ⟨fun j hj => by rw [hu]; exact hb.users j hj, fun t ht => ?_, fun j t hjt => hb.fresh j t (by rw [← hu]; exact hjt)⟩
  cases hpt : s'.phase t with
  | unused => rfl
  | _ =>
    exfalso
    rcases hp t (by simp [hpt]) with h | h
    · exact h (hb.tasks t ht)
    · exact Nat.lt_irrefl _ (Nat.lt_of_lt_of_le h ht)

theorem measure_phase_step {N : Nat} {s : State} (hb : Bounded N s) (t : TaskId) (v : TPhase) (s' : State)
    (hne : s.phase t ≠ .unused) (hus : s'.us = s.us) (hph : s'.phase = upd s.phase t v)
    (hlt : wT v + wP s'.pp < wT (s.phase t) + wP s.pp) : measure N s' < measure N s ∧ Bounded N s' := by
  have htN := lt_of_used hb hne
  have hle := le_sumTo (fun j => wT (s.phase j)) t N htN
  refine ⟨?_, bounded_same_us hb s' hus (fun u hu => ?_)⟩
  · simp only [measure, hus, hph]
    rw [sumT_upd _ _ _ _ htN]
    have hle' : wT (s.phase t) ≤ sumTo (fun j => wT (s.phase j)) N := hle
    omega
  · rw [hph] at hu
    simp only [upd] at hu
    split at hu
    · rename_i h; exact Or.inr (h ▸ htN)
    · exact Or.inl hu

theorem measure_pp_step {N : Nat} {s : State} (hb : Bounded N s) (s' : State)
    (hus : s'.us = s.us) (hph : s'.phase = s.phase) (hlt : wP s'.pp < wP s.pp) :
    measure N s' < measure N s ∧ Bounded N s' := by
  refine ⟨?_, bounded_same_us hb s' hus (fun u hu => Or.inl (by rw [← hph]; exact hu))⟩
  simp only [measure, hus, hph]
  omega

/-- every step of `_perform_spawn` decreases the measure -/
theorem measure_task {c : Config} {s s' : State} {a : Agent} {act : Action} {N : Nat} (_inv : Inv c s)
    (hb : Bounded N s) (hs : taskStep s a act = some s') :
    measure N s' < measure N s ∧ Bounded N s' := by
  cases act with
  | tBegin t =>
    simp only [taskStep] at hs
    split at hs
    · rename_i hcond
      cases hs
      rcases hcond.2 with h | h
      · exact measure_phase_step hb t .body _ (by simp [h]) rfl rfl (by simp [h, wT])
      · exact measure_phase_step hb t .body _ (by simp [h]) rfl rfl (by simp [h, wT])
    · cases hs
  | tEnd t =>
    simp only [taskStep] at hs
    split at hs
    · rename_i hcond
      cases hs
      exact measure_phase_step hb t .ended _ (by simp [hcond.2]) rfl rfl (by simp [hcond.2, wT])
    · cases hs
  | tSetReady t =>
    simp only [taskStep] at hs
    split at hs
    · rename_i hcond
      cases hs
      exact measure_phase_step hb t .resReady _ (by simp [hcond.2]) rfl rfl (by simp [hcond.2, wT])
    · cases hs
  | tRemAcq t =>
    simp only [taskStep] at hs
    split at hs
    · rename_i hcond
      cases hs
      exact measure_phase_step hb t .removing _ (by simp [hcond.2.1]) rfl rfl (by simp [hcond.2.1, wT])
    · cases hs
  | tRemove t =>
    simp only [taskStep] at hs
    split at hs
    · rename_i hcond
      have hpp : a = .primary → s.pp = .run t := by
        intro ha; have := hcond.1; rw [ha] at this; simpa [canExec] using this
      split at hs <;> cases hs <;>
        (refine measure_phase_step hb t .done _ (by simp [hcond.2]) rfl rfl ?_
         simp only [hcond.2, wT]
         split
         · rename_i ha; simp [hpp ha, wP]
         · omega)
    · cases hs
  | _ => simp [taskStep] at hs

/-- every step of the primary thread's loop decreases the measure -/
theorem measure_prim {c : Config} {s s' : State} {act : Action} {N : Nat} (hc : c.old = false) (inv : Inv c s)
    (hb : Bounded N s) (hs : primStep c s act = some s') :
    measure N s' < measure N s ∧ Bounded N s' := by
  cases act with
  | pWait =>
    simp only [primStep] at hs
    split at hs
    · rename_i hcond; cases hs
      exact measure_pp_step hb _ rfl rfl (by simp [hcond.1, wP])
    · cases hs
  | pRead =>
    simp only [primStep] at hs
    split at hs
    · rename_i hcond
      split at hs
      · cases hs; exact measure_pp_step hb _ rfl rfl (by simp [hcond, wP])
      · rename_i t hm
        cases hs
        have hin := inv.rdFresh (Or.inl hcond) (inv.rdReady hcond) t hm
        exact measure_phase_step hb t .inHand _ (by simp [hin]) rfl rfl (by simp [hin, hcond, wT, wP])
    · cases hs
  | pChkAcq =>
    simp only [primStep] at hs
    split at hs
    · rename_i t hpp
      split at hs
      · cases hs; exact measure_pp_step hb _ rfl rfl (by simp [hpp, wP])
      · cases hs
    · cases hs
  | pCheck =>
    simp only [primStep, hc, Bool.false_eq_true, ↓reduceIte] at hs
    split at hs
    · rename_i t hpp
      repeat' split at hs
      all_goals (cases hs; exact measure_pp_step hb _ rfl rfl (by simp [hpp, wP]))
    · cases hs
  | pLeave =>
    simp only [primStep] at hs
    split at hs
    · rename_i hcond; cases hs
      exact measure_pp_step hb _ rfl rfl (by simp [hcond, wP])
    · cases hs
  | _ => simp [primStep] at hs

theorem measure_step {c : Config} {s s' : State} {a : Agent × Action} {N : Nat} (hc : c.old = false) (inv : Inv c s)
    (hb : Bounded N s) (hcall : a.2.isCall = false) (hs : step c s a = some s') :
    measure N s' < measure N s ∧ Bounded N s' := by
  obtain ⟨ag, act⟩ := a
  cases ag with
  | user i => exact measure_user inv hb hcall hs
  | worker t => exact measure_task inv hb hs
  | primary =>
    simp only [step] at hs
    split at hs
    · exact measure_prim hc inv hb hs
    · exact measure_task inv hb hs

theorem bounded_init (c : Config) (N : Nat) : Bounded N (init c) :=
  ⟨fun _ _ => rfl, fun _ _ => rfl, fun i t h => by simp [init] at h⟩

/-- the start of a call by a client thread `i < N` (naming a task `t < N` if it is a `spawn`) keeps `N` a bound -/
theorem bounded_call {c : Config} {s s' : State} {i : Uid} {act : Action} {N : Nat} (hb : Bounded N s) (hi : i < N)
    (ht : ∀ t, act = .spawnAcq t → t < N) (hcall : act.isCall = true) (hs : step c s (.user i, act) = some s') :
    Bounded N s' := by
  cases act <;> simp [Action.isCall] at hcall <;> simp only [step, userStep] at hs
  all_goals (split at hs <;> first | (cases hs; done) | skip)
  all_goals (
    cases hs
    refine ⟨fun j hj => ?_, fun t' ht' => hb.tasks t' ht', fun j t' hjt => ?_⟩
    · have : j ≠ i := fun h => by rw [h] at hj; exact Nat.lt_irrefl _ (Nat.lt_of_lt_of_le hi hj)
      simp [upd, this]; exact hb.users j hj
    · simp only [upd] at hjt
      split at hjt
      · first
        | (cases hjt; exact ht _ rfl)
        | cases hjt
      · exact hb.fresh j t' hjt)

/-- a run of `n` steps none of which starts a new call consumes at least `n` units of the measure -/
theorem measure_run {c : Config} {N : Nat} (hc : c.old = false) (l : List (Agent × Action)) :
    ∀ {s s' : State}, Reachable c s → Bounded N s → (∀ a, a ∈ l → a.2.isCall = false) →
      runSteps c s l = some s' → l.length + measure N s' ≤ measure N s := by
  induction l with
  | nil => intro s s' _ _ _ hr; simp [runSteps] at hr; subst hr; simp
  | cons a rest ih =>
    intro s s' hreach hb hall hr
    simp only [runSteps] at hr
    split at hr
    · rename_i s1 hs1
      have h1 := measure_step hc (inv_reachable hc hreach) hb (hall a (by simp)) hs1
      have h2 := ih (Reachable.step hreach hs1) h1.2 (fun b hb' => hall b (by simp [hb'])) hr
      simp only [List.length_cons]
      omega
    · cases hr

end ExecnetVerif.Pool
