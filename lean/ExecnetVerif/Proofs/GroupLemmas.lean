/-
Helper lemmas for C20 (Group part): the inductive invariant of id reservation/registration over all
schedules of the micro-steps of `Model/Group.lean`.
-/
import ExecnetVerif.Model.Group
import Std.Data.String.ToNat
namespace ExecnetVerif.Group

theorem autoId_inj {m n : Nat} (h : autoId m = autoId n) : m = n := by
  simp only [autoId, List.cons.injEq, true_and] at h
  exact Nat.repr_injective (String.toList_injective h)

/-- thread program counter `pc` is inside makegateway with id `i` -/
def holds (pc : Pc) (i : Id) : Prop := pc = .reserved i ∨ pc = .created i

theorem not_holds_idle (i : Id) : ¬ holds .idle i := by
  rintro (h | h) <;> cases h

theorem holds_reserved {i j : Id} : holds (.reserved i) j ↔ i = j := by
  constructor
  · rintro (h | h)
    · cases h; rfl
    · cases h
  · rintro rfl; exact Or.inl rfl

theorem holds_created {i j : Id} : holds (.created i) j ↔ i = j := by
  constructor
  · rintro (h | h)
    · cases h
    · cases h; rfl
  · rintro rfl; exact Or.inr rfl

/-- the inductive invariant -/
structure Inv (g : State) : Prop where
  nodup : (g.liveIds ++ g.reserved).Nodup
  held : ∀ t i, holds (g.pcs t) i → i ∈ g.reserved
  excl : ∀ t u i, holds (g.pcs t) i → holds (g.pcs u) i → t = u
  autosNodup : g.autos.Nodup
  autosLt : ∀ a ∈ g.autos, ∃ n, n < g.counter ∧ a = autoId n
  objNodup : (g.live.map (·.obj)).Nodup
  objLt : ∀ w ∈ g.live, w.obj < g.serial

theorem inv_init : Inv init := by
  refine ⟨by simp [init, State.liveIds], ?_, ?_, by simp [init], by simp [init], by simp [init],
    by simp [init]⟩
  · intro t i h; exact absurd h (not_holds_idle i)
  · intro t u i h; exact absurd h (not_holds_idle i)

theorem taken_false {g : State} {i : Id} (h : g.taken i = false) :
    i ∉ g.reserved ∧ i ∉ g.liveIds := by
  simpa [State.taken] using h

theorem taken_true {g : State} {i : Id} (h : g.taken i = true) :
    i ∈ g.reserved ∨ i ∈ g.liveIds := by
  simpa [State.taken] using h

@[simp] theorem setPc_pcs (g : State) (t : Nat) (pc : Pc) (u : Nat) :
    (setPc g t pc).pcs u = if u = t then pc else g.pcs u := rfl
@[simp] theorem setPc_live (g : State) (t : Nat) (pc : Pc) : (setPc g t pc).live = g.live := rfl
@[simp] theorem setPc_liveIds (g : State) (t : Nat) (pc : Pc) : (setPc g t pc).liveIds = g.liveIds := rfl
@[simp] theorem setPc_reserved (g : State) (t : Nat) (pc : Pc) : (setPc g t pc).reserved = g.reserved := rfl
@[simp] theorem setPc_autos (g : State) (t : Nat) (pc : Pc) : (setPc g t pc).autos = g.autos := rfl
@[simp] theorem setPc_counter (g : State) (t : Nat) (pc : Pc) : (setPc g t pc).counter = g.counter := rfl
@[simp] theorem setPc_serial (g : State) (t : Nat) (pc : Pc) : (setPc g t pc).serial = g.serial := rfl

/-- a fresh auto id is not among those handed out before -/
theorem auto_fresh {g : State} (h : Inv g) : autoId g.counter ∉ g.autos := by
  intro hm
  obtain ⟨n, hn, he⟩ := h.autosLt _ hm
  have := autoId_inj he
  omega

/-- the state after a successful `_reserve_id` -/
def reserveSt (g : State) (t : Nat) (i : Id) : State :=
  setPc { g with reserved := g.reserved ++ [i] } t (.reserved i)

/-- reserving an id that is not taken, by an idle thread -/
theorem inv_reserve {g : State} (h : Inv g) (t : Nat) (i : Id) (_hidle : g.pcs t = .idle)
    (hfree : g.taken i = false) :
    ((reserveSt g t i).liveIds ++ (reserveSt g t i).reserved).Nodup ∧
    (∀ u j, holds ((reserveSt g t i).pcs u) j → j ∈ (reserveSt g t i).reserved) ∧
    (∀ u v j, holds ((reserveSt g t i).pcs u) j → holds ((reserveSt g t i).pcs v) j → u = v) := by
  unfold reserveSt
  obtain ⟨hr, hl⟩ := taken_false hfree
  refine ⟨?_, ?_, ?_⟩
  · show (g.liveIds ++ (g.reserved ++ [i])).Nodup
    rw [← List.append_assoc]
    rw [List.nodup_append]
    refine ⟨h.nodup, by simp, ?_⟩
    intro a ha b hb
    simp only [List.mem_singleton] at hb
    subst hb
    rintro rfl
    simp only [List.mem_append] at ha
    rcases ha with ha | ha
    · exact hl ha
    · exact hr ha
  · intro u j hj
    simp only [setPc_pcs] at hj
    by_cases hu : u = t
    · simp only [hu, if_true] at hj
      rw [holds_reserved] at hj; subst hj; simp
    · simp only [hu, if_false] at hj
      exact List.mem_append_left [i] (h.held u j hj)
  · intro u v j hu hv
    simp only [setPc_pcs] at hu hv
    by_cases hut : u = t <;> by_cases hvt : v = t
    · rw [hut, hvt]
    · simp only [hut, if_true, hvt, if_false] at hu hv
      rw [holds_reserved] at hu; subst hu
      exact absurd (h.held v _ hv) hr
    · simp only [hut, if_false, hvt, if_true] at hu hv
      rw [holds_reserved] at hv; subst hv
      exact absurd (h.held u _ hu) hr
    · simp only [hut, if_false, hvt] at hu hv
      exact h.excl u v j hu hv

/-- releasing the reservation held by thread `t` -/
theorem inv_release {g : State} (h : Inv g) (t : Nat) (i : Id) (hpc : holds (g.pcs t) i) :
    (∀ u j, holds ((setPc { g with reserved := g.reserved.erase i } t .idle).pcs u) j →
        j ∈ g.reserved.erase i) ∧
    (∀ u v j, holds ((setPc { g with reserved := g.reserved.erase i } t .idle).pcs u) j →
        holds ((setPc { g with reserved := g.reserved.erase i } t .idle).pcs v) j → u = v) := by
  refine ⟨?_, ?_⟩
  · intro u j hj
    simp only [setPc_pcs] at hj
    by_cases hu : u = t
    · simp only [hu, if_true] at hj; exact absurd hj (not_holds_idle j)
    · simp only [hu, if_false] at hj
      have hne : j ≠ i := by
        rintro rfl; exact hu (h.excl u t j hj hpc)
      exact (List.mem_erase_of_ne hne).2 (h.held u j hj)
  · intro u v j hu hv
    simp only [setPc_pcs] at hu hv
    by_cases hut : u = t
    · simp only [hut, if_true] at hu; exact absurd hu (not_holds_idle j)
    · by_cases hvt : v = t
      · simp only [hvt, if_true] at hv; exact absurd hv (not_holds_idle j)
      · simp only [hut, if_false, hvt] at hu hv
        exact h.excl u v j hu hv

theorem nodup_erase_right {A R : List Id} (i : Id) (h : (A ++ R).Nodup) : (A ++ R.erase i).Nodup :=
  List.Nodup.sublist (List.Sublist.append (List.Sublist.refl A) (List.erase_sublist)) h

theorem nodup_move {A R : List Id} {i : Id} (hi : i ∈ R) (h : (A ++ R).Nodup) :
    ((A ++ [i]) ++ R.erase i).Nodup := by
  have hp : (A ++ R).Perm ((A ++ [i]) ++ R.erase i) := by
    rw [List.append_assoc]
    exact List.Perm.append_left A (List.perm_cons_erase hi)
  exact hp.nodup h

/-- a thread about to register finds its id not live: the ValueError branch of `_register` is
unreachable from `makegateway` -/
theorem created_not_live {g : State} (h : Inv g) (t : Nat) (i : Id) (hpc : g.pcs t = .created i) :
    g.liveIds.contains i = false := by
  have hm := h.held t i (Or.inr hpc)
  have := h.nodup
  rw [List.nodup_append] at this
  have hd := this.2.2
  simp only [List.contains_eq_mem, decide_eq_false_iff_not]
  intro hl
  exact hd i hl i hm rfl

theorem inv_step {g : State} (h : Inv g) (t : Nat) (op : Op) : Inv (step g t op).1 := by
  cases op with
  | allocAuto =>
    simp only [step]
    cases hpc : g.pcs t with
    | idle =>
      simp only
      cases htk : g.taken (autoId g.counter) with
      | true =>
        simp only [if_true]
        exact ⟨h.nodup, h.held, h.excl, h.autosNodup,
          fun a ha => by obtain ⟨n, hn, he⟩ := h.autosLt a ha; exact ⟨n, by simp; omega, he⟩,
          h.objNodup, h.objLt⟩
      | false =>
        simp only [Bool.false_eq_true, if_false]
        refine ⟨h.nodup, h.held, h.excl, ?_, ?_, h.objNodup, h.objLt⟩
        · show (g.autos ++ [autoId g.counter]).Nodup
          rw [List.nodup_append]
          refine ⟨h.autosNodup, by simp, ?_⟩
          intro a ha b hb
          simp only [List.mem_singleton] at hb
          subst hb; rintro rfl
          exact auto_fresh h ha
        · intro a ha
          have ha' : a ∈ g.autos ++ [autoId g.counter] := ha
          simp only [List.mem_append, List.mem_singleton] at ha'
          rcases ha' with ha' | rfl
          · obtain ⟨n, hn, he⟩ := h.autosLt a ha'; exact ⟨n, by simp; omega, he⟩
          · exact ⟨g.counter, by simp, rfl⟩
    | reserved i => exact h
    | created i => exact h
  | beginAuto =>
    simp only [step]
    cases hpc : g.pcs t with
    | idle =>
      simp only
      cases htk : g.taken (autoId g.counter) with
      | true =>
        simp only [if_true]
        exact ⟨h.nodup, h.held, h.excl, h.autosNodup,
          fun a ha => by obtain ⟨n, hn, he⟩ := h.autosLt a ha; exact ⟨n, by simp; omega, he⟩,
          h.objNodup, h.objLt⟩
      | false =>
        simp only [Bool.false_eq_true, if_false]
        obtain ⟨h1, h2, h3⟩ := inv_reserve h t (autoId g.counter) hpc htk
        refine ⟨h1, h2, h3, ?_, ?_, h.objNodup, h.objLt⟩
        · show (g.autos ++ [autoId g.counter]).Nodup
          rw [List.nodup_append]
          refine ⟨h.autosNodup, by simp, ?_⟩
          intro a ha b hb
          simp only [List.mem_singleton] at hb
          subst hb; rintro rfl
          exact auto_fresh h ha
        · intro a ha
          have ha' : a ∈ g.autos ++ [autoId g.counter] := ha
          simp only [List.mem_append, List.mem_singleton] at ha'
          rcases ha' with ha' | rfl
          · obtain ⟨n, hn, he⟩ := h.autosLt a ha'
            exact ⟨n, by show n < g.counter + 1; omega, he⟩
          · exact ⟨g.counter, by show g.counter < g.counter + 1; omega, rfl⟩
    | reserved i => exact h
    | created i => exact h
  | beginExplicit i =>
    simp only [step]
    cases hpc : g.pcs t with
    | idle =>
      simp only
      cases htk : g.taken i with
      | true => simpa using h
      | false =>
        simp only [Bool.false_eq_true, if_false]
        obtain ⟨h1, h2, h3⟩ := inv_reserve h t i hpc htk
        exact ⟨h1, h2, h3, h.autosNodup, h.autosLt, h.objNodup, h.objLt⟩
    | reserved j => exact h
    | created j => exact h
  | createOk =>
    simp only [step]
    cases hpc : g.pcs t with
    | idle => exact h
    | created j => exact h
    | reserved i =>
      simp only
      have key : ∀ u j, holds ((setPc g t (.created i)).pcs u) j → holds (g.pcs u) j := by
        intro u j hj
        simp only [setPc_pcs] at hj
        by_cases hu : u = t
        · simp only [hu, if_true] at hj
          rw [holds_created] at hj; subst hj
          rw [hu, hpc]; exact Or.inl rfl
        · simpa [hu] using hj
      exact ⟨h.nodup, fun u j hj => h.held u j (key u j hj),
        fun u v j hu hv => h.excl u v j (key u j hu) (key v j hv),
        h.autosNodup, h.autosLt, h.objNodup, h.objLt⟩
  | createFail =>
    simp only [step]
    cases hpc : g.pcs t with
    | idle => exact h
    | created j => exact h
    | reserved i =>
      simp only
      obtain ⟨h2, h3⟩ := inv_release h t i (by rw [hpc]; exact Or.inl rfl)
      exact ⟨nodup_erase_right i h.nodup, h2, h3, h.autosNodup, h.autosLt, h.objNodup, h.objLt⟩
  | register =>
    simp only [step]
    cases hpc : g.pcs t with
    | idle => exact h
    | reserved j => exact h
    | created i =>
      simp only
      have hnl := created_not_live h t i hpc
      simp only [hnl, Bool.false_eq_true, if_false]
      obtain ⟨h2, h3⟩ := inv_release h t i (by rw [hpc]; exact Or.inr rfl)
      have hm := h.held t i (Or.inr hpc)
      refine ⟨?_, ?_, ?_, h.autosNodup, h.autosLt, ?_, ?_⟩
      · show ((g.live ++ [(⟨i, g.serial⟩ : Gw)]).map Gw.id ++ g.reserved.erase i).Nodup
        simp only [List.map_append, List.map_cons, List.map_nil]
        exact nodup_move hm h.nodup
      · exact h2
      · exact h3
      · show ((g.live ++ [(⟨i, g.serial⟩ : Gw)]).map Gw.obj).Nodup
        simp only [List.map_append, List.map_cons, List.map_nil]
        rw [List.nodup_append]
        refine ⟨h.objNodup, by simp, ?_⟩
        intro a ha b hb
        simp only [List.mem_singleton] at hb
        subst hb; rintro rfl
        obtain ⟨w, hw, he⟩ := List.mem_map.1 ha
        have := h.objLt w hw
        omega
      · intro w hw
        have hw' : w ∈ g.live ++ [(⟨i, g.serial⟩ : Gw)] := hw
        simp only [List.mem_append, List.mem_singleton] at hw'
        show w.obj < g.serial + 1
        rcases hw' with hw' | rfl
        · have := h.objLt w hw'; omega
        · simp
  | unregister o =>
    simp only [step]
    cases hany : g.live.any (·.obj == o) with
    | false => simpa using h
    | true =>
      simp only [if_true]
      have hsub : (g.live.filter (·.obj != o)).Sublist g.live := List.filter_sublist
      refine ⟨?_, h.held, h.excl, h.autosNodup, h.autosLt, ?_, ?_⟩
      · show ((g.live.filter (·.obj != o)).map (·.id) ++ g.reserved).Nodup
        exact List.Nodup.sublist
          (List.Sublist.append (hsub.map _) (List.Sublist.refl _)) h.nodup
      · exact List.Nodup.sublist (hsub.map _) h.objNodup
      · intro w hw
        exact h.objLt w (hsub.subset hw)

theorem inv_run : ∀ (sched : List (Nat × Op)) (g : State), Inv g → Inv (run g sched).1
  | [], _, h => h
  | (t, op) :: rest, g, h => by
    simp only [run]
    exact inv_run rest _ (inv_step h t op)

theorem inv_reachable {g : State} (h : Reachable g) : Inv g := by
  obtain ⟨sched, rfl⟩ := h
  exact inv_run sched init inv_init

end ExecnetVerif.Group
