"""C12 — serialized byte format is stable and version-compatible (DESIGN.md §4 C12)."""
from __future__ import annotations

import os
import struct
import subprocess

from . import common, pyval

REL_WORKER = r'''
import sys, io
import execnet
assert "site-packages" in execnet.__file__, execnet.__file__
sys.path.insert(0, sys.argv[1])
from harness import pyval
for line in sys.stdin:
    cmd, _, arg = line.rstrip("\n").partition(" ")
    try:
        if cmd == "dumps":
            v = pyval.build_line(arg)
            print("ok " + pyval.hexs(execnet.dumps(v)) + " | " + pyval.render(v))
        else:
            mode, h = arg.split()
            v = execnet.loads(pyval.unhex(h), py2str_as_py3str=mode[0] == "1", py3str_as_py2str=mode[1] == "1")
            print("ok " + pyval.render(v))
    except BaseException as e:
        print("err " + type(e).__name__)
    sys.stdout.flush()
'''


class Released:
    """the released execnet (site-packages) as an independent second implementation"""

    def __init__(self):
        env = {k: v for k, v in os.environ.items() if k != "PYTHONPATH"}
        self.p = subprocess.Popen(["/venv/bin/python", "-c", REL_WORKER, common.VERIF], stdin=subprocess.PIPE,
                                  stdout=subprocess.PIPE, env=env, cwd="/")

    def ask(self, line):
        self.p.stdin.write((line + "\n").encode())
        self.p.stdin.flush()
        return self.p.stdout.readline().decode().rstrip("\n")

    def close(self):
        try:
            self.p.stdin.close()
            self.p.wait(5)
        except Exception:
            self.p.kill()


# --- an independent reference encoder for *legacy* (Python 2 written) streams, from the format description
def ref_legacy(node):
    """node: ('str2', bytes) 'M' | ('uni', str) 'S' | ('long', int) 'G'/'I' | ('py3', str) 'N' | ('int', n) | ('list', [..]) | ('tuple', [..]) | ('dict', [(k, v)..])"""
    k = node[0]
    if k == "str2":
        return b"M" + struct.pack("!i", len(node[1])) + node[1]
    if k == "uni":
        b = node[1].encode("utf-8")
        return b"S" + struct.pack("!i", len(b)) + b
    if k == "py3":
        b = node[1].encode("utf-8")
        return b"N" + struct.pack("!i", len(b)) + b
    if k == "long":
        n = node[1]
        if -(2**31) <= n <= 2**31 - 1:
            return b"G" + struct.pack("!i", n)
        t = str(n).encode("ascii")
        return b"I" + struct.pack("!i", len(t)) + t
    if k == "int":
        return b"F" + struct.pack("!i", node[1])
    if k == "list":
        out = b"K" + struct.pack("!i", len(node[1]))
        for i, x in enumerate(node[1]):
            out += b"F" + struct.pack("!i", i) + ref_legacy(x) + b"P"
        return out
    if k == "tuple":
        return b"".join(ref_legacy(x) for x in node[1]) + b"@" + struct.pack("!i", len(node[1]))
    if k == "dict":
        out = b"J"
        for a, b in node[1]:
            out += ref_legacy(a) + ref_legacy(b) + b"P"
        return out
    raise ValueError(k)


def expect_legacy(node, a, b):
    """what a conforming reader returns under (py2str_as_py3str=a, py3str_as_py2str=b)"""
    k = node[0]
    if k == "str2":
        return node[1].decode("latin-1") if a else node[1]
    if k == "uni":
        return node[1]
    if k == "py3":
        return node[1].encode("utf-8") if b else node[1]
    if k in ("long", "int"):
        return node[1]
    if k == "list":
        return [expect_legacy(x, a, b) for x in node[1]]
    if k == "tuple":
        return tuple(expect_legacy(x, a, b) for x in node[1])
    if k == "dict":
        return {expect_legacy(x, a, b): expect_legacy(y, a, b) for x, y in node[1]}


def gen_legacy(rng, depth=0):
    k = rng.random()
    if depth > 2 or k < 0.6:
        c = rng.choice(["str2", "str2", "uni", "long", "long", "py3", "int"])
        if c == "str2":
            return ("str2", bytes(rng.choice([0x41, 0x7F, 0x80, 0xE9, 0xFF, 0x00, 0x20]) for _ in range(rng.choice([0, 1, 2, 5]))))
        if c in ("uni", "py3"):
            return (c, "".join(chr(rng.choice([0x41, 0xE9, 0x20AC, 0x1F600, 0, 0x7F, 0x80])) for _ in range(rng.choice([0, 1, 3]))))
        if c == "long":
            return ("long", rng.choice([0, 1, -1, 2**31 - 1, -(2**31), 2**31, -(2**31) - 1, 2**64, -(10**30), rng.getrandbits(70)]))
        return ("int", rng.randint(-5, 5))
    c = rng.choice(["list", "tuple", "dict"])
    if c == "dict":
        items = []
        seen = set()
        for _ in range(rng.choice([0, 1, 2])):
            key = gen_legacy(rng, 3)
            if repr(key) in seen:
                continue
            seen.add(repr(key))
            items.append((key, gen_legacy(rng, depth + 1)))
        return ("dict", items)
    return (c, [gen_legacy(rng, depth + 1) for _ in range(rng.choice([0, 1, 2, 3]))])


def vectors_path():
    return os.path.join(common.VERIF, "corpus", "C12", "vectors.txt")


def run(ctx, n=None):
    res = common.Result()
    res.rule = ("three-way byte comparison (repo dumps / Lean frozen spec / released execnet 2.1.2 where it accepts the value) on generated values; "
                "reference-encoded legacy streams (py2 str/unicode/long) loaded under all 4 coercion settings via loads, load, Channel.reconfigure "
                "and Gateway.reconfigure; frozen vector file first; distinct = distinct rendered value or stream; non-trivial = container or boundary leaf")
    execnet = ctx.execnet
    rng = ctx.rng("c12")
    # 0. frozen vectors (protect the spec itself against edits): "<tokens> => <hex>"
    vec = []
    for line in open(vectors_path()):
        line = line.strip()
        if not line or line.startswith("#"):
            continue
        toks, _, hx = line.partition(" => ")
        vec.append((toks, hx))
    outs = ctx.driver.ask(["ser.dumps " + t for t, _ in vec])
    for (toks, hx), out in zip(vec, outs):
        res.count(("vec", toks))
        v = pyval.build_line(toks)
        got = execnet.dumps(v).hex()
        if got != hx:
            res.violations.append(dict(case={"tokens": toks, "origin": "frozen-vector"}, what="dumps output differs from the frozen format-2 vector", impl=got, expected=hx))
        if out != "ok " + hx:
            res.mismatches.append(dict(op="ser.dumps(frozen vector)", case=toks, model=out, expected=hx))
    # the suite's legacy vector
    if execnet.loads(b"\x02M\x00\x00\x00\x01aQ", py2str_as_py3str=True) != "a" or execnet.loads(b"\x02M\x00\x00\x00\x01aQ", py2str_as_py3str=False) != b"a":
        res.violations.append(dict(case={"hex": "024d0000000161" "51", "origin": "legacy-vector"}, what="py2 str vector not loaded as documented"))
    # 1. three-way on generated values
    n = n or ctx.budget(1500, 60000, 8000)
    rel = Released()
    try:
        items = []
        rel_items = []
        for i in range(n):
            g = pyval.Gen(rng, max_depth=4, max_size=rng.choice([4, 15, 40]))
            v = g.value()
            line = pyval.render(v)
            res.count(line, nontrivial=pyval.is_nontrivial(v))
            try:
                b = execnet.dumps(v)
            except Exception as e:  # C01 judges acceptance; here only the bytes matter
                res.stat("repo_rejects_" + type(e).__name__)
                continue
            items.append((line, b))
            if i % 3 == 0:
                r = rel.ask("dumps " + line)
                if r.startswith("ok "):
                    res.stat("released_compared")
                    rhex, _, rline = r[3:].partition(" | ")
                    # sets may iterate in another order in the other process: the released bytes are compared
                    # with the frozen spec applied to the released process's own rendering (below)
                    rel_items.append((rline, rhex))
                    if rline == line and rhex != pyval.hexs(b):
                        res.violations.append(dict(case={"tokens": line, "origin": "released-2.1.2"}, what="dumps bytes differ from the released execnet 2.1.2 (format shift)", impl=pyval.hexs(b), expected=rhex))
                    # and the released reader loads our bytes to the same value
                    r2 = rel.ask("loads 00 " + pyval.hexs(b))
                    if not r2.startswith("ok ") or pyval.parse_line(r2[3:]) != pyval.parse_line(line):
                        res.violations.append(dict(case={"tokens": line, "origin": "released-2.1.2"}, what="released execnet 2.1.2 does not load our dump to the same value", impl=r2[:200]))
                else:
                    res.stat("released_rejects")  # e.g. ints < -2**31 (struct.error in 2.1.2)
            res.sample(line[:160])
        outs = ctx.driver.ask(["ser.dumps " + line for line, _ in items])
        for (line, b), out in zip(items, outs):
            if out != "ok " + pyval.hexs(b):
                # the Lean encoder is the frozen spec: a difference is a violation of the format
                res.violations.append(dict(case={"tokens": line[:600], "origin": "spec"}, what="dumps bytes differ from the frozen format-2 specification", impl=pyval.hexs(b)[:400], expected=out[:400]))
            else:
                res.traces += 1
        outs = ctx.driver.ask(["ser.dumps " + line for line, _ in rel_items])
        for (line, hx), out in zip(rel_items, outs):
            if out != "ok " + hx:
                res.mismatches.append(dict(op="released 2.1.2 dumps vs frozen spec", case=line[:400], released=hx[:300], model=out[:300]))
            else:
                res.traces += 1
        # 2. legacy streams under the four coercion settings
        m = ctx.budget(250, 8000, 1500)
        legacy = []
        for i in range(m):
            node = gen_legacy(rng)
            stream = b"\x02" + ref_legacy(node) + b"Q"
            for a in (False, True):
                for bflag in (False, True):
                    res.count(("legacy", stream, a, bflag))
                    try:
                        exp = expect_legacy(node, a, bflag)
                    except TypeError:
                        continue  # unhashable key under this coercion: not a conforming stream
                    case = {"hex": stream.hex(), "flags": [a, bflag], "origin": "legacy"}
                    try:
                        got = execnet.loads(stream, py2str_as_py3str=a, py3str_as_py2str=bflag)
                        import io
                        got2 = execnet.load(io.BytesIO(stream), py2str_as_py3str=a, py3str_as_py2str=bflag)
                    except Exception as e:
                        res.violations.append(dict(case=case, what="legacy stream failed to load: %r" % (e,)))
                        continue
                    if pyval.canon(got) != pyval.canon(exp) or pyval.canon(got2) != pyval.canon(exp):
                        res.violations.append(dict(case=case, what="legacy stream loaded to a different value than the format documents", impl=repr(got)[:200], expected=repr(exp)[:200]))
                    legacy.append((stream, a, bflag, exp))
            if i % 5 == 0:
                r = rel.ask("loads 10 " + stream.hex())
                try:
                    e10 = expect_legacy(node, True, False)
                    if not r.startswith("ok ") or pyval.parse_line(r[3:]) != pyval.canon(e10):
                        res.mismatches.append(dict(op="released loads legacy", hex=stream.hex(), released=r[:200], expected=repr(e10)[:200]))
                except TypeError:
                    pass
        outs = ctx.driver.ask(["ser.loads %d%d0 %s" % (a, b, s.hex()) for s, a, b, _ in legacy])
        for (s, a, b, exp), out in zip(legacy, outs):
            if not out.startswith("ok ") or pyval.parse_line(out[3:]) != pyval.canon(exp):
                res.mismatches.append(dict(op="ser.loads legacy", hex=s.hex(), flags=[a, b], model=out[:200], expected=repr(exp)[:200]))
            else:
                res.traces += 1
        # foreign version bytes
        for vb in (0, 1, 3, 255):
            res.count(("version", vb))
            try:
                execnet.loads(bytes([vb]) + b"LQ")
                res.violations.append(dict(case={"hex": bytes([vb]).hex() + "4c51", "origin": "version"}, what="foreign version byte accepted"))
            except execnet.DataFormatError:
                pass
            except Exception as e:
                res.violations.append(dict(case={"hex": bytes([vb]).hex() + "4c51", "origin": "version"}, what="foreign version byte raised %r, not DataFormatError" % (e,)))
    finally:
        rel.close()
    # 3. strconfig plumbing of channels and gateways over a real gateway
    plumbing(ctx, res)
    return res


def plumbing(ctx, res):
    execnet = ctx.execnet
    group = execnet.Group()
    raw = {"M": b"M\x00\x00\x00\x02a\xe9Q", "N": b"N\x00\x00\x00\x03a\xc3\xa9Q", "S": b"S\x00\x00\x00\x03a\xc3\xa9Q", "G": b"G\x00\x00\x00\x07Q",
           "I": b"I\x00\x00\x00\x0212Q"}
    src = """
import struct
from execnet.gateway_base import Message
raw = channel.receive()
for key in sorted(raw):
    channel.gateway._send(Message.CHANNEL_DATA, channel.id, raw[key])
"""
    try:
        gw = group.makegateway("popen")
        for via in ("channel", "gateway", "default"):
            for a in (False, True):
                for b in (False, True):
                    if via == "default" and (a, b) != (True, False):
                        continue
                    if via == "gateway":
                        gw.reconfigure(py2str_as_py3str=a, py3str_as_py2str=b)
                    ch = gw.remote_exec(src)
                    if via == "channel":
                        ch.reconfigure(py2str_as_py3str=a, py3str_as_py2str=b)
                    ch.send(raw)
                    got = {k: ch.receive(10) for k in sorted(raw)}
                    ch.waitclose(10)
                    exp = {"M": "a\xe9" if a else b"a\xe9", "N": b"a\xc3\xa9" if b else "a\xe9", "S": "a\xe9", "G": 7, "I": 12}
                    exp = {k: exp[k] for k in sorted(exp)}
                    res.count(("plumbing", via, a, b))
                    if pyval.canon(got) != pyval.canon(exp):
                        res.violations.append(dict(case={"via": via, "flags": [a, b], "origin": "reconfigure"}, what="string coercion switches not applied as documented through %s.reconfigure" % via,
                                                   impl=repr(got), expected=repr(exp)))
            if via == "gateway":
                gw.reconfigure()  # back to the defaults
        # callbacks: the channel's CURRENT configuration governs what a callback receives, whether reconfigure()
        # came before or after setcallback(); a callback whose channel object was dropped keeps the configuration
        # it had when it was registered
        import time
        for order in ("reconfigure-then-setcallback", "setcallback-then-reconfigure", "setcallback-drop"):
            for a in (False, True):
                for b in (False, True):
                    ch = gw.remote_exec("channel.receive()\n" + src)
                    got = []
                    if order == "reconfigure-then-setcallback":
                        ch.reconfigure(py2str_as_py3str=a, py3str_as_py2str=b)
                        ch.setcallback(got.append, endmarker="<end>")
                    elif order == "setcallback-then-reconfigure":
                        ch.setcallback(got.append, endmarker="<end>")
                        ch.reconfigure(py2str_as_py3str=a, py3str_as_py2str=b)
                    else:
                        ch.reconfigure(py2str_as_py3str=a, py3str_as_py2str=b)
                        ch.setcallback(got.append, endmarker="<end>")
                    ch.send("go")
                    ch.send(raw)
                    if order == "setcallback-drop":
                        del ch
                    t0 = time.time()
                    while (not got or got[-1] != "<end>") and time.time() - t0 < 10:
                        time.sleep(0.01)
                    exp = {"M": "a\xe9" if a else b"a\xe9", "N": b"a\xc3\xa9" if b else "a\xe9", "S": "a\xe9", "G": 7, "I": 12}
                    exp = [exp[k] for k in sorted(exp)] + ["<end>"]
                    res.count(("plumbing-callback", order, a, b))
                    if [pyval.canon(x) for x in got] != [pyval.canon(x) for x in exp]:
                        res.violations.append(dict(case={"via": "callback", "order": order, "flags": [a, b], "origin": "reconfigure"},
                                                   what="a channel callback did not receive strings coerced by the channel's configuration (%s)" % order,
                                                   impl=repr(got), expected=repr(exp)))
    finally:
        group.terminate(timeout=2.0)


def search(ctx, prev):
    return run(ctx)


def replay(ctx, payload):
    res = common.Result()
    c = payload["case"]
    if "tokens" in c:
        v = pyval.build_line(c["tokens"])
        b = ctx.execnet.dumps(v)
        out = ctx.driver.ask(["ser.dumps " + pyval.render(v)])[0]
        res.count(c["tokens"])
        if out != "ok " + pyval.hexs(b):
            res.violations.append(dict(case=c, what="dumps bytes differ from the frozen format-2 specification", impl=b.hex(), expected=out))
    else:
        return run(ctx, n=50)
    return res
