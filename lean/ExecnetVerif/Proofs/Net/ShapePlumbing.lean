/-
Plumbing for the `Shape`/`Got` invariant proofs of the `Net` model: `State.side`/`State.set`,
`upd`, and field-frame lemmas of the helper functions (`createAt`, `registerAll`, `noLongerOpened`,
`localClose`, `doClose`, `chanClose`, `epilogue`) for the fields `chans got kept broken cbs`.
-/
import ExecnetVerif.Proofs.Net.Defs
namespace ExecnetVerif.Net.SP
open ExecnetVerif.Net

/-! ### sides -/

@[simp] theorem Side.peer_ne (s : Side) : s.peer ≠ s := by cases s <;> decide
@[simp] theorem Side.ne_peer (s : Side) : s ≠ s.peer := by cases s <;> decide
@[simp] theorem Side.peer_peer (s : Side) : s.peer.peer = s := by cases s <;> rfl

theorem Side.eq_or_eq_peer (p s : Side) : p = s ∨ p = s.peer := by
  cases p <;> cases s <;> simp [Side.peer]

theorem State.side_set (st : State) (s p : Side) (x : SideSt) :
    (st.set s x).side p = if p = s then x else st.side p := by
  cases s <;> cases p <;> rfl

@[simp] theorem State.side_set_self (st : State) (s : Side) (x : SideSt) :
    (st.set s x).side s = x := by cases s <;> rfl

@[simp] theorem State.side_set_peer (st : State) (s : Side) (x : SideSt) :
    (st.set s x).side s.peer = st.side s.peer := by cases s <;> rfl

@[simp] theorem State.side_peer_set (st : State) (s : Side) (x : SideSt) :
    (st.set s.peer x).side s = st.side s := by cases s <;> rfl

theorem State.side_set_ne (st : State) {s p : Side} (x : SideSt) (h : p ≠ s) :
    (st.set s x).side p = st.side p := by
  cases s <;> cases p <;> first | rfl | exact absurd rfl h

@[simp] theorem State.side_A (st : State) : st.side .A = st.a := rfl
@[simp] theorem State.side_B (st : State) : st.side .B = st.b := rfl

/-! ### `upd` -/

theorem upd_apply {α : Type} (f : Nat → α) (k : Nat) (v : α) (i : Nat) :
    upd f k v i = if i = k then v else f i := rfl

@[simp] theorem upd_same {α : Type} (f : Nat → α) (k : Nat) (v : α) : upd f k v k = v := by
  simp [upd]

theorem upd_ne {α : Type} (f : Nat → α) {k i : Nat} (v : α) (h : i ≠ k) : upd f k v i = f i := by
  simp [upd, h]

/-! ### `createAt` / `registerAll` -/

@[simp] theorem createAt_got (x : SideSt) (id : Nat) : (createAt x id).got = x.got := rfl
@[simp] theorem createAt_kept (x : SideSt) (id : Nat) : (createAt x id).kept = x.kept := rfl
@[simp] theorem createAt_cbs (x : SideSt) (id : Nat) : (createAt x id).cbs = x.cbs := rfl
@[simp] theorem createAt_ioOpen (x : SideSt) (id : Nat) : (createAt x id).ioOpen = x.ioOpen := rfl
@[simp] theorem createAt_out (x : SideSt) (id : Nat) : (createAt x id).out = x.out := rfl
@[simp] theorem createAt_finished (x : SideSt) (id : Nat) : (createAt x id).finished = x.finished := rfl

theorem createAt_chans (x : SideSt) (id i : Nat) :
    (createAt x id).chans i = if i = id then createChan (x.chans id) else x.chans i := rfl

theorem createAt_broken (x : SideSt) (id i : Nat) :
    (createAt x id).broken i = if i = id then
      (x.broken id || (((x.chans id).created || x.ended id) && !(x.chans id).registered))
      else x.broken i := rfl

theorem createChan_of_registered {c : Chan} (h : c.registered = true) : createChan c = c := by
  simp [createChan, h]

theorem createChan_of_not_registered {c : Chan} (h : c.registered = false) :
    createChan c = { created := true, registered := true, alive := true } := by
  simp [createChan, h]

theorem createAt_chans_of_registered (x : SideSt) (id i : Nat) (h : (x.chans i).registered = true) :
    (createAt x id).chans i = x.chans i := by
  rw [createAt_chans]; split
  · subst i; exact createChan_of_registered h
  · rfl

theorem createAt_broken_of_registered (x : SideSt) (id i : Nat) (h : (x.chans i).registered = true) :
    (createAt x id).broken i = x.broken i := by
  rw [createAt_broken]; split
  · subst i; simp [h]
  · rfl

@[simp] theorem registerAll_nil (x : SideSt) : registerAll x [] = x := rfl
@[simp] theorem registerAll_cons (x : SideSt) (id : Nat) (ids : List Nat) :
    registerAll x (id :: ids) = registerAll (createAt x id) ids := rfl

/-- a property of a side that `createAt` preserves is preserved by `registerAll` -/
theorem registerAll_induction {P : SideSt → Prop} (hstep : ∀ x id, P x → P (createAt x id))
    (x : SideSt) (ids : List Nat) (h : P x) : P (registerAll x ids) := by
  induction ids generalizing x with
  | nil => exact h
  | cons id t ih => exact ih _ (hstep x id h)

@[simp] theorem registerAll_got (x : SideSt) (ids : List Nat) : (registerAll x ids).got = x.got :=
  registerAll_induction (P := fun y => y.got = x.got) (fun _ _ h => h) x ids rfl
@[simp] theorem registerAll_kept (x : SideSt) (ids : List Nat) : (registerAll x ids).kept = x.kept :=
  registerAll_induction (P := fun y => y.kept = x.kept) (fun _ _ h => h) x ids rfl
@[simp] theorem registerAll_cbs (x : SideSt) (ids : List Nat) : (registerAll x ids).cbs = x.cbs :=
  registerAll_induction (P := fun y => y.cbs = x.cbs) (fun _ _ h => h) x ids rfl
@[simp] theorem registerAll_ioOpen (x : SideSt) (ids : List Nat) :
    (registerAll x ids).ioOpen = x.ioOpen :=
  registerAll_induction (P := fun y => y.ioOpen = x.ioOpen) (fun _ _ h => h) x ids rfl
@[simp] theorem registerAll_out (x : SideSt) (ids : List Nat) : (registerAll x ids).out = x.out :=
  registerAll_induction (P := fun y => y.out = x.out) (fun _ _ h => h) x ids rfl
@[simp] theorem registerAll_finished (x : SideSt) (ids : List Nat) :
    (registerAll x ids).finished = x.finished :=
  registerAll_induction (P := fun y => y.finished = x.finished) (fun _ _ h => h) x ids rfl

/-- a registered record (and the `broken` flag of its id) is not touched by `registerAll` -/
theorem registerAll_of_registered (x : SideSt) (ids : List Nat) (i : Nat)
    (h : (x.chans i).registered = true) :
    (registerAll x ids).chans i = x.chans i ∧ (registerAll x ids).broken i = x.broken i := by
  induction ids generalizing x with
  | nil => exact ⟨rfl, rfl⟩
  | cons id t ih =>
    have h1 := createAt_chans_of_registered x id i h
    have h2 := createAt_broken_of_registered x id i h
    have := ih (createAt x id) (by rw [h1]; exact h)
    simp only [registerAll_cons]
    rw [this.1, this.2, h1, h2]; exact ⟨rfl, rfl⟩

/-- `broken` only grows under `createAt` / `registerAll` -/
theorem createAt_broken_mono (x : SideSt) (id i : Nat) (h : x.broken i = true) :
    (createAt x id).broken i = true := by
  rw [createAt_broken]; split
  · subst i; simp [h]
  · exact h

theorem registerAll_broken_mono (x : SideSt) (ids : List Nat) (i : Nat) (h : x.broken i = true) :
    (registerAll x ids).broken i = true := by
  induction ids generalizing x with
  | nil => exact h
  | cons id t ih => exact ih _ (createAt_broken_mono x id i h)

/-! ### `noLongerOpened`, `localClose`, `doClose`, `chanClose` -/

@[simp] theorem noLongerOpened_got (x : SideSt) (id : Nat) : (noLongerOpened x id).got = x.got := rfl
@[simp] theorem noLongerOpened_kept (x : SideSt) (id : Nat) : (noLongerOpened x id).kept = x.kept := rfl
@[simp] theorem noLongerOpened_broken (x : SideSt) (id : Nat) :
    (noLongerOpened x id).broken = x.broken := rfl
@[simp] theorem noLongerOpened_cbs (x : SideSt) (id : Nat) :
    (noLongerOpened x id).cbs = upd x.cbs id none := rfl
@[simp] theorem noLongerOpened_chans (x : SideSt) (id : Nat) :
    (noLongerOpened x id).chans = upd x.chans id { x.chans id with registered := false } := rfl

/-- the record `_local_close` leaves for a registered channel -/
def closedRec (c : Chan) (err : Option Nat) (sendonly : Bool) : Chan :=
  { c with rerrs := c.rerrs ++ err.toList, queue := pushEnd c.queue,
           closed := c.closed || !sendonly, rclosed := true, registered := false }

@[simp] theorem localClose_got (x : SideSt) (id : Nat) (err : Option Nat) (so : Bool) :
    (localClose x id err so).got = x.got := by simp only [localClose]; split <;> rfl
@[simp] theorem localClose_kept (x : SideSt) (id : Nat) (err : Option Nat) (so : Bool) :
    (localClose x id err so).kept = x.kept := by simp only [localClose]; split <;> rfl
@[simp] theorem localClose_broken (x : SideSt) (id : Nat) (err : Option Nat) (so : Bool) :
    (localClose x id err so).broken = x.broken := by simp only [localClose]; split <;> rfl
@[simp] theorem localClose_cbs (x : SideSt) (id : Nat) (err : Option Nat) (so : Bool) :
    (localClose x id err so).cbs = upd x.cbs id none := by simp only [localClose]; split <;> rfl

theorem localClose_chans (x : SideSt) (id : Nat) (err : Option Nat) (so : Bool) (i : Nat) :
    (localClose x id err so).chans i =
      if i = id then
        (if (x.chans id).registered then closedRec (x.chans id) err so
         else { x.chans id with registered := false })
      else x.chans i := by
  simp only [localClose]
  by_cases hr : (x.chans id).registered = true <;> by_cases hi : i = id <;>
    simp [hr, hi, upd, closedRec]

/-- the record `Channel.close` leaves -/
def userClosedRec (c : Chan) : Chan :=
  { c with closed := true, rclosed := true, queue := pushEnd c.queue, registered := false }

theorem doClose_fst (x : SideSt) (id : Nat) (f : Frame) :
    (doClose x id f).1 = .ok ∨ ((doClose x id f).1 = .osError ∧ (doClose x id f).2 = x) := by
  by_cases h1 : x.ioOpen = true <;> by_cases h2 : (x.chans id).rclosed = true <;>
    simp [doClose, h1, h2]

@[simp] theorem doClose_got (x : SideSt) (id : Nat) (f : Frame) : (doClose x id f).2.got = x.got := by
  by_cases h1 : x.ioOpen = true <;> by_cases h2 : (x.chans id).rclosed = true <;>
    simp [doClose, h1, h2]
@[simp] theorem doClose_kept (x : SideSt) (id : Nat) (f : Frame) : (doClose x id f).2.kept = x.kept := by
  by_cases h1 : x.ioOpen = true <;> by_cases h2 : (x.chans id).rclosed = true <;>
    simp [doClose, h1, h2]
@[simp] theorem doClose_broken (x : SideSt) (id : Nat) (f : Frame) :
    (doClose x id f).2.broken = x.broken := by
  by_cases h1 : x.ioOpen = true <;> by_cases h2 : (x.chans id).rclosed = true <;>
    simp [doClose, h1, h2]

theorem doClose_cbs (x : SideSt) (id : Nat) (f : Frame) :
    (doClose x id f).2.cbs = x.cbs ∨ (doClose x id f).2.cbs = upd x.cbs id none := by
  by_cases h1 : x.ioOpen = true <;> by_cases h2 : (x.chans id).rclosed = true <;>
    simp [doClose, h1, h2]

theorem doClose_chans (x : SideSt) (id : Nat) (f : Frame) (i : Nat) :
    (doClose x id f).2.chans i = x.chans i ∨
      (i = id ∧ (doClose x id f).2.chans i = userClosedRec (x.chans id)) := by
  by_cases hi : i = id <;> by_cases h1 : x.ioOpen = true <;>
    by_cases h2 : (x.chans id).rclosed = true <;>
    simp [doClose, h1, h2, hi, upd, userClosedRec]

theorem chanClose_eq (x : SideSt) (id : Nat) (err : Option Nat) :
    chanClose x id err =
      if (x.chans id).executing then (.osError, x)
      else if (x.chans id).closed then (.ok, x) else doClose x id (closeFrame id err) := rfl

@[simp] theorem chanClose_got (x : SideSt) (id : Nat) (err : Option Nat) :
    (chanClose x id err).2.got = x.got := by
  rw [chanClose_eq]; split; · rfl
  split; · rfl
  simp
@[simp] theorem chanClose_kept (x : SideSt) (id : Nat) (err : Option Nat) :
    (chanClose x id err).2.kept = x.kept := by
  rw [chanClose_eq]; split; · rfl
  split; · rfl
  simp
@[simp] theorem chanClose_broken (x : SideSt) (id : Nat) (err : Option Nat) :
    (chanClose x id err).2.broken = x.broken := by
  rw [chanClose_eq]; split; · rfl
  split; · rfl
  simp

theorem chanClose_cbs (x : SideSt) (id : Nat) (err : Option Nat) :
    (chanClose x id err).2.cbs = x.cbs ∨ (chanClose x id err).2.cbs = upd x.cbs id none := by
  rw [chanClose_eq]; split; · exact .inl rfl
  split; · exact .inl rfl
  exact doClose_cbs _ _ _

theorem chanClose_chans (x : SideSt) (id : Nat) (err : Option Nat) (i : Nat) :
    (chanClose x id err).2.chans i = x.chans i ∨
      (i = id ∧ (chanClose x id err).2.chans i = userClosedRec (x.chans id)) := by
  rw [chanClose_eq]; split; · exact .inl rfl
  split; · exact .inl rfl
  exact doClose_chans _ _ _ _

/-! ### `epilogue` -/

@[simp] theorem epilogue_got (x : SideSt) (b : Bool) : (epilogue x b).got = x.got := rfl
@[simp] theorem epilogue_kept (x : SideSt) (b : Bool) : (epilogue x b).kept = x.kept := rfl
@[simp] theorem epilogue_broken (x : SideSt) (b : Bool) : (epilogue x b).broken = x.broken := rfl
@[simp] theorem epilogue_cbs (x : SideSt) (b : Bool) : (epilogue x b).cbs = fun _ => none := rfl

/-- the record the receiver epilogue leaves for a registered channel -/
def eofRec (c : Chan) : Chan :=
  { c with queue := pushEnd c.queue, registered := false, rclosed := true }

theorem epilogue_chans (x : SideSt) (b : Bool) (i : Nat) :
    (epilogue x b).chans i = if (x.chans i).registered then eofRec (x.chans i) else x.chans i := rfl

end ExecnetVerif.Net.SP
