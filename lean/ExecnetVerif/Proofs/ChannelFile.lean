/-
Helper lemmas for C19: the reader state machine of `ChannelFileRead` refines a file over the
concatenation of the items.  Abstraction function: `Reader.pending` (buffer ++ queued items, flattened)
corresponds to `File.rem` (data from the position on).
-/
import ExecnetVerif.Model.ChannelFile
namespace ExecnetVerif
namespace ChannelFile

set_option linter.unusedSectionVars false

variable {α : Type} [DecidableEq α]

/-! ### list facts -/

theorem drop_length_take (l : List α) (n : Nat) : l.drop (l.take n).length = l.drop n := by
  rw [List.length_take]
  by_cases h : n ≤ l.length
  · rw [Nat.min_eq_left h]
  · have h' : l.length ≤ n := by omega
    rw [Nat.min_eq_right h', List.drop_length, List.drop_eq_nil_of_le h']

theorem takeLine_nil (nl : α) : takeLine nl ([] : List α) = [] := rfl

theorem takeLine_cons_nl (nl : α) (xs : List α) : takeLine nl (nl :: xs) = [nl] := by
  simp [takeLine]

theorem takeLine_cons_ne (nl x : α) (xs : List α) (h : x ≠ nl) :
    takeLine nl (x :: xs) = x :: takeLine nl xs := by
  simp [takeLine, h]

/-- a line is a prefix of the data -/
theorem takeLine_prefix (nl : α) : ∀ l : List α, takeLine nl l = l.take (takeLine nl l).length
  | [] => rfl
  | x :: xs => by
    by_cases h : x = nl
    · subst h; simp [takeLine]
    · rw [takeLine_cons_ne nl x xs h]
      simp only [List.length_cons, List.take_succ_cons]
      rw [← takeLine_prefix nl xs]

theorem find?_none_not_mem (nl : α) : ∀ b : List α, find? nl b = none → nl ∉ b
  | [], _ => by simp
  | x :: xs, h => by
    by_cases hx : x = nl
    · simp [find?, hx] at h
    · simp only [find?, hx, if_false, Option.map_eq_none_iff] at h
      have := find?_none_not_mem nl xs h
      simp only [List.mem_cons, not_or]
      exact ⟨fun e => hx e.symm, this⟩

/-- newline not in the buffer: the line continues into what follows -/
theorem takeLine_append_of_not_mem (nl : α) : ∀ (b R : List α), nl ∉ b →
    takeLine nl (b ++ R) = b ++ takeLine nl R
  | [], R, _ => by simp
  | x :: xs, R, h => by
    simp only [List.mem_cons, not_or] at h
    have hx : x ≠ nl := fun e => h.1 e.symm
    simp only [List.cons_append]
    rw [takeLine_cons_ne nl x _ hx, takeLine_append_of_not_mem nl xs R h.2]

/-- newline found at index `i` of the buffer: the line is the first `i+1` elements -/
theorem takeLine_of_find? (nl : α) : ∀ (b R : List α) (i : Nat), find? nl b = some i →
    takeLine nl (b ++ R) = (b ++ R).take (i + 1)
  | [], _, _, h => by simp [find?] at h
  | x :: xs, R, i, h => by
    by_cases hx : x = nl
    · simp only [find?, hx, if_true, Option.some.injEq] at h
      subst h; subst hx
      simp [takeLine]
    · simp only [find?, hx, if_false, Option.map_eq_some_iff] at h
      obtain ⟨j, hj, rfl⟩ := h
      simp only [List.cons_append]
      rw [takeLine_cons_ne nl x _ hx, takeLine_of_find? nl xs R j hj]
      simp

theorem getLast?_ne_of_not_mem (nl : α) (b : List α) (h : nl ∉ b) : b.getLast? ≠ some nl := by
  intro e
  exact h (List.mem_of_getLast? e)

/-! ### `fill` (the receive loop of `read`) -/

theorem fill_spec (n : Nat) : ∀ (rest : List (List α)) (buf : List α),
    (fill n buf rest).1 ++ (fill n buf rest).2.1.flatten = buf ++ rest.flatten ∧
    ((fill n buf rest).2.2 = false → n ≤ (fill n buf rest).1.length) ∧
    ((fill n buf rest).2.2 = true → (fill n buf rest).2.1 = [] ∧ (fill n buf rest).1.length < n)
  | [], buf => by
    simp only [fill, List.flatten_nil, List.append_nil, decide_eq_false_iff_not, decide_eq_true_eq,
      true_and]
    exact ⟨fun h => by omega, fun h => h⟩
  | it :: r, buf => by
    by_cases h : buf.length < n
    · have ih := fill_spec n r (buf ++ it)
      simp only [fill, h, if_true]
      refine ⟨?_, ih.2.1, ih.2.2⟩
      rw [ih.1]; simp
    · simp only [fill, h, if_false]
      exact ⟨by simp, fun _ => by omega, fun e => by simp at e⟩

theorem fill_rest_nil (n : Nat) (buf : List α) : (fill n buf []).2.1 = [] := rfl

/-- what `fill`'s result means for the slices `buffer[:n]` / `buffer[n:]` -/
theorem slices_of_fill {n : Nat} {b X : List α} {r : List (List α)} {eof : Bool}
    (h1 : b ++ r.flatten = X) (h2 : eof = false → n ≤ b.length)
    (h3 : eof = true → r = [] ∧ b.length < n) :
    b.take n = X.take n ∧ b.drop n ++ r.flatten = X.drop n := by
  subst h1
  cases eof with
  | false =>
    have hn := h2 rfl
    exact ⟨(List.take_append_of_le_length hn).symm, (List.drop_append_of_le_length hn).symm⟩
  | true =>
    obtain ⟨hr, _⟩ := h3 rfl
    subst hr
    simp

/-! ### `read` -/

theorem read_spec (n : Nat) (s : Reader α) :
    (s.read n).1 = s.pending.take n ∧ (s.read n).2.pending = s.pending.drop n := by
  obtain ⟨buf, rest, pc, cl⟩ := s
  cases buf with
  | none =>
    cases rest with
    | nil => simp [Reader.read, Reader.pending]
    | cons it r =>
      have f := fill_spec n r it
      have := slices_of_fill (X := it ++ r.flatten) f.1 f.2.1 f.2.2
      simpa [Reader.read, Reader.pending] using this
  | some b =>
    have f := fill_spec n rest b
    have := slices_of_fill (X := b ++ rest.flatten) f.1 f.2.1 f.2.2
    simpa [Reader.read, Reader.pending] using this

theorem read_out (n : Nat) (s : Reader α) : (s.read n).1 = s.pending.take n := (read_spec n s).1
theorem read_pending (n : Nat) (s : Reader α) : (s.read n).2.pending = s.pending.drop n :=
  (read_spec n s).2

theorem read_proxyclose (n : Nat) (s : Reader α) : (s.read n).2.proxyclose = s.proxyclose := by
  obtain ⟨buf, rest, pc, cl⟩ := s
  cases buf <;> cases rest <;> simp [Reader.read]

/-- without proxyclose `read` never touches the channel's closed state -/
theorem read_closed_of_not_proxyclose (n : Nat) (s : Reader α) (h : s.proxyclose = false) :
    (s.read n).2.closed = s.closed := by
  obtain ⟨buf, rest, pc, cl⟩ := s
  simp only at h
  subst h
  cases buf <;> cases rest <;> simp [Reader.read]

/-- closing is monotone -/
theorem read_closed_mono (n : Nat) (s : Reader α) (h : s.closed = true) : (s.read n).2.closed = true := by
  obtain ⟨buf, rest, pc, cl⟩ := s
  simp only at h
  subst h
  cases buf <;> cases rest <;> simp [Reader.read]

/-- a short read (fewer than `n` elements) means `receive()` raised `EOFError`: the reader is at the
end, and with proxyclose the channel has been closed -/
theorem read_short (n : Nat) (s : Reader α) (h : (s.read n).1.length < n) :
    (s.read n).2.atEnd ∧ (s.proxyclose = true → (s.read n).2.closed = true) := by
  obtain ⟨buf, rest, pc, cl⟩ := s
  cases buf with
  | none =>
    cases rest with
    | nil => simp only [Reader.read, Reader.atEnd]; exact ⟨by simp, fun h => by simp [h]⟩
    | cons it r =>
      have f := fill_spec n r it
      simp only [Reader.read, List.length_take] at h
      cases he : (fill n it r).2.2 with
      | false => have := f.2.1 he; omega
      | true =>
        have := f.2.2 he
        simp only [Reader.read, Reader.atEnd, he, this.1, Option.getD_some, List.drop_eq_nil_iff, true_and,
          Bool.true_and]
        exact ⟨by omega, fun h => by simp [h]⟩
  | some b =>
    have f := fill_spec n rest b
    simp only [Reader.read, List.length_take] at h
    cases he : (fill n b rest).2.2 with
    | false => have := f.2.1 he; omega
    | true =>
      have := f.2.2 he
      simp only [Reader.read, Reader.atEnd, he, this.1, Option.getD_some, List.drop_eq_nil_iff, true_and,
        Bool.true_and]
      exact ⟨by omega, fun h => by simp [h]⟩

theorem read_rest_nil (n : Nat) (s : Reader α) (h : s.rest = []) : (s.read n).2.rest = [] := by
  obtain ⟨buf, rest, pc, cl⟩ := s
  simp only at h
  subst h
  cases buf <;> simp [Reader.read, fill]

theorem atEnd_iff (s : Reader α) : s.atEnd ↔ s.rest = [] ∧ s.pending = [] := by
  obtain ⟨buf, rest, pc, cl⟩ := s
  simp only [Reader.atEnd, Reader.pending]
  constructor
  · rintro ⟨h1, h2⟩; subst h1; simp [h2]
  · rintro ⟨h1, h2⟩; subst h1; simpa using h2

theorem read_atEnd (n : Nat) (s : Reader α) (h : s.atEnd) : (s.read n).1 = [] ∧ (s.read n).2.atEnd := by
  rw [atEnd_iff] at h
  refine ⟨by rw [read_out, h.2]; simp, ?_⟩
  rw [atEnd_iff]
  exact ⟨read_rest_nil n s h.1, by rw [read_pending, h.2]; simp⟩

/-! ### the tail loop of `readline` -/

theorem lineLoop_exit (nl : α) (fuel : Nat) (s : Reader α) (line : List α)
    (h : line = [] ∨ line.getLast? = some nl) : lineLoop nl fuel s line = (line, s) := by
  cases fuel with
  | zero => rfl
  | succ f => simp [lineLoop, h]

theorem lineLoop_spec (nl : α) : ∀ (fuel : Nat) (s : Reader α) (line : List α),
    s.pending.length < fuel → line ≠ [] → line.getLast? ≠ some nl →
    (lineLoop nl fuel s line).1 = line ++ takeLine nl s.pending ∧
    (lineLoop nl fuel s line).2.pending = s.pending.drop (takeLine nl s.pending).length
  | 0, _, _, h, _, _ => by omega
  | fuel + 1, s, line, hf, h1, h2 => by
    have hc : ¬ (line = [] ∨ line.getLast? = some nl) := by simp [h1, h2]
    simp only [lineLoop, hc, if_false]
    have ho := read_out 1 s
    have hp := read_pending 1 s
    cases hpend : s.pending with
    | nil =>
      rw [hpend] at ho hp
      simp only [List.take_nil] at ho
      simp [ho, hp, takeLine]
    | cons x xs =>
      rw [hpend] at ho hp hf
      simp only [List.take_succ_cons, List.take_zero, List.drop_succ_cons, List.drop_zero] at ho hp
      simp only [ho, List.cons_ne_nil, if_false]
      by_cases hx : x = nl
      · have hx' : nl = x := hx.symm
        subst hx'
        rw [lineLoop_exit nl fuel _ _ (Or.inr (by simp))]
        simp [takeLine, hp]
      · have ih := lineLoop_spec nl fuel (s.read 1).2 (line ++ [x])
          (by rw [hp]; simp only [List.length_cons] at hf; omega) (by simp)
          (by simp only [List.getLast?_append, List.getLast?_singleton, Option.some_or]
              intro e; exact hx (Option.some.inj e))
        rw [hp] at ih
        rw [takeLine_cons_ne nl x xs hx]
        simpa using ih

theorem lineLoop_proxyclose (nl : α) : ∀ (fuel : Nat) (s : Reader α) (line : List α),
    (lineLoop nl fuel s line).2.proxyclose = s.proxyclose
  | 0, _, _ => rfl
  | fuel + 1, s, line => by
    simp only [lineLoop]
    split
    · rfl
    · split
      · exact read_proxyclose 1 s
      · rw [lineLoop_proxyclose nl fuel, read_proxyclose]

theorem lineLoop_closed_of_not_proxyclose (nl : α) : ∀ (fuel : Nat) (s : Reader α) (line : List α),
    s.proxyclose = false → (lineLoop nl fuel s line).2.closed = s.closed
  | 0, _, _, _ => rfl
  | fuel + 1, s, line, h => by
    simp only [lineLoop]
    split
    · rfl
    · split
      · exact read_closed_of_not_proxyclose 1 s h
      · rw [lineLoop_closed_of_not_proxyclose nl fuel _ _ (by rw [read_proxyclose]; exact h),
          read_closed_of_not_proxyclose 1 s h]

theorem lineLoop_closed_mono (nl : α) : ∀ (fuel : Nat) (s : Reader α) (line : List α),
    s.closed = true → (lineLoop nl fuel s line).2.closed = true
  | 0, _, _, h => h
  | fuel + 1, s, line, h => by
    simp only [lineLoop]
    split
    · exact h
    · split
      · exact read_closed_mono 1 s h
      · exact lineLoop_closed_mono nl fuel _ _ (read_closed_mono 1 s h)

theorem lineLoop_rest_nil (nl : α) : ∀ (fuel : Nat) (s : Reader α) (line : List α),
    s.rest = [] → (lineLoop nl fuel s line).2.rest = []
  | 0, _, _, h => h
  | fuel + 1, s, line, h => by
    simp only [lineLoop]
    split
    · exact h
    · split
      · exact read_rest_nil 1 s h
      · exact lineLoop_rest_nil nl fuel _ _ (read_rest_nil 1 s h)

/-- if the loop returns something that does not end in a newline, the reader is at the end (and with
proxyclose the channel is closed) -/
theorem lineLoop_short (nl : α) : ∀ (fuel : Nat) (s : Reader α) (line : List α),
    s.pending.length < fuel →
    (line = [] → s.atEnd ∧ (s.proxyclose = true → s.closed = true)) →
    (lineLoop nl fuel s line).1.getLast? ≠ some nl →
    (lineLoop nl fuel s line).2.atEnd ∧
      (s.proxyclose = true → (lineLoop nl fuel s line).2.closed = true)
  | 0, _, _, h, _, _ => by omega
  | fuel + 1, s, line, hf, h0, hl => by
    simp only [lineLoop] at hl ⊢
    split at hl
    · rename_i hc
      simp only [hc, if_true]
      cases hc with
      | inl he => exact h0 he
      | inr he => exact absurd he hl
    · rename_i hc
      simp only [hc, if_false]
      split at hl
      · rename_i hr
        simp only [hr, if_true]
        exact read_short 1 s (by rw [hr]; simp)
      · rename_i hr
        simp only [hr, if_false]
        have ho := read_out 1 s
        have hp := read_pending 1 s
        have ih := lineLoop_short nl fuel (s.read 1).2 (line ++ (s.read 1).1)
          (by
            rw [hp, List.length_drop]
            cases hpend : s.pending with
            | nil => rw [hpend] at ho; simp at ho; exact absurd ho hr
            | cons x xs => rw [hpend] at hf; simp only [List.length_cons] at hf ⊢; omega)
          (by intro e; simp at e; exact absurd e.2 hr) hl
        rw [read_proxyclose] at ih
        exact ih

/-! ### `readline` -/

theorem readline_spec (nl : α) (s : Reader α) :
    (s.readline nl).1 = takeLine nl s.pending ∧
    (s.readline nl).2.pending = s.pending.drop (takeLine nl s.pending).length := by
  cases hb : s.buf with
  | none =>
    simp only [Reader.readline, hb]
    have ho := read_out 1 s
    have hp := read_pending 1 s
    cases hpend : s.pending with
    | nil =>
      rw [hpend] at ho hp
      simp only [List.take_nil] at ho
      rw [ho, lineLoop_exit nl _ _ _ (Or.inl rfl)]
      simp [takeLine, hp]
    | cons x xs =>
      rw [hpend] at ho hp
      simp only [List.take_succ_cons, List.take_zero, List.drop_succ_cons, List.drop_zero] at ho hp
      rw [ho]
      by_cases hx : x = nl
      · have hx' : nl = x := hx.symm
        subst hx'
        rw [lineLoop_exit nl _ _ _ (Or.inr (by simp))]
        simp [takeLine, hp]
      · have := lineLoop_spec nl ((s.read 1).2.pending.length + 1) (s.read 1).2 [x]
          (by omega) (by simp) (by simp only [List.getLast?_singleton]; intro e; exact hx (Option.some.inj e))
        rw [hp] at this
        rw [takeLine_cons_ne nl x xs hx]
        simpa [hp] using this
  | some b =>
    have hpend : s.pending = b ++ s.rest.flatten := by simp [Reader.pending, hb]
    cases hf : find? nl b with
    | some i =>
      simp only [Reader.readline, hb, hf]
      rw [read_out, read_pending, hpend, takeLine_of_find? nl b _ i hf, drop_length_take]
      exact ⟨rfl, rfl⟩
    | none =>
      simp only [Reader.readline, hb, hf]
      have hnm := find?_none_not_mem nl b hf
      have ho := read_out (b.length + 1) s
      have hp := read_pending (b.length + 1) s
      rw [hpend] at ho hp ⊢
      rw [takeLine_append_of_not_mem nl b _ hnm]
      rw [List.take_length_add_append] at ho
      rw [List.drop_length_add_append] at hp
      cases hR : s.rest.flatten with
      | nil =>
        rw [hR] at ho hp
        simp only [List.take_nil, List.append_nil, List.drop_nil] at ho hp
        rw [ho]
        by_cases hbe : b = []
        · subst hbe
          simp only [List.length_nil, Nat.zero_add] at ho hp ⊢
          rw [lineLoop_exit nl _ _ _ (Or.inl rfl)]
          simp [takeLine, hp]
        · have := lineLoop_spec nl ((s.read (b.length + 1)).2.pending.length + 1) (s.read (b.length + 1)).2 b
            (by omega) hbe (getLast?_ne_of_not_mem nl b hnm)
          rw [hp] at this
          simpa [takeLine, hp] using this
      | cons x xs =>
        rw [hR] at ho hp
        simp only [List.take_succ_cons, List.take_zero, List.drop_succ_cons, List.drop_zero] at ho hp
        rw [ho]
        by_cases hx : x = nl
        · have hx' : nl = x := hx.symm
          subst hx'
          rw [lineLoop_exit nl _ _ _ (Or.inr (by simp))]
          simp [takeLine, hp]
        · have := lineLoop_spec nl ((s.read (b.length + 1)).2.pending.length + 1) (s.read (b.length + 1)).2
            (b ++ [x]) (by omega) (by simp)
            (by simp only [List.getLast?_append, List.getLast?_singleton, Option.some_or]
                intro e; exact hx (Option.some.inj e))
          rw [hp] at this
          rw [takeLine_cons_ne nl x xs hx]
          simpa [hp] using this

theorem readline_out (nl : α) (s : Reader α) : (s.readline nl).1 = takeLine nl s.pending :=
  (readline_spec nl s).1

theorem readline_pending (nl : α) (s : Reader α) :
    (s.readline nl).2.pending = s.pending.drop (takeLine nl s.pending).length :=
  (readline_spec nl s).2

theorem readline_proxyclose (nl : α) (s : Reader α) : (s.readline nl).2.proxyclose = s.proxyclose := by
  simp only [Reader.readline]
  split
  · split
    · exact read_proxyclose _ s
    · rw [lineLoop_proxyclose, read_proxyclose]
  · rw [lineLoop_proxyclose, read_proxyclose]

theorem readline_closed_of_not_proxyclose (nl : α) (s : Reader α) (h : s.proxyclose = false) :
    (s.readline nl).2.closed = s.closed := by
  simp only [Reader.readline]
  split
  · split
    · exact read_closed_of_not_proxyclose _ s h
    · rw [lineLoop_closed_of_not_proxyclose nl _ _ _ (by rw [read_proxyclose]; exact h),
        read_closed_of_not_proxyclose _ s h]
  · rw [lineLoop_closed_of_not_proxyclose nl _ _ _ (by rw [read_proxyclose]; exact h),
      read_closed_of_not_proxyclose _ s h]

theorem readline_closed_mono (nl : α) (s : Reader α) (h : s.closed = true) :
    (s.readline nl).2.closed = true := by
  simp only [Reader.readline]
  split
  · split
    · exact read_closed_mono _ s h
    · exact lineLoop_closed_mono nl _ _ _ (read_closed_mono _ s h)
  · exact lineLoop_closed_mono nl _ _ _ (read_closed_mono _ s h)

theorem readline_rest_nil (nl : α) (s : Reader α) (h : s.rest = []) : (s.readline nl).2.rest = [] := by
  simp only [Reader.readline]
  split
  · split
    · exact read_rest_nil _ s h
    · exact lineLoop_rest_nil nl _ _ _ (read_rest_nil _ s h)
  · exact lineLoop_rest_nil nl _ _ _ (read_rest_nil _ s h)

theorem readline_atEnd (nl : α) (s : Reader α) (h : s.atEnd) :
    (s.readline nl).1 = [] ∧ (s.readline nl).2.atEnd := by
  rw [atEnd_iff] at h
  refine ⟨by rw [readline_out, h.2]; rfl, ?_⟩
  rw [atEnd_iff]
  exact ⟨readline_rest_nil nl s h.1, by rw [readline_pending, h.2]; simp⟩

/-- newline in the buffer at index `i`: `buffer[: i+1]` ends with the newline -/
theorem getLast?_take_of_find? (nl : α) : ∀ (b R : List α) (i : Nat), find? nl b = some i →
    ((b ++ R).take (i + 1)).getLast? = some nl
  | [], _, _, h => by simp [find?] at h
  | x :: xs, R, i, h => by
    by_cases hx : x = nl
    · simp only [find?, hx, if_true, Option.some.injEq] at h
      subst h; subst hx
      simp
    · simp only [find?, hx, if_false, Option.map_eq_some_iff] at h
      obtain ⟨j, hj, rfl⟩ := h
      have ih := getLast?_take_of_find? nl xs R j hj
      simp only [List.cons_append, List.take_succ_cons]
      rw [List.getLast?_cons]
      rw [ih]; rfl

/-- a line that does not end in a newline (in particular an empty result) means the channel ended:
the reader is at the end, and with proxyclose the channel has been closed -/
theorem readline_short (nl : α) (s : Reader α) (h : (s.readline nl).1.getLast? ≠ some nl) :
    (s.readline nl).2.atEnd ∧ (s.proxyclose = true → (s.readline nl).2.closed = true) := by
  have tail : ∀ n : Nat, 0 < n →
      (lineLoop nl ((s.read n).2.pending.length + 1) (s.read n).2 (s.read n).1).1.getLast? ≠ some nl →
      (lineLoop nl ((s.read n).2.pending.length + 1) (s.read n).2 (s.read n).1).2.atEnd ∧
      (s.proxyclose = true →
        (lineLoop nl ((s.read n).2.pending.length + 1) (s.read n).2 (s.read n).1).2.closed = true) := by
    intro n hn hl
    have := lineLoop_short nl ((s.read n).2.pending.length + 1) (s.read n).2 (s.read n).1 (by omega)
      (by
        intro e
        have := read_short n s (by rw [e]; simpa using hn)
        rw [read_proxyclose]
        exact this) hl
    rw [read_proxyclose] at this
    exact this
  cases hb : s.buf with
  | none =>
    simp only [Reader.readline, hb] at h ⊢
    exact tail 1 (by omega) h
  | some b =>
    cases hf : find? nl b with
    | some i =>
      simp only [Reader.readline, hb, hf] at h
      have hpend : s.pending = b ++ s.rest.flatten := by simp [Reader.pending, hb]
      rw [read_out, hpend, getLast?_take_of_find? nl b _ i hf] at h
      exact absurd rfl h
    | none =>
      simp only [Reader.readline, hb, hf] at h ⊢
      exact tail (b.length + 1) (by omega) h

/-! ### steps and runs -/

theorem step_out (nl : α) (s : Reader α) (f : File α) (h : s.pending = f.rem) (c : Call) :
    (s.step nl c).1 = (f.step nl c).1 ∧ (s.step nl c).2.pending = (f.step nl c).2.rem := by
  cases c with
  | read n =>
    simp only [Reader.step, File.step, File.read, File.rem]
    rw [read_out, read_pending, h]
    refine ⟨rfl, ?_⟩
    simp only [File.rem]
    rw [← List.drop_drop, drop_length_take]
  | readline =>
    simp only [Reader.step, File.step, File.readline, File.rem]
    rw [readline_out, readline_pending, h]
    refine ⟨rfl, ?_⟩
    simp only [File.rem]
    rw [← List.drop_drop]

/-- refinement for any related pair of states and any call sequence -/
theorem run_refines (nl : α) : ∀ (calls : List Call) (s : Reader α) (f : File α), s.pending = f.rem →
    (Reader.run nl s calls).1 = (File.run nl f calls).1
  | [], _, _, _ => rfl
  | c :: cs, s, f, h => by
    have hs := step_out nl s f h c
    simp only [Reader.run, File.run]
    rw [hs.1, run_refines nl cs _ _ hs.2]

/-- conservation for one call: what it returns, followed by what is still pending, is what was pending -/
theorem step_conserve (nl : α) (s : Reader α) (c : Call) :
    (s.step nl c).1 ++ (s.step nl c).2.pending = s.pending := by
  cases c with
  | read n =>
    simp only [Reader.step]
    rw [read_out, read_pending, List.take_append_drop]
  | readline =>
    simp only [Reader.step]
    rw [readline_out, readline_pending]
    conv => lhs; lhs; rw [takeLine_prefix nl s.pending]
    rw [List.take_append_drop]

/-- conservation over any call sequence -/
theorem run_conserve (nl : α) : ∀ (calls : List Call) (s : Reader α),
    (Reader.run nl s calls).1.flatten ++ (Reader.run nl s calls).2.pending = s.pending
  | [], _ => by simp [Reader.run]
  | c :: cs, s => by
    have h1 := step_conserve nl s c
    have h2 := run_conserve nl cs (s.step nl c).2
    simp only [Reader.run, List.flatten_cons, List.append_assoc]
    rw [h2, h1]

theorem step_proxyclose (nl : α) (s : Reader α) (c : Call) : (s.step nl c).2.proxyclose = s.proxyclose := by
  cases c with
  | read n => exact read_proxyclose n s
  | readline => exact readline_proxyclose nl s

theorem step_atEnd (nl : α) (s : Reader α) (c : Call) (h : s.atEnd) :
    (s.step nl c).1 = [] ∧ (s.step nl c).2.atEnd := by
  cases c with
  | read n => exact read_atEnd n s h
  | readline => exact readline_atEnd nl s h

theorem run_atEnd (nl : α) : ∀ (calls : List Call) (s : Reader α), s.atEnd →
    (∀ o ∈ (Reader.run nl s calls).1, o = []) ∧ (Reader.run nl s calls).2.atEnd
  | [], _, h => ⟨by simp [Reader.run], h⟩
  | c :: cs, s, h => by
    have hs := step_atEnd nl s c h
    have ih := run_atEnd nl cs _ hs.2
    simp only [Reader.run, List.mem_cons, forall_eq_or_imp]
    exact ⟨⟨hs.1, ih.1⟩, ih.2⟩

theorem run_closed_of_not_proxyclose (nl : α) : ∀ (calls : List Call) (s : Reader α),
    s.proxyclose = false → (Reader.run nl s calls).2.closed = s.closed
  | [], _, _ => rfl
  | c :: cs, s, h => by
    simp only [Reader.run]
    rw [run_closed_of_not_proxyclose nl cs _ (by rw [step_proxyclose]; exact h)]
    cases c with
    | read n => exact read_closed_of_not_proxyclose n s h
    | readline => exact readline_closed_of_not_proxyclose nl s h

theorem run_closed_mono (nl : α) : ∀ (calls : List Call) (s : Reader α),
    s.closed = true → (Reader.run nl s calls).2.closed = true
  | [], _, h => h
  | c :: cs, s, h => by
    simp only [Reader.run]
    apply run_closed_mono nl cs
    cases c with
    | read n => exact read_closed_mono n s h
    | readline => exact readline_closed_mono nl s h

/-! ### the writer -/

theorem writer_run_spec : ∀ (ops : List (WOp α)) (w : Writer α),
    (Writer.run w ops).2.sent = w.sent ++ acceptedWrites ops (Writer.run w ops).1 ∧
    (Writer.run w ops).2.proxyclose = w.proxyclose
  | [], w => by simp [Writer.run, acceptedWrites]
  | o :: os, w => by
    have ih := writer_run_spec os (w.step o).2
    simp only [Writer.run]
    cases o with
    | write x =>
      by_cases hc : w.closed = true
      · simp only [Writer.step, hc, if_true] at ih ⊢
        simpa [acceptedWrites] using ih
      · simp only [Writer.step, hc] at ih ⊢
        simp only [Bool.false_eq_true, if_false] at ih ⊢
        simp only [acceptedWrites]
        rw [ih.1]
        simp [ih.2]
    | flush => simpa [Writer.step, acceptedWrites] using ih
    | close => simpa [Writer.step, acceptedWrites] using ih
    | channelClosed => simpa [Writer.step, acceptedWrites] using ih

end ChannelFile
end ExecnetVerif
