/-
The inductive invariant of the `main_thread_only` gate model (`Model/ExecGate.lean`, fixed `executetask`) and
its preservation by every step.  Used by `Props/C14.lean`.
-/
import ExecnetVerif.Model.ExecGate
namespace ExecnetVerif.Gate

/-- the body has begun (on the main thread) -/
def begun : EPhase → Bool
  | .running | .bodyDone _ | .closed _ | .finished _ => true
  | _ => false

/-- spawned to the pool or further -/
def pastGate : EPhase → Bool
  | .queued | .running | .bodyDone _ | .closed _ | .finished _ => true
  | _ => false

structure GInv (c : Config) (s : State) : Prop where
  -- who holds the "main thread is free" token: `complete`, the receiver after `clear()`, the queue, or the main thread
  mBusyC : s.m ≠ .idle → s.complete = false
  qC : s.queue ≠ [] → s.complete = false ∧ s.m = .idle
  qLen : s.queue.length ≤ 1
  rWokeI : ∀ k, s.r = .woke k → s.complete = true
  rClearedI : ∀ k, s.r = .cleared k → s.complete = false ∧ s.m = .idle ∧ s.queue = []
  cFalse : s.complete = false → s.m = .idle → s.queue = [] → ∃ k, s.r = .cleared k
  -- phases
  phRun : ∀ k, s.ph k = .running ↔ s.m = .running k
  phDone : ∀ k o, s.ph k = .bodyDone o ↔ s.m = .bodyDone k o
  phClosed : ∀ k o, s.ph k = .closed o ↔ s.m = .closedSt k o
  phQ : ∀ k, s.ph k = .queued ↔ k ∈ s.queue
  phGate : ∀ k, s.ph k = .atGate ↔ (s.r = .waiting k ∨ s.r = .woke k ∨ s.r = .cleared k)
  phSent : ∀ k, s.ph k = .sent ↔ k ∈ s.rq
  phUnsent : ∀ k, s.ph k = .unsent ↔ s.submitted ≤ k
  obs : ∀ k, s.closeObs k = true → isClosed (s.ph k) = true
  -- order
  rqSorted : s.rq.Pairwise (· < ·)
  mono1 : ∀ a b, a < b → s.ph a = .sent → s.ph b = .sent ∨ s.ph b = .unsent
  mono2 : ∀ a b, a < b → pastGate (s.ph b) = true → s.ph a ≠ .sent ∧ s.ph a ≠ .atGate
  mono3 : ∀ a b, a < b → begun (s.ph b) = true → s.ph a ≠ .queued
  staIff : ∀ k, k ∈ s.started ↔ begun (s.ph k) = true
  staSorted : s.started.Pairwise (· < ·)
  -- sequential submission is never refused (under `Timely`)
  seqC : ∀ k, s.seqOk k = true → ∀ j, j < k → s.closeObs j = true
  nfd : c.timely = true → ∀ k, s.seqOk k = true → s.ph k ≠ .rejected

theorem ginv_init (c : Config) : GInv c init := by
  constructor <;> simp [init, begun, pastGate, isClosed]

@[grind =] theorem upd_apply {α β : Type} [DecidableEq α] (f : α → β) (k : α) (v : β) (u : α) :
    upd f k v u = if u = k then v else f u := rfl

theorem begun_pastGate {p : EPhase} (h : begun p = true) : pastGate p = true := by
  cases p <;> simp_all [begun, pastGate]

theorem range_all {f : Nat → Bool} {n : Nat} (h : (List.range n).all f = true) : ∀ j, j < n → f j = true := by
  intro j hj
  simp [List.all_eq_true] at h
  exact h j hj

set_option hygiene false in
macro "ginv_close" : tactic => `(tactic| first
  | assumption
  | grind [begun, pastGate, isClosed, inEpilogue, List.pairwise_append, List.pairwise_cons, List.length_append, List.length_cons, List.length_nil, List.eq_nil_iff_length_eq_zero, → begun_pastGate]
  | grind (splits := 30) [begun, pastGate, isClosed, inEpilogue, List.pairwise_append, List.pairwise_cons])

set_option hygiene false in
macro "ginv_open" h:ident : tactic => `(tactic|
  obtain ⟨mBusyC, qC, qLen, rWokeI, rClearedI, cFalse, phRun, phDone, phClosed, phQ, phGate, phSent, phUnsent, obs, rqSorted, mono1, mono2, mono3, staIff, staSorted, seqC, nfd⟩ := $h)

macro "ginv_step" hs:ident : tactic => `(tactic| (
  repeat' split at $hs:ident
  all_goals (first | (cases $hs:ident; done) | (cases $hs:ident; constructor <;> dsimp only [] <;> try ginv_close))))

end ExecnetVerif.Gate
