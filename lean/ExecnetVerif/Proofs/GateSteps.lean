import ExecnetVerif.Proofs.GateInv
namespace ExecnetVerif.Gate
set_option maxHeartbeats 1600000

theorem ginv_submit {c : Config} {s s' : State}  (hc : c.old = false) (h : GInv c s)
    (hs : step c s .submit = some s') : GInv c s' := by
  simp only [step, hc, Bool.false_eq_true, false_and, ↓reduceIte] at hs
  ginv_open h
  ginv_step hs

theorem ginv_observe {c : Config} {s s' : State} {k} (hc : c.old = false) (h : GInv c s)
    (hs : step c s (.observe k) = some s') : GInv c s' := by
  simp only [step, hc, Bool.false_eq_true, false_and, ↓reduceIte] at hs
  ginv_open h
  ginv_step hs

theorem ginv_rTake {c : Config} {s s' : State}  (hc : c.old = false) (h : GInv c s)
    (hs : step c s .rTake = some s') : GInv c s' := by
  simp only [step, hc, Bool.false_eq_true, false_and, ↓reduceIte] at hs
  ginv_open h
  ginv_step hs

theorem ginv_rWake {c : Config} {s s' : State}  (hc : c.old = false) (h : GInv c s)
    (hs : step c s .rWake = some s') : GInv c s' := by
  simp only [step, hc, Bool.false_eq_true, false_and, ↓reduceIte] at hs
  ginv_open h
  ginv_step hs

theorem ginv_rClear {c : Config} {s s' : State}  (hc : c.old = false) (h : GInv c s)
    (hs : step c s .rClear = some s') : GInv c s' := by
  simp only [step, hc, Bool.false_eq_true, false_and, ↓reduceIte] at hs
  ginv_open h
  ginv_step hs

theorem ginv_rTimeout {c : Config} {s s' : State}  (hc : c.old = false) (h : GInv c s)
    (hs : step c s .rTimeout = some s') : GInv c s' := by
  simp only [step, hc, Bool.false_eq_true, false_and, ↓reduceIte] at hs
  ginv_open h
  ginv_step hs
  -- the time-out never hits a sequentially submitted exec: everything before it has been observed closed, so
  -- the main thread can only be in its epilogue, where `Timely` forbids the expiry
  rename_i k hr hcond
  intro ht j hj
  by_cases hjk : j = k
  · subst hjk
    exfalso
    have hep := hcond.2 ht
    have hgate : s.ph j = .atGate := (phGate j).2 (Or.inl hr)
    have hall := seqC j hj
    have key : ∀ q, pastGate (s.ph q) = true → isClosed (s.ph q) = false → False := by
      intro q hq hnc
      have hne : q ≠ j := by intro h; rw [h, hgate] at hq; simp [pastGate] at hq
      rcases Nat.lt_or_gt_of_ne hne with hlt | hgt
      · have := obs q (hall q hlt); simp [hnc] at this
      · exact (mono2 j q hgt hq).2 hgate
    cases hm : s.m with
    | idle =>
      cases hq : s.queue with
      | nil => obtain ⟨k', hk'⟩ := cFalse hcond.1 hm hq; simp [hr] at hk'
      | cons q rest =>
        have : s.ph q = .queued := (phQ q).2 (by simp [hq])
        exact key q (by simp [this, pastGate]) (by simp [this, isClosed])
    | running q =>
      have : s.ph q = .running := (phRun q).2 hm
      exact key q (by simp [this, pastGate]) (by simp [this, isClosed])
    | bodyDone q o => simp [hm, inEpilogue] at hep
    | closedSt q o => simp [hm, inEpilogue] at hep
  · simp [upd, hjk]; exact nfd ht j hj

theorem ginv_rSpawn {c : Config} {s s' : State}  (hc : c.old = false) (h : GInv c s)
    (hs : step c s .rSpawn = some s') : GInv c s' := by
  simp only [step, hc, Bool.false_eq_true, false_and, ↓reduceIte] at hs
  ginv_open h
  ginv_step hs

theorem ginv_mStart {c : Config} {s s' : State}  (hc : c.old = false) (h : GInv c s)
    (hs : step c s .mStart = some s') : GInv c s' := by
  simp only [step, hc, Bool.false_eq_true, false_and, ↓reduceIte] at hs
  ginv_open h
  ginv_step hs

theorem ginv_mFinish {c : Config} {s s' : State} {o} (hc : c.old = false) (h : GInv c s)
    (hs : step c s (.mFinish o) = some s') : GInv c s' := by
  simp only [step, hc, Bool.false_eq_true, false_and, ↓reduceIte] at hs
  ginv_open h
  ginv_step hs

theorem ginv_mClose {c : Config} {s s' : State}  (hc : c.old = false) (h : GInv c s)
    (hs : step c s .mClose = some s') : GInv c s' := by
  simp only [step, hc, Bool.false_eq_true, false_and, ↓reduceIte] at hs
  ginv_open h
  ginv_step hs

theorem ginv_mSet {c : Config} {s s' : State}  (hc : c.old = false) (h : GInv c s)
    (hs : step c s .mSet = some s') : GInv c s' := by
  simp only [step, hc, Bool.false_eq_true, false_and, ↓reduceIte] at hs
  ginv_open h
  ginv_step hs

theorem ginv_step_all {c : Config} {s s' : State} {a : Action} (hc : c.old = false) (h : GInv c s)
    (hs : step c s a = some s') : GInv c s' := by
  cases a
  case submit  => exact ginv_submit hc h hs
  case observe k => exact ginv_observe hc h hs
  case rTake  => exact ginv_rTake hc h hs
  case rWake  => exact ginv_rWake hc h hs
  case rClear  => exact ginv_rClear hc h hs
  case rTimeout  => exact ginv_rTimeout hc h hs
  case rSpawn  => exact ginv_rSpawn hc h hs
  case mStart  => exact ginv_mStart hc h hs
  case mFinish o => exact ginv_mFinish hc h hs
  case mClose  => exact ginv_mClose hc h hs
  case mSet  => exact ginv_mSet hc h hs

theorem ginv_reachable {c : Config} {s : State} (hc : c.old = false) (h : Reachable c s) : GInv c s := by
  induction h with
  | init => exact ginv_init c
  | step _ hs ih => exact ginv_step_all hc ih hs

end ExecnetVerif.Gate
