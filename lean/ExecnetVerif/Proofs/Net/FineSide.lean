/-
The put-back `pb` on one side commutes with the helper functions of the `Net` model.
-/
import ExecnetVerif.Proofs.Net.FineBasic
namespace ExecnetVerif.Net.Fine
open ExecnetVerif.Net
set_option linter.unusedSimpArgs false

theorem createAt_pb (x : SideSt) {id k : Nat} (h : k ≠ id) : createAt (pb x id) k = pb (createAt x k) id := by
  apply SideSt.ext' <;> try rfl
  · simp only [createAt, pb_chans, upd_ne _ _ h, upd_ne _ _ (Ne.symm h)]
    rw [upd_comm _ _ _ (Ne.symm h)]
  · simp only [createAt, pb_chans, upd_ne _ _ h, pb_broken, pb_ended]

theorem registerAll_pb (x : SideSt) (id : Nat) (ids : List Nat) (h : id ∉ ids) :
    registerAll (pb x id) ids = pb (registerAll x ids) id := by
  induction ids generalizing x with
  | nil => rfl
  | cons k t ih =>
    have hk : k ≠ id := fun e => h (by simp [e])
    have ht : id ∉ t := fun e => h (by simp [e])
    show registerAll (createAt (pb x id) k) t = pb (registerAll (createAt x k) t) id
    rw [createAt_pb x hk, ih _ ht]

theorem noLongerOpened_pb (x : SideSt) (id k : Nat) : noLongerOpened (pb x id) k = pb (noLongerOpened x k) id := by
  apply SideSt.ext' <;> try rfl
  simp only [noLongerOpened, pb_chans]
  by_cases h : k = id
  · subst h; simp only [upd_same, upd_upd]; rfl
  · simp only [upd_ne _ _ h, upd_ne _ _ (Ne.symm h)]
    rw [upd_comm _ _ _ (Ne.symm h)]


/-- updating record `k` by a function that commutes with the put-back commutes with the put-back at `id` -/
theorem upd_pb_chans (ch : Nat → Chan) (id k : Nat) (F : Chan → Chan) (hF : ∀ c, F (pbChan c) = pbChan (F c)) :
    upd (upd ch id (pbChan (ch id))) k (F ((upd ch id (pbChan (ch id))) k))
      = upd (upd ch k (F (ch k))) id (pbChan ((upd ch k (F (ch k))) id)) := by
  by_cases h : k = id
  · subst h; simp only [upd_same, upd_upd, hF]
  · simp only [upd_ne _ _ h, upd_ne _ _ (Ne.symm h)]
    rw [upd_comm _ _ _ (Ne.symm h)]

theorem localClose_reg (x : SideSt) (k : Nat) (err : Option Nat) (so : Bool) (h : (x.chans k).registered = true) :
    localClose x k err so = noLongerOpened
      { x with
        ended := upd x.ended k true,
        chans := upd x.chans k { (x.chans k) with
          rerrs := (x.chans k).rerrs ++ err.toList, queue := pushEnd (x.chans k).queue,
          closed := (x.chans k).closed || !so, rclosed := true } } k := by
  unfold localClose; exact if_pos h

theorem localClose_unreg (x : SideSt) (k : Nat) (err : Option Nat) (so : Bool) (h : (x.chans k).registered = false) :
    localClose x k err so = noLongerOpened { x with ended := upd x.ended k true } k := by
  unfold localClose; exact if_neg (by simp [h])

theorem localClose_pb (x : SideSt) (id k : Nat) (err : Option Nat) (so : Bool) :
    localClose (pb x id) k err so = pb (localClose x k err so) id := by
  have hreg : ((pb x id).chans k).registered = (x.chans k).registered := by
    rw [pb_chans_apply]; split <;> simp
  cases hr : (x.chans k).registered
  · rw [localClose_unreg _ _ _ _ (hreg.trans hr), localClose_unreg _ _ _ _ hr]
    exact noLongerOpened_pb { x with ended := upd x.ended k true } id k
  · rw [localClose_reg _ _ _ _ (hreg.trans hr), localClose_reg _ _ _ _ hr, ← noLongerOpened_pb]
    congr 1
    apply SideSt.ext' <;> try rfl
    exact upd_pb_chans x.chans id k
      (fun c => { c with rerrs := c.rerrs ++ err.toList, queue := pushEnd c.queue,
                         closed := c.closed || !so, rclosed := true }) (fun _ => rfl)

theorem doClose_pb (x : SideSt) (id k : Nat) (fr : Frame) :
    doClose (pb x id) k fr = ((doClose x k fr).1, pb (doClose x k fr).2 id) := by
  have hrc : ((pb x id).chans k).rclosed = (x.chans k).rclosed := by
    rw [pb_chans_apply]; split <;> simp
  simp only [doClose, hrc, pb_ioOpen]
  split
  · rfl
  · simp only
    rw [← noLongerOpened_pb]
    congr 2
    by_cases hio : x.ioOpen = true
    all_goals
      simp only [hio, if_true, if_false]
      apply SideSt.ext' <;> try rfl
      exact upd_pb_chans x.chans id k
        (fun c => { c with closed := true, rclosed := true, queue := pushEnd c.queue }) (fun _ => rfl)

theorem chanClose_pb (x : SideSt) (id k : Nat) (err : Option Nat) :
    chanClose (pb x id) k err = ((chanClose x k err).1, pb (chanClose x k err).2 id) := by
  have h1 : ((pb x id).chans k).executing = (x.chans k).executing := by
    rw [pb_chans_apply]; split <;> simp
  have h2 : ((pb x id).chans k).closed = (x.chans k).closed := by
    rw [pb_chans_apply]; split <;> simp
  simp only [chanClose, h1, h2]
  split
  · rfl
  · split
    · rfl
    · exact doClose_pb x id k _

theorem epilogue_pb (x : SideSt) (id : Nat) (isCut : Bool) : epilogue (pb x id) isCut = pb (epilogue x isCut) id := by
  apply SideSt.ext' <;> try rfl
  · funext i
    simp only [epilogue, pb_chans_apply]
    by_cases h : i = id
    · subst h; simp only [if_true, pbChan_registered]; split <;> rfl
    · simp only [if_neg h]
  · funext i
    simp only [epilogue, pb_chans_apply, pb_ended, pb_cbs]
    split <;> simp
end ExecnetVerif.Net.Fine
