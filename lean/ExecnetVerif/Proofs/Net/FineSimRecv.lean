/-
Step simulation, part 2: the two halves of `receive` (`recvGet`, `recvFin`), and the summary `sim_step`.
-/
import ExecnetVerif.Proofs.Net.FineSimCoarse
namespace ExecnetVerif.Net.Fine
open ExecnetVerif.Net
set_option linter.unusedSimpArgs false

/-- one guarded fine step keeps `FInv` and is simulated on the abstraction: not at all if silent, else by `coarseOf` -/
def SimOK (fails : Item → Bool) (f : FState) (op : FOp) : Prop :=
  FInv (fstep fails f op).2 ∧
  match op.coarseOf f with
  | none => (fstep fails f op).2.abs = f.abs
  | some cop => step fails f.abs cop = ((fstep fails f op).1, (fstep fails f op).2.abs)

theorem simOK_coarse (fails : Item → Bool) (f : FState) (op : Op) (hinv : FInv f) (hr : Reachable fails f.abs)
    (hg : (FOp.coarse op).respectsHands f = true) : SimOK fails f (.coarse op) := by
  refine ⟨FInv_coarse fails f op hinv hr hg, ?_⟩
  cases coarseOf_coarse f op with
  | inl h => rw [h]; exact sim_coarse fails f op hinv hr hg h
  | inr h =>
    obtain ⟨h, s, id, rfl, hq, ha⟩ := h
    rw [h, fstep_receive_silent fails f s id hq ha]

/-- unless it takes the ENDMARKER, `recvGet` is the atomic `receive` -/
theorem recvGet_eq_receive (fails : Item → Bool) (f : FState) (s : Side) (id : Nat)
    (h : ¬ (((f.st.side s).chans id).alive = true ∧ ∃ q, ((f.st.side s).chans id).queue = some (QItem.endmarker :: q))) :
    fstep fails f (.recvGet s id) = fstep fails f (.coarse (.receive s id)) ∧
    (FOp.recvGet s id).coarseOf f = (FOp.coarse (.receive s id)).coarseOf f := by
  rw [fstep_coarse]
  cases hq : ((f.st.side s).chans id).queue with
  | none =>
    constructor
    · cases ha : ((f.st.side s).chans id).alive <;>
        simp only [fstep, step, ha, hq, Bool.not_true, Bool.not_false, Bool.false_eq_true, if_false, if_true]
    · simp only [FOp.coarseOf, hq]
  | some q =>
    cases q with
    | nil =>
      constructor
      · cases ha : ((f.st.side s).chans id).alive <;>
          simp only [fstep, step, ha, hq, Bool.not_true, Bool.not_false, Bool.false_eq_true, if_false, if_true]
      · simp only [FOp.coarseOf, hq]
    | cons a q =>
      cases a with
      | item v =>
        constructor
        · cases ha : ((f.st.side s).chans id).alive <;>
            simp only [fstep, step, ha, hq, Bool.not_true, Bool.not_false, Bool.false_eq_true, if_false, if_true]
        · simp only [FOp.coarseOf, hq]
      | endmarker =>
        cases ha : ((f.st.side s).chans id).alive
        · constructor
          · simp only [fstep, step, ha, hq, Bool.not_false, if_true]
          · simp only [FOp.coarseOf, hq, ha, Bool.false_eq_true, if_false]
        · exact absurd ⟨ha, q, hq⟩ h

/-- the state after the ENDMARKER at the head of the queue of `(s, id)` was taken -/
def takeSt (st : State) (s : Side) (id : Nat) (q : List QItem) : State :=
  st.set s
    { st.side s with
      chans := upd (st.side s).chans id { (st.side s).chans id with queue := some q } }

theorem chan_eta_queue (c : Chan) (q : Option (List QItem)) (h : c.queue = q) : { c with queue := q } = c := by
  cases c; simp_all

/-- taking the ENDMARKER in hand is invisible in the abstraction -/
theorem simOK_recvGet_take (fails : Item → Bool) (f : FState) (s : Side) (id : Nat) (q : List QItem)
    (hinv : FInv f) (hr : Reachable fails f.abs)
    (ha : ((f.st.side s).chans id).alive = true)
    (hq : ((f.st.side s).chans id).queue = some (QItem.endmarker :: q)) : SimOK fails f (.recvGet s id) := by
  obtain ⟨hrep, hreg⟩ := tail_replicate fails f hr s id q hq
  have hstep : fstep fails f (.recvGet s id) = (.ok, { st := takeSt f.st s id q, hand := (s, id) :: f.hand }) := by
    simp only [fstep, takeSt, ha, hq, Bool.not_true, Bool.false_eq_true, if_false]
  have hco : (FOp.recvGet s id).coarseOf f = none := by
    simp only [FOp.coarseOf, hq, ha, if_true]
  unfold SimOK
  rw [hstep, hco]
  constructor
  · intro k hk
    by_cases hks : k = (s, id)
    · subst hks
      simp only [takeSt, side_set_self, upd_same]
      exact ⟨ha, hreg, q.length, by rw [← hrep]⟩
    · have hk' : k ∈ f.hand := by
        cases hk with
        | head => exact absurd rfl hks
        | tail _ h => exact h
      have hok := hinv k hk'
      obtain ⟨p, i⟩ := k
      simp only [takeSt]
      by_cases hp : p = s
      · subst hp
        have hi : i ≠ id := fun e => hks (by rw [e])
        simp only [side_set_self]
        rw [upd_ne _ _ hi]; exact hok
      · rw [side_set_ne _ _ hp]; exact hok
  · show List.foldl putBack _ ((s, id) :: f.hand) = f.abs
    rw [List.foldl_cons, abs_eq]
    congr 1
    rw [putBack_eq]
    simp only [takeSt, side_set_self, set_set_same]
    have hpb : pb ((takeSt f.st s id q).side s) id = f.st.side s := by
      simp only [takeSt, side_set_self]
      apply SideSt.ext' <;> try rfl
      simp only [pb_chans, upd_same, upd_upd]
      have : pbChan { (f.st.side s).chans id with queue := some q } = (f.st.side s).chans id := by
        show ({ (f.st.side s).chans id with queue := some (q ++ [QItem.endmarker]) } : Chan) = _
        apply chan_eta_queue
        rw [hq, hrep, replicate_tail_append]
      rw [this, upd_eq_self]
    simp only [takeSt, side_set_self] at hpb
    rw [hpb, set_side_self]


theorem simOK_recvFin_none (fails : Item → Bool) (f : FState) (s : Side) (id : Nat) (hinv : FInv f)
    (hc : f.hand.contains (s, id) = false) : SimOK fails f (.recvFin s id) := by
  have hstep : fstep fails f (.recvFin s id) = (.notEnabled, f) := by
    simp only [fstep, hc, Bool.not_false, if_true]
  have hco : (FOp.recvFin s id).coarseOf f = none := by
    simp only [FOp.coarseOf, hc, Bool.false_eq_true, if_false]
  unfold SimOK
  rw [hstep, hco]
  exact ⟨hinv, rfl⟩

/-- the state after `recvFin`: the ENDMARKER is back, one pending remote error (if any) is consumed -/
theorem fstep_recvFin (fails : Item → Bool) (f : FState) (s : Side) (id : Nat)
    (hc : f.hand.contains (s, id) = true) :
    (fstep fails f (.recvFin s id)).2.hand = eraseOne (s, id) f.hand ∧
    ∃ c' : Chan, (fstep fails f (.recvFin s id)).2.st =
        f.st.set s { f.st.side s with chans := upd (f.st.side s).chans id c' } ∧
      c'.alive = ((f.st.side s).chans id).alive ∧ c'.registered = ((f.st.side s).chans id).registered ∧
      c'.queue = pushEnd ((f.st.side s).chans id).queue := by
  cases hrr : ((f.st.side s).chans id).rerrs with
  | nil =>
    simp only [fstep, hc, hrr, Bool.not_true, Bool.false_eq_true, if_false, true_and]
    exact ⟨_, rfl, rfl, rfl, rfl⟩
  | cons e es =>
    simp only [fstep, hc, hrr, Bool.not_true, Bool.false_eq_true, if_false, true_and]
    exact ⟨_, rfl, rfl, rfl, rfl⟩

theorem coarse_recvFin (fails : Item → Bool) (f : FState) (s : Side) (id : Nat) (m : Nat)
    (hc : f.hand.contains (s, id) = true) (ha : ((f.st.side s).chans id).alive = true)
    (hq : ((f.st.side s).chans id).queue = some (List.replicate m QItem.endmarker)) :
    step fails (putBack f.st (s, id)) (.receive s id) =
      ((fstep fails f (.recvFin s id)).1, (fstep fails f (.recvFin s id)).2.st) := by
  have hq' : pushEnd ((f.st.side s).chans id).queue = some (QItem.endmarker :: List.replicate m QItem.endmarker) := by
    rw [hq, pushEnd_replicate, List.replicate_succ]
  cases hrr : ((f.st.side s).chans id).rerrs with
  | nil =>
    simp only [step, fstep, putBack_eq, side_set_self, set_set_same, pb_chans_same, pbChan_alive, pbChan_queue,
      pbChan_rerrs, ha, hq', hc, hrr, Bool.not_true, Bool.false_eq_true, if_false, Prod.mk.injEq, true_and]
    congr 1
    apply SideSt.ext' <;> try rfl
    simp only [pb_chans, upd_upd]
    congr 1
    simp only [pbChan, hq, Option.map, replicate_tail_append]
  | cons e es =>
    simp only [step, fstep, putBack_eq, side_set_self, set_set_same, pb_chans_same, pbChan_alive, pbChan_queue,
      pbChan_rerrs, ha, hq', hc, hrr, Bool.not_true, Bool.false_eq_true, if_false, Prod.mk.injEq, true_and]
    congr 1
    apply SideSt.ext' <;> try rfl
    simp only [pb_chans, upd_upd]
    congr 1
    simp only [pbChan, hq, Option.map, replicate_tail_append]

theorem simOK_recvFin_some (fails : Item → Bool) (f : FState) (s : Side) (id : Nat) (hinv : FInv f)
    (hc : f.hand.contains (s, id) = true) : SimOK fails f (.recvFin s id) := by
  have hk : (s, id) ∈ f.hand := contains_iff.mp hc
  obtain ⟨ha, hreg, m, hq⟩ := hinv (s, id) hk
  simp only at ha hreg hq
  have hco : (FOp.recvFin s id).coarseOf f = some (.receive s id) := by
    simp only [FOp.coarseOf, hc, if_true]
  obtain ⟨hhand, c', hst, hca, hcr, hcq⟩ := fstep_recvFin fails f s id hc
  have hcoarse := coarse_recvFin fails f s id m hc ha hq
  unfold SimOK
  rw [hco]
  constructor
  · -- FInv
    intro k hk'
    rw [hhand] at hk'
    have hok := hinv k (mem_of_mem_eraseOne hk')
    rw [hst]
    obtain ⟨p, i⟩ := k
    simp only
    by_cases hp : p = s
    · subst hp
      simp only [side_set_self]
      apply handOK_upd
      · intro e; subst e
        exact hok.of_eq hca (hcr.trans hreg) (Or.inr hcq)
      · intro _; exact hok
    · rw [side_set_ne _ _ hp]; exact hok
  · -- the coarse receive on the abstraction
    show step fails f.abs (.receive s id) = _
    rw [abs_eq, foldl_putBack_erase f.hand f.st (s, id) hk]
    rw [step_foldl_putBack fails _ _ (.receive s id), hcoarse]
    · show _ = ((fstep fails f (.recvFin s id)).1,
        List.foldl putBack (fstep fails f (.recvFin s id)).2.st (fstep fails f (.recvFin s id)).2.hand)
      rw [hhand]
    · intro k' _ hs hid
      have hs' : s = k'.1 := hs
      have hid' : id = k'.2 := hid
      subst hs' hid'
      rw [putBack_queue, if_pos rfl, hq, pushEnd_replicate, List.replicate_succ]
      simp

/-- **step simulation**: every guarded fine step from a state satisfying `FInv` whose abstraction is reachable
keeps `FInv`, and is matched on the abstraction by `coarseOf` (or by nothing, if silent) -/
theorem sim_step (fails : Item → Bool) (f : FState) (op : FOp) (hinv : FInv f) (hr : Reachable fails f.abs)
    (hg : op.respectsHands f = true) : SimOK fails f op := by
  cases op with
  | coarse op => exact simOK_coarse fails f op hinv hr hg
  | recvGet s id =>
    by_cases h : ((f.st.side s).chans id).alive = true ∧
        ∃ q, ((f.st.side s).chans id).queue = some (QItem.endmarker :: q)
    · obtain ⟨ha, q, hq⟩ := h
      exact simOK_recvGet_take fails f s id q hinv hr ha hq
    · obtain ⟨h1, h2⟩ := recvGet_eq_receive fails f s id h
      have := simOK_coarse fails f (.receive s id) hinv hr rfl
      unfold SimOK at this ⊢
      rw [h1, h2]; exact this
  | recvFin s id =>
    cases hc : f.hand.contains (s, id)
    · exact simOK_recvFin_none fails f s id hinv hc
    · exact simOK_recvFin_some fails f s id hinv hc

end ExecnetVerif.Net.Fine
