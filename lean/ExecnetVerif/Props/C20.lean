/-
C20 — Specs parse faithfully and group ids stay unique.
Property theorems only (helper lemmas live in Proofs/XSpecLemmas.lean and Proofs/GroupLemmas.lean).
The models are `Model/XSpec.lean` (execnet/xspec.py after the fix for D16) and `Model/Group.lean`
(execnet/multi.py after the fix for D12).
-/
import ExecnetVerif.Proofs.XSpecLemmas
import ExecnetVerif.Proofs.GroupLemmas
import ExecnetVerif.Generated.Tables
namespace ExecnetVerif
open ExecnetVerif.XSpec

/-! ## XSpec -/

/-- **C20 (faithful parse).** Every specification string made of unique, non-empty keys without
'=' and "//" that do not start with '_', and values without "//", parses to exactly those
attributes: `True` for bare keys, the text after the first '=' otherwise, `env:` keys collected
(prefix stripped) in `env`, and the string itself as `_spec`.  `okKeys` adds the three conditions
the proof forces, each a known finding reproduced on the real code: at least one component
(`XSpec("")` raises IndexError), no component but the last ends in '/' (`a=b/` + `c` prints as
`a=b///c`, which splits as `a=b`, `/c`), and no plain key `env` (always "duplicate key"). -/
theorem C20_parse (kvs : List (Str × Option Str)) (h : okKeys kvs) :
    parse (print kvs) = .ok (attrsOf kvs) := by
  obtain ⟨hs, hnd, henv⟩ := h
  obtain ⟨_, hall, _⟩ := okShape_parts kvs hs
  have hk : ∀ kv ∈ kvs, keyOk kv.1 = true := fun kv hkv => by
    have := hall kv hkv; simp only [Bool.and_eq_true] at this; exact this.1
  unfold parse
  rw [splitSS_print kvs hs, loop_ok kvs _ hk hnd henv (by simp [seen])]
  simp [attrsOf, plainOf, envOf]

/-- **C20 (attribute lookup).** On the parsed object every given plain key reads back its value,
`env` reads back the collected environment, and every other public name reads `None`. -/
theorem C20_getattr (kvs : List (Str × Option Str)) (h : okKeys kvs) :
    (∀ k v, (k, v) ∈ kvs → isEnvKey k = false → getattr (attrsOf kvs) k = .ok (.val (toVal v))) ∧
    getattr (attrsOf kvs) envName = .ok (.env (envOf kvs)) ∧
    (∀ name c r, name = c :: r → c ≠ '_' → name ≠ envName → name ∉ kvs.map (·.1) →
      getattr (attrsOf kvs) name = .ok .none) := by
  obtain ⟨_, hnd, henv⟩ := h
  have hsub : (kvs.filter (fun kv => !isEnvKey kv.1)).Sublist kvs := List.filter_sublist
  have hnd' : ((kvs.filter (fun kv => !isEnvKey kv.1)).map (·.1)).Nodup :=
    List.Nodup.sublist (hsub.map _) hnd
  have hnotin : ∀ name, name ∉ kvs.map (·.1) →
      lookup name (attrsOf kvs).attrs = none := by
    intro name hn
    apply lookup_none_of_not_mem
    intro hm
    simp only [attrsOf, List.map_map] at hm
    obtain ⟨kv, hkv, rfl⟩ := List.mem_map.1 hm
    exact hn (List.mem_map.2 ⟨kv, hsub.subset hkv, rfl⟩)
  refine ⟨?_, ?_, ?_⟩
  · intro k v hm he
    have hm' : (k, v) ∈ kvs.filter (fun kv => !isEnvKey kv.1) := by
      simp [List.mem_filter, hm, he]
    simp only [getattr, attrsOf, lookup_map_of_mem _ k v hnd' hm']
  · simp only [getattr, hnotin envName henv, if_true]
    rfl
  · intro name c r hname hc hne hn
    have hspec : name ≠ specName := by
      rw [hname]; intro e; simp only [specName, List.cons.injEq] at e; exact hc e.1
    simp only [getattr, hnotin name hn, hne, hspec, if_false]
    rw [hname]; simp [hc]

/-- **C20 (prints back unchanged).** Whatever string was accepted, `str(xspec)` is that string,
the parsed attributes and `env` are exactly its components split at their first '=', in order, and
printing those components back (`key` / `key=value` joined by "//") gives the string — for every
string, without any hypothesis. -/
theorem C20_print (s : Str) (x : Obj) (h : parse s = .ok x) :
    x.str = s ∧ x.attrs = plainItems (itemsOf s) ∧ x.env = envItems (itemsOf s) ∧
      printItems (itemsOf s) = s := by
  obtain ⟨h1, h2, h3⟩ := loop_ok_inv _ _ _ h
  exact ⟨h1, by simpa [itemsOf] using h2, by simpa [itemsOf] using h3, printItems_itemsOf s⟩

/-- **C20 (equality and hash by text).** Two parsed specs are `==` exactly when their strings are
equal, `!=` exactly when they differ, their hash is the hash of the string, and objects that are
`==` have the same attributes. -/
theorem C20_eq_hash (s t : Str) (x y : Obj) (hx : parse s = .ok x) (hy : parse t = .ok y) :
    (pyEq x y = true ↔ s = t) ∧ (pyNe x y = true ↔ s ≠ t) ∧ (x = y ↔ s = t) ∧
      (∀ hash : Str → Nat, pyHash hash x = hash s) ∧
      (pyEq x y = true → x.attrs = y.attrs ∧ x.env = y.env) := by
  have h1 := (loop_ok_inv _ _ _ hx).1
  have h2 := (loop_ok_inv _ _ _ hy).1
  simp only at h1 h2
  have key : x = y ↔ s = t := by
    constructor
    · intro e; rw [← h1, ← h2, e]
    · intro e; subst e; rw [hx] at hy; exact Except.ok.inj hy
  refine ⟨by simp [pyEq, h1, h2], by simp [pyNe, h1, h2], key, fun hash => by simp [pyHash, h1], ?_⟩
  intro he
  have : s = t := by simpa [pyEq, h1, h2] using he
  have := key.2 this
  subst this; exact ⟨rfl, rfl⟩

/-- **C20 (duplicates).** A well-shaped list in which some key occurs twice — a plain key or an
`env:` key — is rejected with ValueError, and no other exception comes first. -/
theorem C20_dup (kvs : List (Str × Option Str)) (hs : okShape kvs = true)
    (hd : ¬ (kvs.map (·.1)).Nodup) : parse (print kvs) = .error .valueError := by
  obtain ⟨_, hall, _⟩ := okShape_parts kvs hs
  have hk : ∀ kv ∈ kvs, keyOk kv.1 = true := fun kv hkv => by
    have := hall kv hkv; simp only [Bool.and_eq_true] at this; exact this.1
  unfold parse
  rw [splitSS_print kvs hs]
  exact loop_dup kvs _ hk (Or.inl hd)

/-- **C20 (forced hypothesis, known finding D17b).** The plain key `env` can never be given: it is
reported as a duplicate key (the instance attribute `env` exists before the loop starts). -/
theorem C20_env_key_rejected (kvs : List (Str × Option Str)) (hs : okShape kvs = true)
    (he : envName ∈ kvs.map (·.1)) : parse (print kvs) = .error .valueError := by
  obtain ⟨_, hall, _⟩ := okShape_parts kvs hs
  have hk : ∀ kv ∈ kvs, keyOk kv.1 = true := fun kv hkv => by
    have := hall kv hkv; simp only [Bool.and_eq_true] at this; exact this.1
  unfold parse
  rw [splitSS_print kvs hs]
  obtain ⟨kv, hkv, hkey⟩ := List.mem_map.1 he
  exact loop_dup kvs _ hk (Or.inr ⟨kv, hkv, Or.inl hkey⟩)

def witnessKvs : List (Str × Option Str) := [(['a'], some ['b', '/']), (['c'], none)]

/-- **C20 (forced hypothesis, known finding D17a).** `a=b/` followed by `c` meets every condition of
the property but prints as `a=b///c`, which parses to `a=b` and a key `/c`. -/
theorem C20_trailing_slash_witness :
    (witnessKvs.all (fun kv => keyOk kv.1 && valOk kv.2) = true ∧ (witnessKvs.map (·.1)).Nodup) ∧
      print witnessKvs = "a=b///c".toList ∧
      parse (print witnessKvs) =
        .ok { spec := "a=b///c".toList, attrs := [(['a'], .str ['b']), (['/', 'c'], .true)], env := [] } ∧
      parse (print witnessKvs) ≠ .ok (attrsOf witnessKvs) := by
  decide

/-- **C20 (forced hypothesis).** The empty list of keys prints as the empty string, which is
rejected with IndexError (`key[0]` on the empty key). -/
theorem C20_empty_witness : parse (print []) = .error .indexError := by decide

/-- the literals the model is built on are the ones in the source (regenerated on every run): the
separator, the '=' of `find`, the `env:` prefix and its length, the '_' test, every class-level
default is `None` (so an absent name reads `None` whether it is found on the class or reaches
`__getattr__`), and automatically allocated ids are `"gw" + str(counter)` -/
theorem C20_defaults_pinned :
    Generated.xspecSplitLits = ["//"] ∧ Generated.xspecFindLits = ["="] ∧
    Generated.xspecStartswithLits.all (·.toList == envPrefix) = true ∧
    Generated.xspecFirstCharTests = ["key[0]==_"] ∧
    Generated.xspecSlices = ["key[4:]", "keyvalue[:i]", "keyvalue[i + 1:]"] ∧
    Generated.xspecDefaults.all
      (fun p => p.2 == "None" && p.1.toList.head? != some '_' && p.1 != "env") = true ∧
    Generated.autoIdExprs = [("gw", "str(self._autoidcounter)")] := by
  decide

/-! ### non-vacuity (XSpec) -/

/-- a list with '=', ':', '/', space, unicode, an `env:` key, a bare key and an empty value -/
def exampleKvs : List (Str × Option Str) :=
  [("popen".toList, none), ("python".toList, some "/usr/bin/python3 -u".toList),
   ("env:PATH".toList, some "/a:/b=c".toList), ("é k:/x".toList, some "ü=1=2".toList),
   ("env:E".toList, none), ("chdir".toList, some "".toList), ("z".toList, some "q/".toList)]

example : okKeys exampleKvs := by decide

example : print exampleKvs =
    "popen//python=/usr/bin/python3 -u//env:PATH=/a:/b=c//é k:/x=ü=1=2//env:E//chdir=//z=q/".toList := by
  decide

example : (attrsOf exampleKvs).env =
    [("PATH".toList, .str "/a:/b=c".toList), ("E".toList, .true)] := by decide

example : okShape [(['a'], some ['1']), ("env:A".toList, none), ("env:A".toList, some ['2'])] = true ∧
    ¬ ([(['a'], some ['1']), ("env:A".toList, none), ("env:A".toList, some ['2'])].map (·.1)).Nodup := by
  decide

/-! ## Group -/

open ExecnetVerif.Group

/-- **C20 (unique ids).** In every state reachable by any interleaving of concurrent
`allocate_id` / `makegateway` (reserve · create · register or release) / `exit` steps, no two live
gateways share an id; moreover no id that is being created is live or being created twice, and
every thread inside `makegateway` owns its reservation alone. -/
theorem C20_unique_ids (g : State) (h : Reachable g) :
    g.liveIds.Nodup ∧ (g.liveIds ++ g.reserved).Nodup ∧
      (∀ t u i, holds (g.pcs t) i → holds (g.pcs u) i → t = u) := by
  have inv := inv_reachable h
  exact ⟨(List.nodup_append.1 inv.nodup).1, inv.nodup, inv.excl⟩

/-- **C20 (taken ids fail early, nothing is left behind).** In a reachable state a `makegateway`
with an explicit id that is live or reserved raises ValueError in its first step and changes
nothing (no reservation, no process: the thread never reaches the creation step); and a thread that
created its gateway always registers it (the ValueError branch of `_register` is dead). -/
theorem C20_taken_fails_early (g : State) (h : Reachable g) (t : Nat) (i : Id) :
    (g.pcs t = .idle → (i ∈ g.liveIds ∨ i ∈ g.reserved) →
        step g t (.beginExplicit i) = (g, .valueError)) ∧
    (g.pcs t = .created i → (step g t .register).2 = .ok ∧
        (step g t .register).1.liveIds = g.liveIds ++ [i]) := by
  constructor
  · intro hpc htk
    have : g.taken i = true := by
      simp only [State.taken, Bool.or_eq_true, List.contains_eq_mem, decide_eq_true_eq]
      exact htk.symm
    simp [step, hpc, this]
  · intro hpc
    have := created_not_live (inv_reachable h) t i hpc
    simp only [State.liveIds, List.contains_eq_mem, List.mem_map, decide_eq_false_iff_not] at this
    simp [step, hpc, this, State.liveIds]

/-- **C20 (automatic ids).** Under any interleaving the automatically allocated ids handed out are
pairwise distinct; an allocation step either fails with ValueError (the candidate `gw<n>` is live
or reserved, e.g. taken by an explicit id) or returns an id that is neither live, nor reserved, nor
ever handed out before — and the counter advances in both cases. -/
theorem C20_auto_distinct (g : State) (h : Reachable g) :
    g.autos.Nodup ∧
    ∀ t op, (op = Op.allocAuto ∨ op = Op.beginAuto) → g.pcs t = .idle →
      (step g t op).1.counter = g.counter + 1 ∧
      (((step g t op).2 = .valueError ∧ (autoId g.counter ∈ g.liveIds ∨ autoId g.counter ∈ g.reserved)) ∨
       ((step g t op).2 = .id (autoId g.counter) ∧ autoId g.counter ∉ g.liveIds ∧
          autoId g.counter ∉ g.reserved ∧ autoId g.counter ∉ g.autos)) := by
  have inv := inv_reachable h
  refine ⟨inv.autosNodup, ?_⟩
  intro t op hop hpc
  have hfresh := auto_fresh inv
  cases htk : g.taken (autoId g.counter) with
  | true =>
    have := (taken_true htk).symm
    rcases hop with rfl | rfl <;> simp [step, hpc, htk, this]
  | false =>
    obtain ⟨hr, hl⟩ := taken_false htk
    rcases hop with rfl | rfl <;> simp [step, hpc, htk, hr, hl, hfresh]

/-- **C20 (container protocol).** In every reachable state lookup by index, by id, by object and
membership agree with iteration order: the i-th gateway of `list(group)` is `group[i]`, is what
`group[its id]` and `group[itself]` return, and is `in` the group by id and by object; an id that no
iterated gateway has raises KeyError (`none`) and is not `in` the group. -/
theorem C20_container (g : State) (h : Reachable g) :
    (∀ i w, (iter g)[i]? = some w →
        getIdx g i = some w ∧ getId g w.id = some w ∧ getObj g w.obj = some w ∧
          containsId g w.id = true ∧ containsObj g w.obj = true) ∧
    (∀ i, i ∉ (iter g).map (·.id) → getId g i = none ∧ containsId g i = false) ∧
    (∀ i, containsId g i = true ↔ i ∈ (iter g).map (·.id)) := by
  have inv := inv_reachable h
  have hids : (g.live.map (·.id)).Nodup := (List.nodup_append.1 inv.nodup).1
  have hobjs := inv.objNodup
  -- find? by an injective-on-the-list key returns the element itself
  have findKey : ∀ {β : Type} [BEq β] [LawfulBEq β] (f : Gw → β) (l : List Gw), (l.map f).Nodup →
      ∀ w ∈ l, l.find? (fun x => f x == f w) = some w := by
    intro β _ _ f l
    induction l with
    | nil => intro _ w hw; simp at hw
    | cons a r ih =>
      intro hnd w hw
      simp only [List.map_cons, List.nodup_cons] at hnd
      simp only [List.mem_cons] at hw
      rcases hw with rfl | hw
      · simp
      · have hne : f a ≠ f w := by
          intro e; exact hnd.1 (e ▸ List.mem_map.2 ⟨w, hw, rfl⟩)
        simp [hne, ih hnd.2 w hw]
  have notin : ∀ i, i ∉ g.live.map (·.id) → getId g i = none := by
    unfold getId
    intro i hi
    simp only [List.find?_eq_none, beq_iff_eq]
    intro x hx e
    exact hi (List.mem_map.2 ⟨x, hx, e⟩)
  refine ⟨?_, ?_, ?_⟩
  · intro i w hw
    have hmem : w ∈ g.live := List.mem_of_getElem? hw
    have h1 : getId g w.id = some w := findKey Gw.id g.live hids w hmem
    have h2 : getObj g w.obj = some w := findKey Gw.obj g.live hobjs w hmem
    exact ⟨hw, h1, h2, by rw [containsId, h1]; rfl, by rw [containsObj, h2]; rfl⟩
  · intro i hi
    have := notin i hi
    exact ⟨this, by rw [containsId, this]; rfl⟩
  · intro i
    constructor
    · intro hc
      apply Classical.byContradiction
      intro hi
      have := notin i hi
      rw [containsId, this] at hc; cases hc
    · intro hi
      obtain ⟨w, hw, rfl⟩ := List.mem_map.1 hi
      have h1 : getId g w.id = some w := findKey Gw.id g.live hids w hw
      rw [containsId, h1]; rfl

/-! ### non-vacuity (Group): three threads, an explicit id colliding with an automatic one, a
failed creation, an exit -/

def exampleSchedule : List (Nat × Op) :=
  [(0, .beginAuto), (1, .beginExplicit "gw0".toList), (1, .beginExplicit "gw1".toList),
   (2, .beginAuto), (2, .beginAuto), (0, .createOk), (1, .createFail), (2, .createOk),
   (2, .register), (0, .register), (1, .beginExplicit "gw1".toList), (1, .createOk), (1, .register),
   (0, .unregister 0), (0, .allocAuto)]

example : (run init exampleSchedule).2 =
    [.id "gw0".toList, .valueError, .ok, .valueError, .id "gw2".toList, .ok, .ok, .ok, .ok, .ok, .ok,
     .ok, .ok, .ok, .id "gw3".toList] := by
  decide

example : (run init exampleSchedule).1.liveIds = ["gw0".toList, "gw1".toList] := by decide

example : Reachable (run init exampleSchedule).1 := ⟨exampleSchedule, rfl⟩

end ExecnetVerif
