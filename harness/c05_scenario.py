"""One process-level scenario of C05 (started by harness/c05.py with PYTHONPATH=<repo>/src).

argv[1] = JSON {kind: "terminate"|"failed-make", ...}; prints one JSON line with what happened.
The harness kills every process listed (and every descendant of this process) afterwards.
"""
import json
import os
import signal
import sys
import time

import execnet

spec = json.loads(sys.argv[1])

PID = "import os\nchannel.send(os.getpid())\n"
PROGRAMS = {
    "idle": None,
    "blocked": PID + "channel.receive()\n",
    "busy": PID + "while True:\n    pass\n",
    "sleep": PID + "import time\ntime.sleep(1000)\n",
    "sigint-ignored": PID + "import signal, time\nsignal.signal(signal.SIGINT, signal.SIG_IGN)\nwhile True:\n    time.sleep(1)\n",
    "swallow": PID + "import time\nwhile True:\n    try:\n        time.sleep(1000)\n    except KeyboardInterrupt:\n        pass\n",
    "stopped": None,       # SIGSTOP from here
    "threads": PID + "import threading, time\nthreading.Thread(target=time.sleep, args=(1000,)).start()\n",
    "dead": None,          # SIGKILL from here before terminate
}


def proc_state(pid):
    try:
        with open("/proc/%d/stat" % pid) as f:
            return f.read().rsplit(")", 1)[1].split()[0]
    except (OSError, IndexError):
        return None


def descendants(root):
    ppid = {}
    for name in os.listdir("/proc"):
        if name.isdigit():
            try:
                with open("/proc/%s/stat" % name) as f:
                    st = f.read().rsplit(")", 1)[1].split()
                if st[0] != "Z":
                    ppid[int(name)] = int(st[1])
            except (OSError, IndexError, ValueError):
                pass
    out = []
    for pid in ppid:
        cur, hops = pid, 0
        while cur in ppid and hops < 50:
            cur = ppid[cur]
            hops += 1
            if cur == root:
                out.append(pid)
                break
    return sorted(out)


def emit(obj):
    sys.stdout.write(json.dumps(obj) + "\n")
    sys.stdout.flush()


def run_terminate():
    group = execnet.Group()
    group.set_execmodel(spec.get("execmodel", "thread"), spec.get("remote_execmodel", "thread"))
    gws = {}
    pids = {}
    for m in spec["members"]:
        gw = group.makegateway(m["spec"])
        gws[m["id"]] = gw
        pids[m["id"]] = gw.remote_exec(PID).receive()
    chans = []
    for m in spec["members"]:
        gw = gws[m["id"]]
        prog = PROGRAMS[m["program"]]
        if prog is not None:
            ch = gw.remote_exec(prog)
            chans.append(ch)
            ch.receive()
    time.sleep(0.15)
    for m in spec["members"]:
        if m["program"] == "stopped":
            os.kill(pids[m["id"]], signal.SIGSTOP)
        elif m["program"] == "dead":
            os.kill(pids[m["id"]], signal.SIGKILL)
    time.sleep(0.1)
    for m in spec["members"]:
        if m.get("pre_exit"):
            gws[m["id"]].exit()
    emit({"phase": "ready", "pids": pids})
    # the harness enforces the hang limit from outside (no "done" line in time = terminate hangs)
    t0 = time.time()
    error = None
    try:
        group.terminate(timeout=spec["timeout"])
    except BaseException as e:  # noqa: BLE001
        error = "%s: %s" % (type(e).__name__, e)
    elapsed = time.time() - t0
    if not spec["timeout"]:
        # terminate(timeout=0) does not wait for anything, not even for its own kill calls (they run in pool threads): give
        # those threads a moment before this process looks at the children and leaves with os._exit
        t_grace = time.time() + 1.5
        while time.time() < t_grace and any(proc_state(v) not in (None, "Z") for v in pids.values()):
            time.sleep(0.02)
    states = {k: proc_state(v) for k, v in pids.items()}
    emit({"phase": "done", "hang": False, "pids": pids, "elapsed": elapsed, "error": error,
          "len": len(group), "tojoin": len(group._gateways_to_join), "states": states})
    os._exit(0)


def run_failed_make():
    group = execnet.Group()
    live = group.makegateway("popen//id=x")
    live.remote_exec(PID).receive()
    before = descendants(os.getpid())
    emit({"phase": "ready", "pids": {"x": before[0] if before else -1}})
    raised = None
    try:
        group.makegateway(spec["spec"])
    except BaseException as e:  # noqa: BLE001
        raised = type(e).__name__
    extra = []
    t_end = time.time() + 2.0
    while True:
        extra = [p for p in descendants(os.getpid()) if p not in before]
        if not extra or time.time() > t_end:
            break
        time.sleep(0.05)
    members = len(group)
    t0 = time.time()
    group.terminate(timeout=1.0)
    after_term = [p for p in descendants(os.getpid()) if p not in before]
    emit({"phase": "done", "raised": raised, "extra": extra, "extra_after_terminate": after_term, "members": members,
          "terminate_elapsed": time.time() - t0, "hang": False})
    os._exit(0)


def run_concurrent_make():
    """overlapping makegateway calls: `b c id` starts call c in its own thread and lets it run until it is refused or stands
    right before its process would be created (gateway_io.create_io is gated); `f c fault` lets it go on (fault: the
    interpreter cannot be started) and waits for the call to return"""
    import threading

    from execnet import gateway_io

    group = execnet.Group()
    emit({"phase": "ready", "pids": {}})
    tl = threading.local()
    gates = {}
    results = {}
    orig_create_io = gateway_io.create_io

    def gated_create_io(spec_, execmodel):
        g = gates[tl.call]
        g["arrived"].set()
        g["go"].wait()
        if g["fault"]:
            raise OSError("injected: the interpreter cannot be started")
        return orig_create_io(spec_, execmodel=execmodel)

    gateway_io.create_io = gated_create_io

    def call(c, idn):
        tl.call = c
        try:
            gw = group.makegateway("popen" if idn is None else "popen//id=gw%d" % idn)
            results[c] = ("ok", gw.id)
        except ValueError as e:
            results[c] = ("ValueError", str(e))
        except OSError as e:
            results[c] = ("OSError", str(e))
        except BaseException as e:  # noqa: BLE001
            results[c] = (type(e).__name__, str(e))
        finally:
            gates[c]["done"].set()

    outs = []
    for op in spec["ops"]:
        kind, c, arg = op
        if kind == "b":
            if c in gates:
                outs.append("noten")
                continue
            gates[c] = {"arrived": threading.Event(), "go": threading.Event(), "done": threading.Event(), "fault": False}
            threading.Thread(target=call, args=(c, arg), daemon=True).start()
            t_end = time.time() + 20.0
            while not (gates[c]["arrived"].is_set() or gates[c]["done"].is_set()) and time.time() < t_end:
                time.sleep(0.002)
            if gates[c]["done"].is_set():
                r = results[c]
                outs.append("taken" if r[0] == "ValueError" else "unexpected:%s" % (r,))
                gates[c]["finished"] = True
            elif gates[c]["arrived"].is_set():
                outs.append("res%s" % group_id_of(group, c, arg))
            else:
                outs.append("stuck")
        else:
            g = gates.get(c)
            if g is None or g.get("finished"):
                outs.append("noten")
                continue
            g["fault"] = bool(arg)
            g["go"].set()
            if not g["done"].wait(40.0):
                outs.append("stuck")
                continue
            g["finished"] = True
            r = results[c]
            if r[0] == "ok":
                outs.append("ok%s" % r[1][2:])
            elif r[0] == "OSError":
                outs.append("failed")
            elif r[0] == "ValueError":
                outs.append("refused")
            else:
                outs.append("unexpected:%s" % (r,))
    members = [gw.id for gw in group]
    member_pids = sorted(gw._io.popen.pid for gw in group)
    reserved = sorted(group._reserved_ids)
    kids = descendants(os.getpid())
    orphans = [p for p in kids if p not in member_pids]
    t0 = time.time()
    error = None
    try:
        group.terminate(timeout=1.0)
    except BaseException as e:  # noqa: BLE001
        error = "%s: %s" % (type(e).__name__, e)
    t_end = time.time() + 1.0
    while True:
        after = [p for p in descendants(os.getpid()) if proc_state(p) not in (None, "Z")]
        if not after or time.time() > t_end:
            break
        time.sleep(0.05)
    emit({"phase": "done", "hang": False, "outs": outs, "members": members, "reserved": reserved, "norphans": len(orphans),
          "after_terminate": after, "terminate_elapsed": time.time() - t0, "error": error})
    os._exit(0)


def group_id_of(group, c, arg):
    # the id a call standing at the gate has reserved: the explicit one, or the automatic one just allocated
    if arg is not None:
        return str(arg)
    return str(group._autoidcounter - 1)


if spec["kind"] == "terminate":
    run_terminate()
elif spec["kind"] == "concurrent-make":
    run_concurrent_make()
else:
    run_failed_make()
