"""C11 — workers never outlive their initiator (DESIGN.md §4 C11).

(i) virtual time: the REAL `WorkerGateway.serve()` (receiver thread, `_terminate_execution`, execution pool,
    `executetask`) runs in-process under the deterministic scheduler; CHANNEL_EXEC frames start scripted
    bodies of each activity class, the connection is ended at a generated virtual moment; `gateway_base.os`
    is an `OsProxy` that records `kill(self, SIGINT)` / `_exit` with the virtual time and delivers the
    KeyboardInterrupt to the logical main thread.  Rung / exit status / exit time / SIGINT time are compared
    with the Lean model (`exit.run`), and judged by the property's own oracle (gone within 15 s; idle and
    receive-blocked workers within 2 s).
(ii) process level: a real initiator process (harness/c11_initiator.py) creates popen (thorough: via and
    socket) workers running each activity class, then is SIGKILLed / exits / closes the connection at a
    generated moment; oracle: every worker pid is gone within 15 s + 3 s.
"""
from __future__ import annotations

import ctypes
import json
import os
import random
import shutil
import signal
import subprocess
import sys
import threading
import time
import types

from . import common, sched as schedmod

HOOKS = "_c11_hooks"
CLASSES = ("idle", "blocked", "sleeping", "busy", "swallow", "extra0", "extra1")
BOUND_S = 15.0
SLACK_S = 3.0
FAST_S = 2.0


# ---------------------------------------------------------------------------------------
# constants of the code under study (the same regenerated file the theorems are pinned to)
# ---------------------------------------------------------------------------------------
def ladder_constants():
    """(t5, t10) in tenths of a second as extracted by the translator ('-' = unbounded / missing)"""
    import re

    path = os.path.join(common.LEAN, "ExecnetVerif", "Generated", "Tables.lean")
    m = re.search(r"def exitLadderDeci : List Int := \[([^\]]*)\]", open(path, encoding="utf-8").read())
    vals = [v.strip() for v in m.group(1).split(",") if v.strip()] if m else []
    vals = (vals + ["-", "-"])[:2]
    return vals[0], vals[1]


def model_tokens(cls, param):
    return {
        "idle": "idle", "blocked": "blocked", "sleeping": "sleeping %d" % param, "busy": "busy",
        "swallow": "swallow", "extra0": "extra 0", "extra1": "extra 1",
    }[cls]


def ask_model(ctx, cases, fin=0):
    t5, t10 = ladder_constants()
    lines = ["exit.run %s %s %d %d %s" % (t5, t10, fin, c["t0"], model_tokens(c["cls"], c.get("param", 0))) for c in cases]
    return ctx.driver.ask(lines)


# ---------------------------------------------------------------------------------------
# (i) virtual time
# ---------------------------------------------------------------------------------------
class VirtualRun:
    """one in-process run of the real worker code; all times in tenths of a second (virtual)"""

    def __init__(self, execnet, case):
        self.execnet = execnet
        self.gb = execnet.gateway_base
        self.case = case
        self.events = []
        self.started = []
        self.task_threads = {}
        self.swallowed = 0
        self.gone = None  # (deci, status, how)

    def deci(self):
        return int(round(self.sched.now * 10))

    # ---- bodies of the activity classes (run by the real executetask via exec) ----
    def task(self, channel, idx):
        s = self.sched
        kind, arg = self.tasks[idx]
        self.task_threads[idx] = s.current
        self.started.append(idx)
        if kind == "recv":
            channel.receive()
        elif kind == "sleep":
            s.block_until(lambda: False, arg / 10.0, "task.sleep")
        elif kind == "busy":
            s.block_until(lambda: False, None, "task.busy")
        elif kind == "swallow":
            while True:
                try:
                    s.block_until(lambda: False, None, "task.swallow")
                except KeyboardInterrupt:
                    self.swallowed += 1
        elif kind == "daemon":
            s.spawn(lambda: s.block_until(lambda: False, None, "daemon-thread"), name="user-daemon")
        elif kind == "nop":
            pass
        else:  # pragma: no cover
            raise AssertionError(kind)

    def process_gone(self, status, how):
        if self.gone is None:
            self.gone = (self.deci(), status, how)
        self.sched._abort_all()

    def run(self):
        execnet, gb, case = self.execnet, self.gb, self.case
        rng = random.Random(case["sched_seed"])
        s = self.sched = schedmod.Scheduler(rng=rng, timeouts="when_stuck", max_steps=20000)
        em = schedmod.make_execmodel(gb, s)
        a2b = schedmod.Pipe(s)
        b2a = schedmod.Pipe(s)
        io_b = gb.Popen2IO(b2a.writer, a2b.reader, em)
        io_a = gb.Popen2IO(a2b.writer, b2a.reader, em)
        worker = gb.WorkerGateway(io=io_b, id="c11-worker", _startcount=2)
        self.worker = worker
        cls, param, t0 = case["cls"], case.get("param", 0), case["t0"]
        # what to start, and how long after the last start the connection ends so that EOF is seen at t0
        if cls == "idle":
            self.tasks = []
        elif cls == "blocked":
            self.tasks = [("recv", 0)]
        elif cls == "sleeping":
            self.tasks = [("sleep", t0 + param)]
        elif cls == "busy":
            self.tasks = [("busy", 0)]
        elif cls == "swallow":
            self.tasks = [("swallow", 0)]
        elif cls == "extra0":
            self.tasks = [("daemon", 0)]
        elif cls == "extra1":
            # first body keeps the main thread busy while the second is spawned (so it lands on a pool
            # thread), and is over before the connection ends
            self.tasks = [("sleep", max(0, t0 - 1)), ("busy", 0)]
        main_thread = {}

        def on_kill(pid, sig):
            self.events.append(("kill", sig, self.deci()))
            if pid == os.getpid() and sig == signal.SIGINT and "t" in main_thread:
                s.interrupt(main_thread["t"], KeyboardInterrupt())

        def on_exit(code):
            self.events.append(("_exit", code, self.deci()))
            self.process_gone(code, "_exit")

        osproxy = schedmod.OsProxy(gb.os, s, on_kill=on_kill, on_exit=on_exit)
        hooks = types.ModuleType(HOOKS)
        hooks.task = self.task
        sys.modules[HOOKS] = hooks
        real_os = gb.os
        real_interrupt_main = gb.interrupt_main

        def fake_interrupt_main():
            self.events.append(("interrupt_main", 2, self.deci()))
            if "t" in main_thread:
                s.interrupt(main_thread["t"], KeyboardInterrupt())

        def worker_main():
            try:
                worker.serve()
            except schedmod.SchedAbort:
                raise
            except BaseException as e:  # noqa: BLE001 - an exception out of serve() ends the interpreter with status 1
                self.events.append(("serve-raise", type(e).__name__, self.deci()))
                self.process_gone(1, "serve-raise")
                return
            self.events.append(("serve-return", 0, self.deci()))
            self.process_gone(0, "serve-return")

        def initiator():
            Message = gb.Message
            chid = 1
            for idx in range(len(self.tasks)):
                src = "import sys; sys.modules[%r].task(channel, %d)" % (HOOKS, idx)
                Message(Message.CHANNEL_EXEC, chid, gb.dumps_internal((src, None, None, {}))).to_io(io_a)
                chid += 2
                s.block_until(lambda: idx in self.started, None, "init.wait-started")
            if t0 > 0:
                s.block_until(lambda: False, t0 / 10.0, "init.delay")
            end = case.get("end", "eof")
            if end == "terminate":
                Message(Message.GATEWAY_TERMINATE, 0, b"").to_io(io_a)
            elif end == "cut":
                # mid-transfer: a frame header promising 1000 payload bytes, 10 of them, then the end
                import struct

                io_a.write(struct.pack("!bii", Message.CHANNEL_DATA, 1, 1000) + b"x" * 10)
            self.events.append(("end", end, self.deci()))
            a2b.writer.close()

        def main():
            main_thread["t"] = s.spawn(worker_main, name="worker-main")
            s.spawn(initiator, name="initiator")

        gb.os = osproxy
        gb.interrupt_main = fake_interrupt_main
        hang = None
        try:
            try:
                s.run(main, wall_timeout=60.0)
            except schedmod.Deadlock as e:
                hang = str(e)
        finally:
            if not s.aborted:
                s._abort_all()
            for t in s.threads:  # let every logical thread unwind before the real os module is back
                if t.real is not None:
                    t.real.join(5.0)
            # finalizers of dropped channels may still call scheduler primitives: make them no-ops
            s.current = None
            s.aborted = False
            gb.os = real_os
            gb.interrupt_main = real_interrupt_main
            sys.modules.pop(HOOKS, None)
        return self.summary(hang)

    def summary(self, hang):
        t0 = self.case["t0"]
        ends = [e for e in self.events if e[0] == "end"]
        end_at = ends[0][2] if ends else None
        kills = [e for e in self.events if e[0] in ("kill", "interrupt_main")]
        out = dict(events=self.events, hang=hang, end_at=end_at, swallowed=self.swallowed,
                   pool_thread_of_last=None)
        if self.task_threads:
            last = max(self.task_threads)
            out["pool_thread_of_last"] = self.task_threads[last].name
        if self.gone is None:
            out["canon"] = "never"
            return out
        when, status, how = self.gone
        sig = [k[2] for k in kills if k[2] <= when]
        rung = "hardexit" if how == "_exit" else ("sigint" if sig else "clean")
        out["canon"] = "rung=%s status=%d exit=%d sigint=%s" % (rung, status, when, sig[0] if sig else "-")
        out["exit"] = when
        return out


def gen_virtual_case(rng, i):
    cls = CLASSES[i % len(CLASSES)] if rng.random() < 0.7 else rng.choice(CLASSES)
    t0 = rng.choice([0, 1, 2, 3, 7, 10, 25, 49, 50, 51, 100, 333]) if rng.random() < 0.5 else rng.randint(0, 400)
    if cls == "extra1" and t0 < 2:
        t0 = 2
    case = dict(cls=cls, t0=t0, sched_seed=rng.randrange(1 << 30), end=rng.choice(["eof", "eof", "terminate", "cut"]))
    if cls == "sleeping":
        # remaining sleep at the moment of EOF; the exact ties 50 / 150 (task end == wait deadline) are
        # scheduler-dependent and excluded (either outcome obeys the bound)
        d = rng.choice([1, 2, 10, 30, 48, 49, 51, 52, 60, 99, 100, 149, 151, 200, 1000, 5000])
        if rng.random() < 0.4:
            d = rng.randint(1, 400)
        if d in (50, 150):
            d += 1
        case["param"] = d
    return case


VIRTUAL_CORPUS = [
    dict(cls="idle", t0=0, sched_seed=1, end="eof"),
    dict(cls="idle", t0=7, sched_seed=2, end="terminate"),
    dict(cls="blocked", t0=3, sched_seed=3, end="eof"),
    dict(cls="blocked", t0=0, sched_seed=4, end="cut"),
    dict(cls="sleeping", param=49, t0=10, sched_seed=5, end="eof"),
    dict(cls="sleeping", param=51, t0=10, sched_seed=6, end="eof"),
    dict(cls="sleeping", param=5000, t0=0, sched_seed=7, end="terminate"),
    dict(cls="busy", t0=12, sched_seed=8, end="eof"),
    dict(cls="swallow", t0=5, sched_seed=9, end="eof"),
    dict(cls="swallow", t0=0, sched_seed=10, end="cut"),
    dict(cls="extra0", t0=4, sched_seed=11, end="eof"),
    dict(cls="extra1", t0=20, sched_seed=12, end="eof"),
    dict(cls="extra1", t0=2, sched_seed=13, end="terminate"),
]


def check_virtual(ctx, res, cases, origin, chunk=200):
    """in chunks, so that a broken implementation is reported after the first few failing cases"""
    for i in range(0, len(cases), chunk):
        _check_virtual(ctx, res, cases[i:i + chunk], origin)
        if len(res.violations) >= 20:
            break


def _check_virtual(ctx, res, cases, origin):
    outs = []
    for case in cases:
        vr = VirtualRun(ctx.execnet, case)
        outs.append(vr.run())
    models = ask_model(ctx, cases)
    for case, out, model in zip(cases, outs, models):
        key = dict(case, kind="virtual", origin=origin)
        res.count(("virtual", case["cls"], case.get("param"), case["t0"], case["end"], case["sched_seed"]),
                  nontrivial=case["cls"] != "idle")
        res.stat("virtual_" + case["cls"])
        res.stat("end_" + case["end"])
        # ---- model-free oracle: gone within 15 s of the end of the connection; fast classes within 2 s
        t0 = out["end_at"]
        if out["canon"] == "never":
            res.violations.append(dict(case=key, what="worker never exits after the connection ended (virtual time): "
                                       + (out["hang"] or "no exit recorded")[:600], impl=out["events"], finding=None))
            continue
        if t0 is None or t0 != case["t0"]:
            res.mismatches.append(dict(op="virtual-setup", case=key, impl="connection ended at %r" % (t0,), model="t0=%d" % case["t0"]))
            continue
        lived = out["exit"] - t0
        if lived > BOUND_S * 10:
            res.violations.append(dict(case=key, what="worker outlived the end of its connection by %.1f s (> 15 s), virtual time" % (lived / 10.0),
                                       impl=out["events"], finding=None))
            continue
        if case["cls"] in ("idle", "blocked", "extra0") and lived > FAST_S * 10:
            res.violations.append(dict(case=key, what="idle/receive-blocked worker needed %.1f s to exit (virtual time)" % (lived / 10.0),
                                       impl=out["events"], finding=None))
            continue
        if case["cls"] == "extra1" and out["pool_thread_of_last"] == "worker-main":
            res.mismatches.append(dict(op="virtual-setup", case=key, impl="second body ran on the main thread", model="pool thread"))
            continue
        # ---- correspondence with the Lean model
        mcanon, _, mpath = model.partition(" path=")
        for pc in mpath.split(","):
            res.stat("model_pc_" + pc)
        res.stat("model_" + mcanon.split(" ")[0])
        if mcanon != out["canon"]:
            res.mismatches.append(dict(op="exit.run", case=key, impl=out["canon"], model=mcanon, events=out["events"]))
        else:
            res.traces += 1
        res.sample(dict(case=case, impl=out["canon"]))


# ---------------------------------------------------------------------------------------
# (ii) process level
# ---------------------------------------------------------------------------------------
_subreaper = {"set": False, "ok": False}


def become_subreaper():
    """orphaned workers are re-parented to this process, so their exit status can be collected"""
    if not _subreaper["set"]:
        _subreaper["set"] = True
        try:
            libc = ctypes.CDLL(None, use_errno=True)
            _subreaper["ok"] = libc.prctl(36, 1, 0, 0, 0) == 0  # PR_SET_CHILD_SUBREAPER
        except Exception:  # noqa: BLE001
            _subreaper["ok"] = False
    return _subreaper["ok"]


def proc_state(pid):
    """None = no such process; else the state letter of /proc/<pid>/stat ('Z' = exited, not yet reaped)"""
    try:
        with open("/proc/%d/stat" % pid) as f:
            return f.read().rsplit(")", 1)[1].split()[0]
    except (OSError, IndexError):
        return None


def proc_ppid(pid):
    try:
        with open("/proc/%d/stat" % pid) as f:
            return int(f.read().rsplit(")", 1)[1].split()[1])
    except (OSError, IndexError, ValueError):
        return None


def descendants(root):
    """live pids whose ancestor chain contains `root` (one /proc scan)"""
    ppid = {}
    for name in os.listdir("/proc"):
        if name.isdigit():
            p = proc_ppid(int(name))
            if p is not None:
                ppid[int(name)] = p
    out = []
    for pid in ppid:
        cur, hops = pid, 0
        while cur in ppid and hops < 50:
            cur = ppid[cur]
            hops += 1
            if cur == root:
                out.append(pid)
                break
    return sorted(out)


def reap(pid):
    """exit status if `pid` is our (adopted) child and has exited, else None"""
    try:
        got, status = os.waitpid(pid, os.WNOHANG)
    except (ChildProcessError, OSError):
        return None
    if got == 0:
        return None
    if os.WIFSIGNALED(status):
        return -os.WTERMSIG(status)
    return os.WEXITSTATUS(status)


def kill_quietly(pid):
    try:
        os.kill(pid, signal.SIGCONT)
        os.kill(pid, signal.SIGKILL)
    except OSError:
        pass


PROC_CLASS_PRED = {
    # cls -> (model class, param) given the remaining sleep
    "idle": ("idle", 0), "blocked": ("blocked", 0), "sleep-short": ("sleeping", 10), "sleep-long": ("sleeping", 300),
    "busy": ("busy", 0), "swallow": ("swallow", 0), "extra0": ("extra0", 0), "extra1": ("extra1", 0),
    "sighandler": ("swallow", 0), "sigign": ("swallow", 0),
    # main_thread_only worker, a sleeping body, two further remote_execs (a refused one and its retry) before the end
    "mto-retry": ("sleeping", 300),
    # a sleeping body with a left-over callback of a dropped channel / with 12 000 unread items in its queue
    "cb-dropped": ("sleeping", 300), "backlog": ("sleeping", 300),
    "transfer-in": ("blocked", 0), "transfer-out": ("blocked", 0),
}


def gen_process_cases(ctx, rng):
    quick = not ctx.thorough and not ctx.search_mode
    cases = []
    if quick:
        base = [
            ("popen", "idle", "idle", "kill"), ("popen", "blocked", "mid-exec", "kill"), ("popen", "sleep-short", "mid-exec", "_exit"),
            ("popen", "extra0", "mid-exec", "kill"), ("popen", "transfer-in", "mid-transfer", "kill"),
            ("popen", "idle", "bootstrap", "kill"), ("popen", "blocked", "mid-exec", "close"), ("popen", "busy", "mid-exec", "exit"),
            # one full ladder on every run (15 s, in parallel with the others): the code under execution took over SIGINT
            ("popen", "sighandler", "mid-exec", "kill"),
            # main_thread_only: overlapping remote_execs were refused before the initiator went away — the receiver thread
            # must still be reading (and see the EOF)
            ("popen", "mto-retry", "mid-exec", "kill"),
            ("popen", "cb-dropped", "mid-exec", "kill"), ("popen", "backlog", "mid-exec", "_exit"),
        ]
        for topo, cls, moment, mode in base:
            cases.append(dict(topo=topo, cls=cls, moment=moment, mode=mode, delay=round(rng.uniform(0.0, 0.3), 3)))
        return cases
    topos = ["popen", "via", "socket"] * (3 if ctx.thorough else 1)   # thorough: three draws of delays / skipped modes
    classes = ["idle", "blocked", "sleep-short", "sleep-long", "busy", "swallow", "extra0", "extra1", "sighandler", "sigign"]
    cases += [dict(topo="popen", cls=c, moment="mid-exec", mode=m, delay=round(rng.uniform(0.0, 0.5), 3))
              for c in ("mto-retry", "cb-dropped", "backlog") for m in ("kill", "_exit")]
    for topo in topos:
        for cls in classes:
            for mode in ("kill", "_exit", "close", "exit"):
                if cls == "idle":
                    moment = "idle"
                else:
                    moment = "mid-exec"
                if mode in ("close", "exit") and rng.random() < 0.5 and cls not in ("swallow", "busy", "sighandler"):
                    continue
                if topo == "socket" and mode == "close":
                    continue  # the socket worker lives inside the popen worker that installed it: no process ends
                cases.append(dict(topo=topo, cls=cls, moment=moment, mode=mode, delay=round(rng.uniform(0.0, 0.5), 3)))
        for cls in ("transfer-in", "transfer-out"):
            for mode in ("kill", "_exit"):
                cases.append(dict(topo=topo, cls=cls, moment="mid-transfer", mode=mode, delay=round(rng.uniform(0.0, 0.5), 3)))
        for _ in range(3):
            cases.append(dict(topo=topo, cls="idle", moment="bootstrap", mode="kill", delay=round(rng.uniform(0.0, 0.4), 3)))
    return cases


def predicted_seconds(ctx, case):
    """model prediction of (exit seconds after the end of the connection, status) for ladder cases, else None"""
    if case["mode"] == "exit" or case["moment"] == "bootstrap":
        return None
    mcls, param = PROC_CLASS_PRED[case["cls"]]
    t5, t10 = ladder_constants()
    fwd = []
    # `close` ends the proxied worker's connection directly (RIO_CLOSE_WRITE); otherwise a via worker sees the
    # end only when its forwarder's task is over: at the SIGINT rung, or earlier when the worker writes a frame
    # (the forward to the dead master fails) — sleep-short writes CHANNEL_CLOSE when its body ends after 1 s,
    # transfer-out writes all the time
    if case["topo"] == "via" and case["mode"] != "close":
        if case["cls"] == "sleep-short":
            fwd, mcls = ["s%d" % param], "idle"
        elif case["cls"] == "transfer-out":
            fwd = ["s0"]
        else:
            fwd = ["busy"]
            if mcls == "sleeping":
                param = max(0, param - (int(t5) if t5 != "-" else 0))
    line = "exit.via %s %s 0 0 %s via %s" % (t5, t10, model_tokens(mcls, param), " ".join(fwd))
    out = ctx.driver.ask([line.rstrip()])[0]
    if not out.startswith("rung="):
        return None
    f = dict(kv.split("=") for kv in out.split(" "))
    return dict(seconds=int(f["exit"]) / 10.0, status=int(f["status"]), rung=f["rung"], line=line)


class ProcCase(threading.Thread):
    """one initiator process with its workers; runs in its own harness thread"""

    def __init__(self, case, scratch, idx):
        super().__init__(daemon=True)
        self.case = case
        self.dir = os.path.join(scratch, "p%d" % idx)
        os.makedirs(self.dir, exist_ok=True)
        self.result = None
        self.error = None

    def run(self):
        try:
            self.result = self._run()
        except BaseException as e:  # noqa: BLE001
            import traceback

            self.error = "%r\n%s" % (e, traceback.format_exc())

    def _run(self):
        case = self.case
        ready = os.path.join(self.dir, "ready.json")
        ended = os.path.join(self.dir, "ended.json")
        spec = dict(case, ready=ready, ended=ended)
        env = dict(os.environ)
        env["PYTHONPATH"] = os.path.join(common.REPO, "src")
        env["PYTHONDONTWRITEBYTECODE"] = "1"
        errf = open(os.path.join(self.dir, "stderr.txt"), "wb")
        init = subprocess.Popen(
            [sys.executable, os.path.join(os.path.dirname(os.path.abspath(__file__)), "c11_initiator.py"), json.dumps(spec)],
            stdin=subprocess.DEVNULL, stdout=errf, stderr=errf, env=env, cwd=self.dir,
        )
        pids = {}
        t_end = None
        leftovers = []
        try:
            deadline = time.time() + 60
            if case["moment"] == "bootstrap":
                # kill the initiator while makegateway is in progress: as soon as a child process exists
                while time.time() < deadline and init.poll() is None:
                    kids = descendants(init.pid)
                    if kids:
                        for k in kids:
                            pids["child%d" % k] = k
                        break
                    time.sleep(0.002)
                time.sleep(case["delay"])
                for k in descendants(init.pid):
                    pids["child%d" % k] = k
                init.kill()
                t_end = time.time()
                init.wait()
            else:
                while time.time() < deadline and not os.path.exists(ready):
                    if init.poll() is not None:
                        raise common.ToolFailure("C11 initiator exited early (%r): %s" % (init.returncode, self._stderr()))
                    time.sleep(0.01)
                if not os.path.exists(ready):
                    raise common.ToolFailure("C11 initiator not ready within 60 s: " + self._stderr())
                with open(ready) as f:
                    pids = {k: int(v) for k, v in json.load(f)["pids"].items()}
                if case["mode"] == "kill":
                    time.sleep(case["delay"])
                    init.kill()
                    t_end = time.time()
                    init.wait()
                else:
                    while time.time() < deadline and not os.path.exists(ended):
                        if init.poll() is not None and not os.path.exists(ended):
                            time.sleep(0.05)
                            if not os.path.exists(ended):
                                raise common.ToolFailure("C11 initiator died before ending the connection: " + self._stderr())
                        time.sleep(0.005)
                    with open(ended) as f:
                        t_end = json.load(f)["t"]
            # ---- observe the workers (when the initiator only closes w's connection, only w must go away)
            others = {}
            if case["mode"] == "close":
                others = {k: v for k, v in pids.items() if k != "w" and v != pids.get("w")}
                pids = {k: v for k, v in pids.items() if k not in others}
            gone = {}
            last_scan = 0.0
            limit = t_end + BOUND_S + SLACK_S + (5.0 if case["topo"] == "via" else 0.0) + 1.0
            while time.time() < limit and len(gone) < len(pids):
                for name, pid in pids.items():
                    if name in gone:
                        continue
                    st = proc_state(pid)
                    if st is None or st == "Z":
                        gone[name] = dict(after=round(time.time() - t_end, 3), status=reap(pid))
                if case["moment"] == "bootstrap" and time.time() - last_scan > 0.2:
                    # a forwarder may still start the proxied worker after the initiator is dead
                    last_scan = time.time()
                    for name, pid in list(pids.items()):
                        if name not in gone:
                            for k in descendants(pid):
                                if k not in pids.values():
                                    pids["child%d" % k] = k
                time.sleep(0.02)
            leftovers = [(n, p) for n, p in pids.items() if n not in gone]
            return dict(pids=pids, gone=gone, alive=[n for n, _ in leftovers], t_end=t_end)
        finally:
            for _n, p in leftovers:
                kill_quietly(p)
            for _n, p in list(pids.items()) + list(locals().get("others", {}).items()):
                st = proc_state(p)
                if st is not None and st != "Z":
                    kill_quietly(p)
            if init.poll() is None:
                for k in descendants(init.pid):
                    kill_quietly(k)
                init.kill()
                init.wait()
            for _n, p in list(pids.items()) + list(locals().get("others", {}).items()):
                reap(p)
            errf.close()

    def _stderr(self):
        try:
            with open(os.path.join(self.dir, "stderr.txt"), "rb") as f:
                return f.read().decode("utf-8", "replace")[-1500:]
        except OSError:
            return ""


def classify_process(case, name, after):
    """known shape: a worker behind a forwarding gateway sees the end of its connection only when the
    forwarder left through ITS SIGINT rung (5 s), so a KeyboardInterrupt-swallowing body lives 5 s + 15 s"""
    if case["topo"] == "via" and name == "w" and case["cls"] in ("swallow", "sighandler", "sigign") and case["mode"] in ("kill", "_exit") \
            and after is not None and after <= BOUND_S + 5.0 + SLACK_S:
        return "C11-via-worker-ladder-starts-after-forwarder-sigint-rung"
    return None


def _case_key(c):
    return tuple(c.get(k) for k in ("topo", "cls", "moment", "mode", "delay"))


def check_processes(ctx, res, cases, origin, parallel=16):
    """Run the cases (16 at a time: up to ~50 processes, some of them spinning).  The oracles are wall-clock bounds, so an
    alarm of the parallel batch is confirmed by running that case again with one neighbour at most before it is reported:
    a worker that really outlives its initiator does so again, a bound missed because the machine was busy does not."""
    first = common.Result()
    _check_processes(ctx, first, cases, origin, parallel)
    alarms = [v for v in first.violations + first.mismatches if v.get("finding") is None]
    if alarms and origin != "replay" and len(cases) > 2:
        again_cases = []
        for v in alarms:
            c = {k: v["case"][k] for k in ("topo", "cls", "moment", "mode", "delay")}
            if c not in again_cases:
                again_cases.append(c)
        again_cases = again_cases[:8]
        rerun = {_case_key(c) for c in again_cases}
        again = common.Result()
        _check_processes(ctx, again, again_cases, origin + "-confirm", parallel=2)
        bad_again = {_case_key(v["case"]) for v in again.violations + again.mismatches}

        def keep(v):
            k = _case_key(v["case"])
            return v.get("finding") is not None or k not in rerun or k in bad_again
        dropped = sum(1 for v in first.violations + first.mismatches if not keep(v))
        first.violations = [v for v in first.violations if keep(v)]
        first.mismatches = [v for v in first.mismatches if keep(v)]
        first.stat("process_alarms_of_the_parallel_batch_not_confirmed_alone", dropped)
        first.evaluations += again.evaluations
    common.merge_results(res, first)


def _check_processes(ctx, res, cases, origin, parallel=16):
    become_subreaper()
    scratch = common.scratch_dir("c11")
    try:
        idx = 0
        # long (ladder) cases first so that short ones fill the tail
        order = sorted(range(len(cases)), key=lambda i: 0 if cases[i]["cls"] in ("swallow", "busy", "sleep-long", "extra1") else 1)
        pending = [cases[i] for i in order]
        running = []
        done = []
        while pending or running:
            while pending and len(running) < parallel:
                pc = ProcCase(pending.pop(0), scratch, idx)
                idx += 1
                pc.start()
                running.append(pc)
            for pc in list(running):
                pc.join(0.05)
                if not pc.is_alive():
                    running.remove(pc)
                    done.append(pc)
        for pc in done:
            case = pc.case
            key = dict(case, kind="process", origin=origin)
            if pc.error is not None:
                raise common.ToolFailure("C11 process case failed to run: %s\n%s" % (case, pc.error))
            r = pc.result
            res.count(("process", case["topo"], case["cls"], case["moment"], case["mode"], case["delay"]), nontrivial=True)
            res.stat("process_%s_%s" % (case["topo"], case["cls"]))
            res.stat("moment_" + case["moment"])
            res.stat("mode_" + case["mode"])
            bad = False
            for name in r["alive"]:
                res.violations.append(dict(case=key, what="worker process %s (pid %d) still alive %.0f s after its initiator went away (killed by the harness)"
                                           % (name, r["pids"][name], BOUND_S + SLACK_S), impl=r, finding=classify_process(case, name, None)))
                bad = True
            for name, g in r["gone"].items():
                if g["after"] > BOUND_S + SLACK_S:
                    res.violations.append(dict(case=key, what="worker process %s outlived its initiator by %.1f s (> 15 s + 3 s)" % (name, g["after"]),
                                               impl=r, finding=classify_process(case, name, g["after"])))
                    bad = True
                elif case["topo"] == "popen" and case["cls"] in ("idle", "blocked", "extra0") and case["moment"] != "bootstrap" \
                        and case["mode"] != "exit" and g["after"] > FAST_S + SLACK_S:
                    res.violations.append(dict(case=key, what="idle/receive-blocked worker %s needed %.1f s to exit" % (name, g["after"]), impl=r, finding=None))
                    bad = True
            if bad:
                continue
            res.traces += 1
            pred = predicted_seconds(ctx, case)
            if pred is not None and "w" in r["gone"]:
                g = r["gone"]["w"]
                # socket workers live inside the popen worker that installed the socket server: two ladders in
                # one process, the earlier one wins — only the bound is checked there
                if case["topo"] != "socket":
                    lo, hi = pred["seconds"] - 1.0, pred["seconds"] + SLACK_S
                    if not (lo <= g["after"] <= hi):
                        res.mismatches.append(dict(op="exit.via(process)", case=key, impl="gone after %.2f s status %r" % (g["after"], g["status"]),
                                                   model="%s after %.1f s status %d" % (pred["rung"], pred["seconds"], pred["status"])))
                    elif g["status"] is not None and g["status"] != pred["status"]:
                        res.mismatches.append(dict(op="exit.via(process)", case=key, impl="status %r" % (g["status"],), model="status %d (%s)" % (pred["status"], pred["rung"])))
            res.sample(dict(case=case, gone=r["gone"]))
    finally:
        shutil.rmtree(scratch, ignore_errors=True)


# ---------------------------------------------------------------------------------------
def run(ctx):
    res = common.Result()
    res.rule = ("virtual: activity class x remaining sleep x virtual moment t0 x way the connection ends (EOF / GATEWAY_TERMINATE / "
                "cut inside a frame) x scheduler seed, real serve()/_terminate_execution under the deterministic scheduler; "
                "process: transport x activity class x moment (bootstrap / idle / mid-exec / mid-transfer) x how the initiator "
                "goes away (SIGKILL / os._exit / exit with atexit / close of the connection); distinct = distinct case tuple; "
                "non-trivial = anything but the idle class in virtual time")
    res.assumptions = ["signal delivery (SIGINT raises KeyboardInterrupt in the main thread, also out of lock waits), interpreter "
                       "shutdown with daemon threads, pipe EOF on parent death: CPython/OS behaviour, sampled by the process-level runs only"]
    check_virtual(ctx, res, VIRTUAL_CORPUS, "corpus")
    rng = ctx.rng("virtual")
    n = ctx.budget(1000, 30000, 6000)
    check_virtual(ctx, res, [gen_virtual_case(rng, i) for i in range(n)], "gen")
    if res.violations:
        return res
    prng = ctx.rng("process")
    check_processes(ctx, res, gen_process_cases(ctx, prng), "gen")
    return res


def search(ctx, prev):
    return run(ctx)


def replay(ctx, payload):
    res = common.Result()
    case = dict(payload["case"])
    kind = case.pop("kind", "virtual")
    case.pop("origin", None)
    if kind == "virtual":
        check_virtual(ctx, res, [case], "replay")
    else:
        check_processes(ctx, res, [case], "replay")
    return res
