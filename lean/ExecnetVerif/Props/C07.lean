/-
C07 — Remote failures surface as RemoteError on that channel only.
-/
import ExecnetVerif.Proofs.Net.Plumbing
import ExecnetVerif.Proofs.Net.Got
import ExecnetVerif.Proofs.Net.Isolation
namespace ExecnetVerif
open Net

/-- **C07 (the error comes after all earlier items).** Whenever `receive` returns a RemoteError —
for a failing remote_exec body or a failing callback on the other side — every item that had been
accepted for that channel before the error has already been obtained: the error is queued behind
the data, never ahead of it. -/
theorem C07_error_after_items {fails : Item → Bool} {st : State} (h : Reachable fails st) (p : Side) (id e : Nat)
    (hr : (step fails st (.receive p id)).1 = .remoteError e) (hb : (st.side p).broken id = false) :
    (st.side p).got id = (st.side p).kept id :=
  Net.C07_error_after_items (ShapeInv_reachable h) (GotInv_reachable h) hr hb

/-- **C07 (exactly once).** A `receive` or `waitclose` that reports a RemoteError consumes it: the error
list of the channel shrinks by exactly that error, so each failure is reported once; afterwards the
calls report EOFError / return. -/
theorem C07_reported_once (fails : Item → Bool) (st : State) (p : Side) (id e : Nat) :
    ((step fails st (.waitclose p id)).1 = .remoteError e →
      ((st.side p).chans id).rerrs = e :: (((step fails st (.waitclose p id)).2.side p).chans id).rerrs) ∧
    ((step fails st (.receive p id)).1 = .remoteError e →
      ((st.side p).chans id).rerrs = e :: (((step fails st (.receive p id)).2.side p).chans id).rerrs) := by
  constructor
  · intro h
    by_cases ha : ((st.side p).chans id).alive = true
    · by_cases hrc : ((st.side p).chans id).rclosed = true
      · cases hre : ((st.side p).chans id).rerrs with
        | nil =>
          simp only [step, ha, hrc, hre, Bool.not_true, Bool.false_eq_true, if_false] at h
          split at h <;> cases h
        | cons e' es =>
          simp only [step, ha, hrc, hre, Bool.not_true, Bool.false_eq_true, if_false] at h ⊢
          cases h
          simp [State.side_set_same, upd_same]
      · simp [step, ha, hrc] at h
    · simp [step, ha] at h
  · intro h
    by_cases ha : ((st.side p).chans id).alive = true
    · cases hq : ((st.side p).chans id).queue with
      | none => simp [step, ha, hq] at h
      | some q =>
        cases q with
        | nil => simp [step, ha, hq] at h
        | cons x q' =>
          cases x with
          | item v => simp [step, ha, hq] at h
          | endmarker =>
            cases hre : ((st.side p).chans id).rerrs with
            | nil => simp [step, ha, hq, hre] at h
            | cons e' es =>
              simp only [step, ha, hq, hre, Bool.not_true, Bool.false_eq_true, if_false] at h ⊢
              cases h
              simp [State.side_set_same, upd_same]
    · simp [step, ha] at h

/-- **C07 (isolation).** While the connection is up (`x.ioOpen`), handling a frame that concerns
channel `id` — data for a failing callback, a remote error, a close — leaves every other channel's
record, callback, callback log and obtained items untouched (other than channels carried inside the
item itself).  (Once the IO has been closed, a raising callback can no longer report its error: the
OSError of the failed CLOSE_ERROR write ends the receiver thread, whose epilogue closes every channel —
`Net.C07_failing_callback_io_closed`.) -/
theorem C07_isolation (fails : Item → Bool) (x : SideSt) (w : Bool) (f : Frame) (id : Nat)
    (hio : x.ioOpen = true) (ht : f.target = some id) (j : Nat) (hj : j ≠ id) (hc : j ∉ f.carried) :
    (handle fails x w f).chans j = x.chans j ∧ (handle fails x w f).cbs j = x.cbs j ∧
    (handle fails x w f).cbLog j = x.cbLog j ∧ (handle fails x w f).got j = x.got j ∧
    (handle fails x w f).kept j = x.kept j :=
  Net.C07_isolation fails x w f id hio ht j hj hc

/-- **C07 (the connection stays up).** While the connection is up (`x.ioOpen`), no channel-level
frame — whatever its content, not even a callback that raises — ends the receiver thread or closes
the IO.  (The hypothesis is needed: after the IO has been closed, a raising callback's CLOSE_ERROR
cannot be written and the escaping OSError ends the receiver thread.) -/
theorem C07_connection_stays (fails : Item → Bool) (x : SideSt) (w : Bool) (f : Frame) (hf : f ≠ .terminate)
    (hio : x.ioOpen = true) :
    (handle fails x w f).finished = x.finished ∧ (handle fails x w f).ioOpen = x.ioOpen ∧
    (handle fails x w f).gwerr = x.gwerr :=
  Net.C07_connection_stays fails x w f hf hio

/-- **C07 (the failing side).** When a callback raises on an item, the failing side sends exactly one
CLOSE_ERROR for that channel, unregisters the callback, and — if the channel object still exists —
closes it with the error attached as a proper RemoteError for its own `waitclose`/`receive`. -/
theorem C07_failing_callback (fails : Item → Bool) (x : SideSt) (wk : Bool) (id : Nat) (v : Item) (w : Bool)
    (hcb : x.cbs id = some w) (hf : fails v = true) (hio : x.ioOpen = true) :
    (handle fails x wk (.data id v)).out = x.out ++ [.closeErr id v.val] ∧
    (handle fails x wk (.data id v)).cbs id = none ∧
    ((handle fails x wk (.data id v)).chans id).registered = false ∧
    ((x.chans id).registered = true →
      ((handle fails x wk (.data id v)).chans id).closed = true ∧
      ((handle fails x wk (.data id v)).chans id).rclosed = true ∧
      ((handle fails x wk (.data id v)).chans id).rerrs = (x.chans id).rerrs ++ [v.val]) :=
  Net.C07_failing_callback fails x wk id v w hcb hf hio

/-! non-vacuity: a remote body raising error 5 after one item; the initiator gets the item, then the error
once, then EOF -/
example : ((run (fun _ => false) init [.remoteExec, .deliver .B, .send .B 1 ⟨7, []⟩, .execFinish 1 (.raise 5),
    .deliver .A, .deliver .A, .receive .A 1, .receive .A 1, .receive .A 1]).1
    = [.chan 1, .ok, .ok, .ok, .ok, .ok, .item ⟨7, []⟩, .remoteError 5, .eofError]) := by decide

end ExecnetVerif
