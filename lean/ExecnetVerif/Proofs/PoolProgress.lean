/-
Progress lemmas for the WorkerPool model: in a state satisfying `Inv`, whoever holds the lock, and whoever
executes an unfinished task, has an enabled step that is neither a time-out nor the start of a new API call.
-/
import ExecnetVerif.Proofs.PoolReach
namespace ExecnetVerif.Pool

/-- some step other than a time-out expiry or the start of a new client call is enabled -/
def Progress (c : Config) (s : State) : Prop :=
  ∃ a : Agent × Action, a.2.isTimeout = false ∧ a.2.isCall = false ∧ (step c s a).isSome = true

/-- the submission protocol the property prescribes for `main_thread_only` pools with a primary thread -/
def Protocol (c : Config) : Prop := c.primary = true → c.mto = true → c.gated = true

theorem progress_user {c : Config} {s : State} (i : Uid) (act : Action)
    (h1 : act.isTimeout = false) (h2 : act.isCall = false) (h : (userStep c s i act).isSome = true) :
    Progress c s := ⟨(.user i, act), h1, h2, by simpa [step] using h⟩

theorem progress_prim {c : Config} {s : State} (act : Action)
    (hp : act.isPrim = true) (h : (primStep c s act).isSome = true) : Progress c s := by
  refine ⟨(.primary, act), ?_, ?_, by simpa [step, hp] using h⟩ <;> cases act <;> simp_all [Action.isPrim, Action.isTimeout, Action.isCall]

theorem progress_task {c : Config} {s : State} (a : Agent) (t : TaskId) (act : Action)
    (hx : canExec s a t = true) (hact : act.isPrim = false) (h1 : act.isTimeout = false) (h2 : act.isCall = false)
    (h : (taskStep s a act).isSome = true) : Progress c s := by
  refine ⟨(a, act), h1, h2, ?_⟩
  cases a with
  | user i => simp [canExec] at hx
  | worker u => simpa [step] using h
  | primary => simpa [step, hact] using h

theorem canExec_exists {c : Config} {s : State} (h : Inv c s) (t : TaskId)
    (hp : primExec (s.phase t) = true ∨ s.phase t = .created) : ∃ a, canExec s a t = true := by
  cases hprim : s.prim t
  · exact ⟨.worker t, by simp [canExec, hprim]⟩
  · rcases hp with hp | hp
    · exact ⟨.primary, by simp [canExec, (h.primRun t).2 ⟨hprim, hp⟩]⟩
    · have := h.workOf t hp; simp_all

/-- the executor of a task that is past the mailbox and does not need the lock can move -/
theorem exec_progress {c : Config} {s : State} (h : Inv c s) (t : TaskId)
    (hp : s.phase t = .inHand ∨ s.phase t = .created ∨ s.phase t = .body ∨ s.phase t = .ended ∨ s.phase t = .removing) :
    Progress c s := by
  obtain ⟨a, ha⟩ := canExec_exists h t (by rcases hp with hp | hp | hp | hp | hp <;> simp [hp, primExec])
  rcases hp with hp | hp | hp | hp | hp
  · exact progress_task a t (.tBegin t) ha rfl rfl rfl (by simp [taskStep, ha, hp])
  · exact progress_task a t (.tBegin t) ha rfl rfl rfl (by simp [taskStep, ha, hp])
  · exact progress_task a t (.tEnd t) ha rfl rfl rfl (by simp [taskStep, ha, hp])
  · exact progress_task a t (.tSetReady t) ha rfl rfl rfl (by simp [taskStep, ha, hp])
  · refine progress_task a t (.tRemove t) ha rfl rfl rfl ?_
    simp only [taskStep, ha, hp, and_self, if_true]
    split <;> simp

/-- a spawner blocked in `waitfinish()` (holding the lock) is released by the task it waits for -/
theorem swait_progress {c : Config} {s : State} (h : Inv c s) (hg : c.gated = true) (i : Uid) (t m : TaskId)
    (hu : s.us i = .spawnWait t m) : Progress c s := by
  have hend := h.gateW hg i t m hu
  cases hm : s.phase m <;> simp [hm, bodyEnded] at hend
  · exact exec_progress h m (by simp [hm])
  · exact progress_user i .spawnWaitfin rfl rfl (by simp [userStep, hu, resultReady, hm])
  · exact progress_user i .spawnWaitfin rfl rfl (by simp [userStep, hu, resultReady, hm])
  · exact progress_user i .spawnWaitfin rfl rfl (by simp [userStep, hu, resultReady, hm])

/-- `swait` only occurs in gated configurations when the protocol is followed -/
theorem swait_gated {c : Config} {s : State} (h : Inv c s) (hp : Protocol c) (i : Uid) (t m : TaskId)
    (hu : s.us i = .spawnWait t m) : c.gated = true := by
  have h2 := h.swaitC i t m hu
  exact hp h2.1 h2.2

/-- whoever holds `_running_lock` can move (or the thread it waits for can) -/
theorem lock_progress {c : Config} {s : State} (h : Inv c s) (hp : Protocol c) (a : Agent)
    (hl : s.lock = some a) : Progress c s := by
  cases a with
  | user i =>
    have hh := (h.lockU i).1 hl
    cases hu : s.us i <;> simp [hu, holdsLock] at hh
    · exact progress_user i .spawnCheck rfl rfl (by
        simp only [userStep, hu]
        split
        · simp
        · split
          · simp
          · split <;> simp)
    · rename_i t m
      exact swait_progress h (swait_gated h hp i t m hu) i t m hu
    · exact progress_user i .spawnRelease rfl rfl (by simp [userStep, hu])
    · exact progress_user i .shutDo rfl rfl (by simp only [userStep, hu]; split <;> simp)
    · exact progress_user i .waCheck rfl rfl (by simp only [userStep, hu]; split <;> simp)
  | worker t =>
    have hh := (h.lockW t).1 hl
    exact exec_progress h t (by simp [hh.1])
  | primary =>
    have hh := h.lockP3 hl
    cases hpp : s.pp with
    | chk t => exact progress_prim .pCheck rfl (by
        simp only [primStep, hpp]
        split
        · split
          · simp
          · split <;> simp
        · split
          · split <;> simp
          · simp)
    | run t => exact exec_progress h t (by simp [(hh.2.2.2.2 t).2 hpp])
    | waitReady => simp [hpp] at hh
    | readMbox => simp [hpp] at hh
    | left => simp [hpp] at hh
    | gone => simp [hpp] at hh
    | chkAcq t => have := (hh.2.2.2.2 t).1; simp [hpp] at this

/-- a task whose result is ready is removed from `_running`: its executor takes the lock, or the lock
holder moves -/
theorem resReady_progress {c : Config} {s : State} (h : Inv c s) (hp : Protocol c) (t : TaskId)
    (ht : s.phase t = .resReady) : Progress c s := by
  cases hl : s.lock with
  | some a => exact lock_progress h hp a hl
  | none =>
    obtain ⟨a, ha⟩ := canExec_exists h t (by simp [ht, primExec])
    exact progress_task a t (.tRemAcq t) ha rfl rfl rfl (by simp [taskStep, ha, ht, hl])

/-- the primary thread can move unless it has returned or waits for a mailbox that is not set -/
theorem prim_progress {c : Config} {s : State} (h : Inv c s) (hp : Protocol c)
    (hpp : s.pp ≠ .gone) (hw : s.pp = .waitReady → s.ready = true) : Progress c s := by
  cases hq : s.pp with
  | gone => exact absurd hq hpp
  | waitReady => exact progress_prim .pWait rfl (by simp [primStep, hq, hw hq])
  | readMbox => exact progress_prim .pRead rfl (by cases hm : s.mbox <;> simp [primStep, hq, hm])
  | left => exact progress_prim .pLeave rfl (by simp [primStep, hq])
  | chk t => exact lock_progress h hp .primary (h.lockP1 t hq)
  | chkAcq t =>
    cases hl : s.lock with
    | some a => exact lock_progress h hp a hl
    | none => exact progress_prim .pChkAcq rfl (by simp [primStep, hq, hl])
  | run t =>
    have hx := ((h.primRun t).1 hq).2
    cases hph : s.phase t <;> simp [hph, primExec] at hx
    · exact exec_progress h t (by simp [hph])
    · exact exec_progress h t (by simp [hph])
    · exact exec_progress h t (by simp [hph])
    · exact resReady_progress h hp t hph
    · exact exec_progress h t (by simp [hph])

theorem reachable_runSteps {c : Config} {s s' : State} (l : List (Agent × Action)) (h : Reachable c s)
    (hr : runSteps c s l = some s') : Reachable c s' := by
  induction l generalizing s with
  | nil => simp [runSteps] at hr; exact hr ▸ h
  | cons a rest ih =>
    simp only [runSteps] at hr
    split at hr
    · rename_i s1 hs1; exact ih (Reachable.step h hs1) hr
    · cases hr

/-- the state reached by a concrete schedule from the initial state -/
def runGet (c : Config) (l : List (Agent × Action)) (h : (runSteps c (init c) l).isSome = true) : State :=
  (runSteps c (init c) l).get h

theorem reachable_runGet (c : Config) (l : List (Agent × Action)) (h : (runSteps c (init c) l).isSome = true) :
    Reachable c (runGet c l h) :=
  reachable_runSteps l Reachable.init (by simp [runGet])

/-- steps never un-accept, and once `_shuttingdown` is set nothing is accepted any more -/
theorem step_shut {c : Config} {s s' : State} {a : Agent × Action} (hs : step c s a = some s')
    (hsh : s.shut = true) : s'.shut = true ∧ s'.accepted = s.accepted ∧ s'.running.length ≤ s.running.length := by
  obtain ⟨ag, act⟩ := a
  cases ag <;> cases act <;> simp only [step, userStep, taskStep, primStep, Action.isPrim, hsh] at hs
  all_goals (try (repeat' split at hs))
  all_goals (first | (cases hs; done) | (cases hs; simp_all; done) | (cases hs; simp_all; exact List.length_erase_le ..) | skip)

end ExecnetVerif.Pool
