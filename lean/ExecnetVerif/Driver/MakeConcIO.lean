/-
Driver command of the concurrent makegateway model (C05).  Not part of any theorem.

  mkc.run <code|inside|norelease> b<c>:<id|-> f<c>:<0|1> …
      → `<out> <out> … | members=<ids> reserved=<sorted ids> procs=<ids> orphans=<ids> inflight=<n>`
      out = res<id> | taken | ok<id> | failed | refused | noten
-/
import ExecnetVerif.Model.MakeGatewayConc
namespace ExecnetVerif
open MakeGatewayConc

def parseMkOp (s : String) : Option Op :=
  match (s.drop 1).toString.splitOn ":" with
  | [c, a] =>
    match c.toNat? with
    | none => none
    | some c =>
      if s.startsWith "b" then
        (if a == "-" then some (.begin c none) else a.toNat?.map fun i => .begin c (some i))
      else if s.startsWith "f" then
        (if a == "1" then some (.finish c true) else if a == "0" then some (.finish c false) else none)
      else none
  | _ => none

def renderMkOut : Out → String
  | .reserved id => s!"res{id}"
  | .idTaken => "taken"
  | .ok id => s!"ok{id}"
  | .failed => "failed"
  | .registerRefused => "refused"
  | .notInFlight => "noten"

def mkIds (l : List Nat) : String := if l.isEmpty then "-" else ",".intercalate (l.map toString)

def mkInsertSorted (x : Nat) : List Nat → List Nat
  | [] => [x]
  | y :: ys => if x ≤ y then x :: y :: ys else y :: mkInsertSorted x ys

def mkConcHandle : List String → Option String
  | "mkc.run" :: cfg :: toks =>
    let c : Option Cfg := match cfg with
      | "code" => some codeCfg
      | "inside" => some { reserveBeforeTry := false, errorPathReleases := true }
      | "norelease" => some { reserveBeforeTry := true, errorPathReleases := false }
      | _ => none
    match c, toks.mapM parseMkOp with
    | some c, some ops =>
      let (outs, w) := run c init ops
      some (" ".intercalate (outs.map renderMkOut) ++
        s!" | members={mkIds w.members} reserved={mkIds (w.reserved.foldr mkInsertSorted [])} procs={mkIds w.procs} " ++
        s!"orphans={mkIds w.orphans} inflight={w.inflight.length}")
    | _, _ => some "bad-op"
  | _ => none

end ExecnetVerif
