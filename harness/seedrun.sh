#!/bin/sh
# usage: harness/seedrun.sh <seeded-id> <property> [check args...] — apply a stored seeded change to /repo, run the check, undo it
id=$1; prop=$2; shift 2
cd /verif || exit 2
git -C /repo status --short | grep -q . && { echo "repo not clean"; exit 2; }
git -C /repo apply /verif/seeded/$id/patch.diff || exit 2
timeout 1500 ./check $prop "$@" 2>&1 | grep -aE "VIOLATION|KNOWN|tier=|Traceback|Error" | cut -c1-260
git -C /repo checkout -- . 
rm -rf /repo/src/execnet/__pycache__
git -C /repo status --short | head -3
