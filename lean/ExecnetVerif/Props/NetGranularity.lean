/-
The granularity of the L3 `Net` model, tied to the source.

`Model/Net.lean` takes `setcallback` (detach the queue, replay the backlog, register the callback), the handling of
one incoming message, the receiver epilogue `_finished_receiving`, the allocation of a channel id and the writing of
one frame as single atomic steps, and `new` refuses a finished factory inside the same critical section that registers the channel.  That is sound only because the code runs each of them inside one critical section
(`_receivelock` / `_writelock` / `_sendlock`).  The translator reads the lock every such statement runs under off the
current source (`Generated.criticalSections`); this theorem pins the table.  `Channel.receive` takes an item and puts the
ENDMARKER back WITHOUT a lock — the finer model `Model/NetFine.lean` and its refinement theorem cover that.
-/
import ExecnetVerif.Generated.Tables
namespace ExecnetVerif

theorem Net_granularity_pinned :
    Generated.criticalSections =
      [("Channel.setcallback", "detach-queue", "self.gateway._receivelock"),
       ("Channel.setcallback", "drain-get", "self.gateway._receivelock"),
       ("Channel.setcallback", "register", "self.gateway._receivelock"),
       ("Channel.setcallback", "replay-item", "self.gateway._receivelock"),
       ("Channel.setcallback", "replay-endmarker", "self.gateway._receivelock"),
       ("Channel.setcallback", "putback", "self.gateway._receivelock"),
       ("Channel.receive", "get", "-"),
       ("Channel.receive", "putback", "-"),
       ("ChannelFactory.new", "finished-check", "self._writelock"),
       ("ChannelFactory.new", "read-count", "self._writelock"),
       ("ChannelFactory.new", "advance-count", "self._writelock"),
       ("ChannelFactory.new", "table-insert", "self._writelock"),
       ("BaseGateway._thread_receiver", "handle-message", "self._receivelock"),
       ("BaseGateway._thread_receiver", "finish-receiving", "self._receivelock"),
       ("BaseGateway._send", "write-frame", "self._sendlock")] := by
  decide

end ExecnetVerif
