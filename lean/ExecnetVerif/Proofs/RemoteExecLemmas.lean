/-
Helper lemmas for C06: the descriptor-table model (`lowestFree`, `set`, `close`) and `init_popen_io`.
-/
import ExecnetVerif.Model.RemoteExec
namespace ExecnetVerif.RemoteExec

theorem lowestFreeFrom_spec (t : Nat → Resource) :
    ∀ fuel i, (∀ n, i + fuel ≤ n → t n = .closed) →
      t (lowestFreeFrom t fuel i) = .closed ∧ i ≤ lowestFreeFrom t fuel i := by
  intro fuel
  induction fuel with
  | zero => intro i h; exact ⟨h i (by omega), Nat.le_refl _⟩
  | succ k ih =>
    intro i h
    simp only [lowestFreeFrom]
    split
    · rename_i hc; exact ⟨hc, Nat.le_refl _⟩
    · have := ih (i + 1) (fun n hn => h n (by omega))
      exact ⟨this.1, by omega⟩

/-- the descriptor `open`/`dup` hand out is not open -/
theorem Fds.lowestFree_closed (s : Fds) (h : s.WF) : s.get s.lowestFree = .closed :=
  (lowestFreeFrom_spec s.get s.size 0 (fun n hn => h n (by omega))).1

theorem Fds.set_WF (s : Fds) (h : s.WF) (k : Nat) (v : Resource) : (s.set k v).WF := by
  intro n hn
  simp only [Fds.set] at hn ⊢
  have h1 : s.size ≤ n := by omega
  have h2 : n ≠ k := by omega
  simp [upd, h2, h n h1]

theorem Fds.close_WF (s : Fds) (h : s.WF) (k : Nat) : (s.close k).WF := by
  intro n hn
  simp only [Fds.close] at hn ⊢
  simp only [upd]
  split
  · rfl
  · exact h n hn

@[simp] theorem Fds.set_get (s : Fds) (k : Nat) (v : Resource) (n : Nat) :
    (s.set k v).get n = if n = k then v else s.get n := rfl

@[simp] theorem Fds.close_get (s : Fds) (k : Nat) (n : Nat) :
    (s.close k).get n = if n = k then .closed else s.get n := rfl

@[simp] theorem Fds.dup2_get (s : Fds) (a b : Nat) (n : Nat) :
    (s.dup2 a b).get n = if n = b then s.get a else s.get n := rfl

theorem Fds.dup2_WF (s : Fds) (h : s.WF) (a b : Nat) : (s.dup2 a b).WF := Fds.set_WF s h b _

/-- `init_popen_io` spelled out with named intermediate tables -/
theorem initPopenIO_eq (s : Fds) :
    initPopenIO s =
      let a := s.lowestFree
      let s1 := s.set a (s.get 0)
      let f1 := s1.lowestFree
      let s4 := ((s1.set f1 .devnullR).dup2 f1 0).close f1
      let b := s4.lowestFree
      let s5 := s4.set b (s4.get 1)
      let f2 := s5.lowestFree
      let s8 := ((s5.set f2 .devnullW).dup2 f2 1).close f2
      { fds := s8, protoIn := a, protoOut := b, sysStdin := 0, sysStdout := 1 } := rfl

end ExecnetVerif.RemoteExec

namespace ExecnetVerif.RemoteExec

/-- one redirection round of `init_popen_io`: keep what descriptor `k` refers to on a fresh
descriptor, then point `k` at `dev` through a temporary descriptor that is closed again -/
def redirect (s : Fds) (k : Nat) (dev : Resource) : Fds × Nat :=
  let a := s.lowestFree
  let s1 := s.set a (s.get k)
  let f := s1.lowestFree
  (((s1.set f dev).dup2 f k).close f, a)

theorem initPopenIO_redirect (s : Fds) :
    initPopenIO s =
      { fds := (redirect (redirect s 0 .devnullR).1 1 .devnullW).1,
        protoIn := (redirect s 0 .devnullR).2,
        protoOut := (redirect (redirect s 0 .devnullR).1 1 .devnullW).2,
        sysStdin := 0, sysStdout := 1 } := rfl

theorem redirect_spec (s : Fds) (hwf : s.WF) (k : Nat) (dev : Resource) (hk : s.get k ≠ .closed) :
    (redirect s k dev).1.WF
    ∧ s.get (redirect s k dev).2 = .closed
    ∧ (redirect s k dev).2 ≠ k
    ∧ (redirect s k dev).1.get k = dev
    ∧ (redirect s k dev).1.get (redirect s k dev).2 = s.get k
    ∧ ∀ n, n ≠ k → n ≠ (redirect s k dev).2 → (redirect s k dev).1.get n = s.get n := by
  have ha : s.get s.lowestFree = .closed := Fds.lowestFree_closed s hwf
  have hak : s.lowestFree ≠ k := fun h => hk (h ▸ ha)
  have hwf1 : (s.set s.lowestFree (s.get k)).WF := Fds.set_WF s hwf _ _
  have hf := Fds.lowestFree_closed _ hwf1
  generalize hfdef : (s.set s.lowestFree (s.get k)).lowestFree = f at hf
  have hfa : f ≠ s.lowestFree := by
    intro h; rw [h] at hf; simp at hf; exact hk hf
  have hfk : f ≠ k := by
    intro h; rw [h] at hf; simp [Ne.symm hak] at hf; exact hk hf
  have hsf : s.get f = .closed := by simpa [hfa] using hf
  simp only [redirect, hfdef]
  refine ⟨?_, ha, hak, ?_, ?_, ?_⟩
  · exact Fds.close_WF _ (Fds.dup2_WF _ (Fds.set_WF _ hwf1 _ _) _ _) _
  · simp [Ne.symm hfk]
  · simp [Ne.symm hfa, hak]
  · intro n hnk hna
    by_cases hnf : n = f
    · subst hnf; simp [hsf]
    · simp [hnf, hnk, hna]

theorem shippedLines_length (f : FuncInfo) :
    (shippedLines f).length = f.firstlineno - 1 + f.srcLines.length := by
  simp [shippedLines]

theorem take_drop_get (file : List String) (d n : Nat) (src : List String)
    (h : src = (file.drop d).take n) (k : Nat) (hk : k < src.length) : src[k]? = file[d + k]? := by
  subst h
  simp only [List.length_take, List.length_drop] at hk
  rw [List.getElem?_take]
  have : k < n := by omega
  simp [this, List.getElem?_drop]

end ExecnetVerif.RemoteExec
