"""Regenerate the catch matrix inside DESIGN.md §9.5 from /verif/seeded (python3 harness/update_design_matrix.py)."""
import os
import re
import subprocess
import sys

here = os.path.dirname(os.path.abspath(__file__))
design = os.path.join(here, "..", "DESIGN.md")
matrix = subprocess.run([sys.executable, os.path.join(here, "seedmatrix.py")], capture_output=True, text=True, check=True).stdout.rstrip("\n")
s = open(design).read()
pat = re.compile(r"\| seed \| what was changed \|.*?\n\d+ of \d+ seeded changes caught by the quick tier\.", re.S)
assert pat.search(s), "matrix not found in DESIGN.md"
s = pat.sub(lambda m: matrix, s, count=1)
open(design, "w").write(s)
print(matrix.splitlines()[-1])
