/-
`Unserializer._read_exact` over arbitrary chunkings of the input (Model/Chunk.lean: `unserReadExact`).
-/
import ExecnetVerif.Proofs.FrameLemmas
namespace ExecnetVerif

theorem unserReadExact_ok (chunks : List Bytes) (n : Nat) (hne : ∀ c ∈ chunks, c ≠ []) (hn : n ≤ chunks.flatten.length) :
    ∃ chunks', unserReadExact chunks n = .ok (chunks.flatten.take n, chunks') ∧
      chunks'.flatten = chunks.flatten.drop n := by
  cases chunks with
  | nil =>
    have : n = 0 := by simpa using hn
    subst this
    exact ⟨[], by simp [unserReadExact, lowRead], by simp⟩
  | cons c cs =>
    have hc : c ≠ [] := hne c (by simp)
    have hcs : ∀ c' ∈ cs, c' ≠ [] := fun c' h => hne c' (by simp [h])
    simp only [unserReadExact, lowRead]
    by_cases h1 : c.length ≤ n
    · simp only [h1, if_true]
      by_cases h2 : n ≤ c.length
      · have he : n = c.length := Nat.le_antisymm h2 h1
        refine ⟨cs, ?_, ?_⟩
        · simp [h2, he]
        · simp [he]
      · simp only [h2, if_false]
        have hn' : n - c.length ≤ cs.flatten.length := by
          simp only [List.flatten_cons, List.length_append] at hn; omega
        obtain ⟨chunks', hr, hf, _⟩ := readExact_ok cs (n - c.length) c hcs hn'
        refine ⟨chunks', ?_, ?_⟩
        · rw [hr]
          simp only [List.flatten_cons]
          rw [List.take_append]
          have : c.take n = c := List.take_of_length_le h1
          rw [this]
        · rw [hf]
          simp only [List.flatten_cons]
          rw [List.drop_append]
          have : c.drop n = [] := List.drop_of_length_le h1
          rw [this]; simp
    · have h1' : n < c.length := Nat.lt_of_not_le h1
      simp only [h1, if_false]
      have hl : (c.take n).length = n := by simp [List.length_take]; omega
      refine ⟨c.drop n :: cs, ?_, ?_⟩
      · simp only [hl, Nat.le_refl, if_true]
        simp only [List.flatten_cons]
        rw [List.take_append]
        have : n - c.length = 0 := by omega
        simp [this]
      · simp only [List.flatten_cons]
        rw [List.drop_append]
        have : n - c.length = 0 := by omega
        simp [this]

theorem unserReadExact_short (chunks : List Bytes) (n : Nat) (hne : ∀ c ∈ chunks, c ≠ []) (hn : chunks.flatten.length < n) :
    unserReadExact chunks n = .error chunks.flatten.length := by
  cases chunks with
  | nil =>
    have hpos : n ≠ 0 := by simp at hn; omega
    simp [unserReadExact, lowRead, readExact, hpos]
  | cons c cs =>
    have hcs : ∀ c' ∈ cs, c' ≠ [] := fun c' h => hne c' (by simp [h])
    simp only [List.flatten_cons, List.length_append] at hn
    have h1 : c.length ≤ n := by omega
    have h2 : ¬ n ≤ c.length := by omega
    simp only [unserReadExact, lowRead, h1, if_true, h2, if_false]
    rw [readExact_short cs (n - c.length) c hcs (by omega)]
    simp [List.flatten_cons, List.length_append]

end ExecnetVerif
