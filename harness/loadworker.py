"""Worker process: runs execnet.loads / load on untrusted bytes under RLIMIT_AS.
stdin lines:  <mode> <hex|->      mode: py2str_as_py3str py3str_as_py2str stream   (stream: 0 = loads(bytes), 1 = load(BytesIO),
                                  2 / 3 = load() from a stream whose read(n) hands out at most 1 / 3 bytes at a time)
stdout lines: ok <tokens> | huge | err <ExceptionClass>
"""
import io
import os
import resource
import sys

sys.path.insert(0, os.path.join(os.path.dirname(os.path.abspath(__file__)), ".."))
lim = int(os.environ.get("VERIF_AS_LIMIT", str(1 << 30)))
resource.setrlimit(resource.RLIMIT_AS, (lim, lim))
from harness import common, pyval  # noqa: E402

execnet = common.import_execnet()
MAXNODES = 400000


def size(v, budget):
    n = 0
    stack = [v]
    while stack:
        x = stack.pop()
        n += 1
        if n > budget:
            return n
        t = type(x)
        if t in (list, tuple, set, frozenset):
            if len(x) > budget:
                return budget + 1
            stack.extend(x)
        elif t is dict:
            for k, y in x.items():
                stack.append(k)
                stack.append(y)
    return n


class ShortReads:
    def __init__(self, data, k):
        self.data, self.pos, self.k = data, 0, k

    def read(self, n=-1):
        n = self.k if n is None or n < 0 else min(n, self.k)
        piece = self.data[self.pos:self.pos + n]
        self.pos += len(piece)
        return piece


def main():
    out = sys.stdout
    for line in sys.stdin:
        mode, h = line.split()
        data = b"" if h == "-" else bytes.fromhex(h)
        a, b, stream = mode[0] == "1", mode[1] == "1", mode[2]
        try:
            if stream in "23":
                v = execnet.load(ShortReads(data, 1 if stream == "2" else 3), py2str_as_py3str=a, py3str_as_py2str=b)
            elif stream == "1":
                v = execnet.load(io.BytesIO(data), py2str_as_py3str=a, py3str_as_py2str=b)
            else:
                v = execnet.loads(data, py2str_as_py3str=a, py3str_as_py2str=b)
        except EOFError:
            res = "err EOFError"
        except execnet.DataFormatError:
            res = "err DataFormatError"
        except BaseException as e:  # noqa: BLE001
            res = "err " + type(e).__name__
        else:
            if size(v, MAXNODES) > MAXNODES:
                res = "huge"
            else:
                res = "ok " + pyval.render(v, execnet.gateway_base.Channel)
            del v
        out.write(res + "\n")
        out.flush()


main()
