"""C03 — channel protocol property (DESIGN.md §4 C03); shared machinery in netprops.py."""
from __future__ import annotations

from . import common, netfine, netprops

PROP = "C03"


def run(ctx):
    res = common.Result()
    res.rule = ("(a) op programs vs the Lean Net model (see C02); (b) transcript oracle: after EOF/RemoteError was observed on a channel object no item "
                "ever follows and receive never blocks; on the closing side send -> OSError, isclosed, waitclose immediate, second close a no-op; "
                "(c) scenarios: ending by exec end / remote raise / local close / reference drop with 1-3 blocked receivers and a waitclose caller, "
                "sibling conversation active: items before the close all received, EOF repeated for every receiver, no item after waitclose")
    netprops.op_level(ctx, res, PROP, ctx.budget(400, 24000, 600))
    # two-step receive (get … put the ENDMARKER back) against Model/NetFine.lean, guarded and unguarded histories
    netfine.fine_level(ctx, res, PROP, ctx.budget(80, 15000, 300))
    netprops.run_scenarios(ctx, res, netprops.scenario_close, ctx.budget(200, 48000, 600), "close")
    netprops.process_level_backlog(ctx, res)
    # 'by the end of the remote_exec': a body that fails — whatever the text of its failure — still closes its channel behind its data
    from . import c07
    c07.error_text_probe(ctx, res)
    return res


def search(ctx, prev):
    return run(ctx)


def replay(ctx, payload):
    c = payload["case"]
    if "ops" in c:
        return netprops.replay_ops(ctx, PROP, c["ops"].split(" ; "))
    return run(ctx)
