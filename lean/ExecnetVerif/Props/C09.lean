/-
C09 — WorkerPool runs every accepted task exactly once and reports truthfully.
Property theorems only (model: `Model/Pool.lean`; invariant and helper lemmas: `Proofs/Pool*.lean`).

All theorems quantify over every `Reachable` state of the thread-level model of the FIXED protocol
(`c.old = false`), i.e. over every interleaving of any number of client threads making any sequence of
`spawn` / `trigger_shutdown` / `waitall` / `Reply.get` calls, the primary thread and the worker threads.
`Protocol c` is the hypothesis the property text states for `main_thread_only` pools with a primary thread
(the spawner submits the next task only after the previous body has returned); it is needed for the progress
theorems only — the safety theorems hold for arbitrary clients.
-/
import ExecnetVerif.Proofs.PoolProgress
import ExecnetVerif.Proofs.PoolMeasure
import ExecnetVerif.Proofs.SpawnFailLemmas
namespace ExecnetVerif
open Pool

/-- **C09 (at most once).** No task body is ever begun twice, and only accepted tasks are begun: the list of
body starts has no duplicates in any reachable state. -/
theorem C09_at_most_once {c : Config} {s : State} (hc : c.old = false) (h : Reachable c s) :
    s.started.Nodup ∧ ∀ t, t ∈ s.started → t ∈ s.accepted := by
  have inv := inv_reachable hc h
  refine ⟨inv.staND, fun t ht => (inv.acc t).2 ?_⟩
  have := (inv.sta t).1 ht
  intro hu; simp [hu, begun] at this

/-- who is responsible for an accepted task -/
inductive Holder where
  | mailbox                      -- `_primary_thread_task is reply`, event set, primary thread still in its loop
  | primaryHands                 -- the primary thread is inside `_perform_spawn(reply)`
  | workerThread                 -- a thread started by `execmodel.start(self._perform_spawn, (reply,))`
  | blockedSpawner (i : Uid)     -- its spawner holds the lock inside `_try_send_to_primary_thread` (main_thread_only)
  | finished                     -- body ended and the reply was removed from `_running`
  deriving DecidableEq

/-- `Holds s t h`: in state `s` the shared variables really make `h` responsible for task `t` -/
def Holds (s : State) (t : TaskId) : Holder → Prop
  | .mailbox => s.phase t = .inMbox ∧ s.mbox = some t ∧ s.ready = true ∧ s.pp ≠ .left ∧ s.pp ≠ .gone
  | .primaryHands => s.pp = .run t ∧ primExec (s.phase t) = true
  | .workerThread => s.prim t = false ∧ (s.phase t = .created ∨ primExec (s.phase t) = true) ∧ s.pp ≠ .run t
  | .blockedSpawner i => s.phase t = .pending ∧ s.lock = some (.user i) ∧ ∃ m, s.us i = .spawnWait t m
  | .finished => s.phase t = .done ∧ t ∈ s.finished ∧ t ∉ s.running

/-- **C09 (nothing is lost, nothing is duplicated).** In every reachable state every task `spawn` accepted has
exactly one holder — the mailbox (with the event set and the primary thread still looping), the primary
thread's hands, its own worker thread, a spawner blocked with the lock held, or "finished" — and it is in
`_running` exactly as long as it is not finished. In particular no accepted task is ever dropped. -/
theorem C09_accept_inv {c : Config} {s : State} (hc : c.old = false) (h : Reachable c s) (t : TaskId)
    (ht : t ∈ s.accepted) :
    (∃ hd, Holds s t hd) ∧ (∀ h1 h2, Holds s t h1 → Holds s t h2 → h1 = h2) ∧
    (t ∈ s.running ↔ ¬ Holds s t .finished) := by
  have inv := inv_reachable hc h
  have hne := (inv.acc t).1 ht
  refine ⟨?_, ?_, ?_⟩
  · cases hp : s.phase t with
    | unused => exact absurd hp hne
    | pending =>
      obtain ⟨i, m, hi⟩ := inv.pend t hp
      exact ⟨.blockedSpawner i, hp, (inv.lockU i).2 (by simp [hi, holdsLock]), m, hi⟩
    | inMbox =>
      have h1 := inv.inMb t hp
      refine ⟨.mailbox, hp, h1.1, h1.2, ?_, ?_⟩
      · intro hl; exact ((inv.leftInv (Or.inl hl)).1 t).1 hp
      · intro hl; exact ((inv.leftInv (Or.inr hl)).1 t).1 hp
    | created =>
      have h1 := inv.workOf t hp
      refine ⟨.workerThread, h1, Or.inl hp, ?_⟩
      intro hr; have := ((inv.primRun t).1 hr).1; simp [h1] at this
    | done =>
      refine ⟨.finished, hp, (inv.fin t).2 (by simp [hp, bodyEnded]), ?_⟩
      intro hr; have := (inv.run t).1 hr; simp [hp, live] at this
    | inHand =>
      exact ⟨.primaryHands, (inv.primRun t).2 ⟨inv.primOf t (by simp [hp]), by simp [hp, primExec]⟩, by simp [hp, primExec]⟩
    | body | ended | resReady | removing =>
      cases hpr : s.prim t
      · refine ⟨.workerThread, hpr, Or.inr (by simp [hp, primExec]), ?_⟩
        intro hr; have := ((inv.primRun t).1 hr).1; simp [hpr] at this
      · exact ⟨.primaryHands, (inv.primRun t).2 ⟨hpr, by simp [hp, primExec]⟩, by simp [hp, primExec]⟩
  · intro h1 h2 a b
    cases h1 <;> cases h2 <;> simp only [Holds] at a b <;> try rfl
    all_goals (first
      | (exfalso; obtain ⟨a1, a2⟩ := a; obtain ⟨b1, b2⟩ := b; simp_all [primExec]; done)
      | (exfalso; have := (inv.primRun t).1 (by first | exact a.1 | exact b.1); simp_all [primExec]; done)
      | (obtain ⟨_, a2, _⟩ := a; obtain ⟨_, b2, _⟩ := b; rw [a2] at b2; cases b2; rfl))
  · simp only [Holds]
    constructor
    · intro hr hf; exact hf.2.2 hr
    · intro hf
      apply (inv.run t).2
      cases hp : s.phase t <;> simp [live]
      · exact hne hp
      · exact hf ⟨hp, (inv.fin t).2 (by simp [hp, bodyEnded]), fun hr => by have := (inv.run t).1 hr; simp [hp, live] at this⟩

/-- **C09 (get reports the body's outcome).** `Reply.get` / `waitfinish` returns (other than by time-out) only
after the task's body has ended — `Reply.run` stores the value or the exception before it sets the event — and
a timed-out `get` changes nothing but the caller's own state: the task is not cancelled. -/
theorem C09_reply_truth {c : Config} {s : State} (hc : c.old = false) (h : Reachable c s) (i : Uid) (t : TaskId)
    (hg : s.us i = .getRet t true) : t ∈ s.finished ∧ t ∈ s.started ∧ t ∈ s.accepted := by
  have inv := inv_reachable hc h
  have h1 := inv.getR i t hg
  refine ⟨(inv.fin t).2 h1, (inv.sta t).2 ?_, (inv.acc t).2 ?_⟩
  · cases hp : s.phase t <;> simp [hp, bodyEnded, begun] at h1 ⊢
  · intro hp; simp [hp, bodyEnded] at h1

theorem C09_timeout_no_cancel {c : Config} {s s' : State} {i : Uid} (hs : step c s (.user i, .getTimeout) = some s') :
    s'.phase = s.phase ∧ s'.running = s.running ∧ s'.accepted = s.accepted ∧ s'.mbox = s.mbox ∧
    s'.ready = s.ready ∧ s'.pp = s.pp ∧ s'.lock = s.lock ∧ ∃ t, s.us i = .getWait t true ∧ s'.us i = .getRet t false := by
  simp only [step, userStep] at hs
  split at hs
  · split at hs
    · cases hs
      rename_i _ t _ _
      refine ⟨rfl, rfl, rfl, rfl, rfl, rfl, rfl, t, by assumption, by simp [upd]⟩
    · cases hs
  · cases hs

/-- **C09 (waitall tells the truth, and is woken).** If `waitall` (or `terminate`) is about to return `True`
then every task that had been accepted when the caller took the lock has finished and left `_running`; if
moreover shutdown had already been triggered at that moment (as in `terminate`) then `_running` is empty
and every accepted task has finished at the moment of the return. Conversely a registered waiter never
misses the wake-up: whenever `_running` is empty its event is set, so it can return. -/
theorem C09_waitall_truth {c : Config} {s : State} (hc : c.old = false) (h : Reachable c s) (i : Uid) :
    (s.us i = .waRet true → ∀ t, t ∈ s.wsnap i → t ∈ s.finished ∧ t ∉ s.running) ∧
    (s.us i = .waRet true → s.wshut i = true → s.running = [] ∧ ∀ t, t ∈ s.accepted → t ∈ s.finished) ∧
    (∀ b, s.us i = .waWait b → s.running = [] → s.wev i = true) := by
  have inv := inv_reachable hc h
  have key : s.us i = .waRet true → ∀ t, t ∈ s.wsnap i → t ∈ s.finished ∧ t ∉ s.running := by
    intro hr t ht
    have hd := inv.wtrueR i hr t ht
    exact ⟨(inv.fin t).2 (by simp [hd, bodyEnded]), fun hrun => by have := (inv.run t).1 hrun; simp [hd, live] at this⟩
  refine ⟨key, ?_, ?_⟩
  · intro hr hsh
    have h1 := inv.wsh i (by simp [hr, inWa]) hsh
    have hall : ∀ t, t ∈ s.accepted → t ∈ s.finished ∧ t ∉ s.running :=
      fun t ht => key hr t (h1.2 t ((inv.acc t).1 ht))
    refine ⟨?_, fun t ht => (hall t ht).1⟩
    cases hrun : s.running with
    | nil => rfl
    | cons t rest =>
      exfalso
      have hmem : t ∈ s.running := by simp [hrun]
      have hl := (inv.run t).1 hmem
      have hacc : t ∈ s.accepted := (inv.acc t).2 (by intro hu; simp [hu, live] at hl)
      exact (hall t hacc).2 hmem
  · intro b hw hrun
    cases hwe : s.wev i with
    | true => rfl
    | false => exact absurd hrun (inv.wlost i b hw hwe).2

/-- the ghost snapshot used by `C09_waitall_truth` is what it claims to be: the tasks accepted, and the
shutdown flag, at the moment the `waitall` caller takes the lock -/
theorem C09_waitall_snapshot {c : Config} {s s' : State} {i : Uid} {b : Bool}
    (hs : step c s (.user i, .waAcq b) = some s') : s'.wsnap i = s.accepted ∧ s'.wshut i = s.shut := by
  simp only [step, userStep] at hs
  split at hs
  · cases hs; simp [upd]
  · cases hs

/-- **C09 (spawn after shutdown is refused).** Once `_shuttingdown` is set, the check inside `spawn` raises
ValueError and accepts nothing; more generally no step at all accepts a task or clears the flag any more. -/
theorem C09_spawn_refused {c : Config} {s s' : State} (hsh : s.shut = true) :
    (∀ i, step c s (.user i, .spawnCheck) = some s' → s'.us i = .refusedRet ∧ s'.accepted = s.accepted ∧
      s'.running = s.running ∧ s'.phase = s.phase) ∧
    (∀ a, step c s a = some s' → s'.shut = true ∧ s'.accepted = s.accepted) := by
  refine ⟨?_, fun a hs => ⟨(step_shut hs hsh).1, (step_shut hs hsh).2.1⟩⟩
  intro i hs
  simp only [step, userStep, hsh] at hs
  split at hs
  · simp at hs; cases hs; simp [upd]
  · cases hs

/-- **C09 (no lost wake-up, no deadlock).** As long as some accepted task's body has not ended, some thread
has an enabled step that is neither the expiry of a time-out nor the start of a new API call: the pool can
always make progress on its own. -/
theorem C09_no_stuck {c : Config} {s : State} (hc : c.old = false) (hp : Protocol c) (h : Reachable c s)
    (hu : ∃ t, t ∈ s.accepted ∧ t ∉ s.finished) : Progress c s := by
  have inv := inv_reachable hc h
  obtain ⟨t, hacc, hfin⟩ := hu
  have hne := (inv.acc t).1 hacc
  have hnf : bodyEnded (s.phase t) = false := by
    cases hb : bodyEnded (s.phase t) with
    | false => rfl
    | true => exact absurd ((inv.fin t).2 hb) hfin
  cases hph : s.phase t <;> simp [hph, bodyEnded] at hnf
  · exact absurd hph hne
  · -- pending: the blocked spawner, or the task it waits for, moves
    obtain ⟨i, m, hi⟩ := inv.pend t hph
    exact swait_progress inv (swait_gated inv hp i t m hi) i t m hi
  · -- in the mailbox: the primary thread is on its way to it
    have h1 := inv.inMb t hph
    apply prim_progress inv hp
    · intro hg; exact ((inv.leftInv (Or.inr hg)).1 t).1 hph
    · intro _; exact h1.2
  · exact exec_progress inv t (by simp [hph])
  · exact exec_progress inv t (by simp [hph])
  · exact exec_progress inv t (by simp [hph])

/-- **C09 (the primary thread leaves, and only after shutdown).** The primary thread is outside its loop only
if shutdown was triggered, and then no task is left in the mailbox or with a blocked spawner; and once
shutdown is triggered and `_running` is empty, the primary thread has either returned from
`integrate_as_primary_thread` or some step (its own, or the lock holder's) is enabled. -/
theorem C09_primary_leaves {c : Config} {s : State} (hc : c.old = false) (hp : Protocol c) (h : Reachable c s)
    (hprim : c.primary = true) :
    ((s.pp = .left ∨ s.pp = .gone) → s.shut = true ∧ ∀ t, t ∈ s.accepted → ¬ bodyEnded (s.phase t) = true →
        (s.phase t = .created ∨ s.phase t = .body) ∧ s.prim t = false) ∧
    (s.shut = true → s.pp = .gone ∨ Progress c s) := by
  have inv := inv_reachable hc h
  constructor
  · intro hl
    have h1 := inv.leftInv hl
    refine ⟨(h1.2 hprim).1, fun t hacc hnb => ?_⟩
    have hne := (inv.acc t).1 hacc
    have hnr : s.pp ≠ .run t := by rcases hl with hl | hl <;> simp [hl]
    cases hph : s.phase t <;> simp [hph, bodyEnded] at hnb
    · exact absurd hph hne
    · exact absurd hph (h1.1 t).2
    · exact absurd hph (h1.1 t).1
    · have := inv.primOf t (by simp [hph]); exact absurd ((inv.primRun t).2 ⟨this, by simp [hph, primExec]⟩) hnr
    · exact ⟨by simp, inv.workOf t hph⟩
    · refine ⟨by simp, ?_⟩
      cases hpr : s.prim t with
      | false => rfl
      | true => exact absurd ((inv.primRun t).2 ⟨hpr, by simp [hph, primExec]⟩) hnr
  · intro hsh
    by_cases hg : s.pp = .gone
    · exact Or.inl hg
    · refine Or.inr (prim_progress inv hp hg ?_)
      intro _
      cases hr : s.ready with
      | true => rfl
      | false => have := (inv.notReady hr hprim).2; simp [hsh] at this

/-- **C09 (well-founded progress).** With `N` a bound on the client-thread and task ids in use, every step that
is not the start of a new API call (time-out expiries included) strictly decreases the natural number
`measure N` (a weighted count of the work left in the calls in flight, the accepted tasks and the primary
thread's loop) and keeps `N` a bound. -/
theorem C09_measure {c : Config} {s s' : State} {a : Agent × Action} {N : Nat} (hc : c.old = false)
    (h : Reachable c s) (hb : Bounded N s) (hcall : a.2.isCall = false) (hs : step c s a = some s') :
    measure N s' < measure N s ∧ Bounded N s' :=
  measure_step hc (inv_reachable hc h) hb hcall hs

/-- hence a run without new calls is at most `measure N s` steps long: under ANY scheduler that keeps running
enabled threads the pool reaches, after finitely many steps, a state where no such step is enabled … -/
theorem C09_finite_run {c : Config} {s s' : State} {N : Nat} (hc : c.old = false) (l : List (Agent × Action))
    (h : Reachable c s) (hb : Bounded N s) (hall : ∀ a, a ∈ l → a.2.isCall = false)
    (hr : runSteps c s l = some s') : l.length + measure N s' ≤ measure N s :=
  measure_run hc l h hb hall hr

/-- … and in such a quiescent state every accepted task's body has ended, every `waitall` caller whose wait can
succeed has been woken, and — after shutdown — the primary thread has returned (`C09_no_stuck` and
`C09_primary_leaves` read contrapositively). -/
theorem C09_quiescent {c : Config} {s : State} (hc : c.old = false) (hp : Protocol c) (h : Reachable c s)
    (hq : ¬ Progress c s) :
    (∀ t, t ∈ s.accepted → t ∈ s.finished) ∧ (c.primary = true → s.shut = true → s.pp = .gone) ∧
    (∀ i b, s.us i = .waWait b → s.wev i = false → s.running ≠ []) := by
  refine ⟨fun t ht => ?_, fun hprim hsh => ?_, fun i b hw he => ?_⟩
  · cases hf : decide (t ∈ s.finished) with
    | true => exact of_decide_eq_true hf
    | false => exact absurd (C09_no_stuck hc hp h ⟨t, ht, of_decide_eq_false hf⟩) hq
  · rcases (C09_primary_leaves hc hp h hprim).2 hsh with hg | hg
    · exact hg
    · exact absurd hg hq
  · exact ((inv_reachable hc h).wlost i b hw he).2

/-! ### The pinned tree's lost task (documented witness) and non-vacuity -/

def oldCfg : Config := { primary := true, mto := false, gated := false, old := true }
def newCfg : Config := { primary := true, mto := false, gated := false, old := false }

/-- `spawn(f)` returns, `trigger_shutdown()` returns, then the primary thread wakes up -/
def lostTaskSchedule : List (Agent × Action) :=
  [(.user 0, .spawnAcq 0), (.user 0, .spawnCheck), (.user 0, .spawnRelease), (.user 0, .spawnReturn),
   (.user 1, .shutAcq), (.user 1, .shutDo), (.user 1, .shutReturn),
   (.primary, .pWait), (.primary, .pRead), (.primary, .pLeave)]

/-- **D9, the pinned tree.** Under the OLD protocol the schedule above is executable and ends in a state where
task 0 is accepted and still in `_running`, was never started, the primary thread has returned, the lock is
free and every client thread is idle: the task is lost (a following `waitall(5)` can only time out). -/
theorem C09_pinned_counterexample :
    ∃ s, runSteps oldCfg (init oldCfg) lostTaskSchedule = some s ∧ 0 ∈ s.accepted ∧ 0 ∈ s.running ∧ 0 ∉ s.started ∧
      s.pp = .gone ∧ s.lock = none ∧ s.mbox = none ∧ s.phase 0 = .inMbox ∧ ∀ i, s.us i = .idle := by
  refine ⟨_, rfl, ?_⟩
  refine ⟨by decide, by decide, by decide, rfl, rfl, rfl, rfl, ?_⟩
  intro i
  simp only [upd]
  repeat (first | rfl | split)

/-- the same calls under the fixed protocol: `trigger_shutdown` leaves the set mailbox alone, the primary
thread runs task 0, then leaves (also the non-vacuity witness of the theorems above: a reachable state with an
accepted, started, finished task, `_shuttingdown` set and the primary thread gone) -/
def fixedSchedule : List (Agent × Action) :=
  [(.user 0, .spawnAcq 0), (.user 0, .spawnCheck), (.user 0, .spawnRelease), (.user 0, .spawnReturn),
   (.user 1, .shutAcq), (.user 1, .shutDo), (.user 1, .shutReturn),
   (.primary, .pWait), (.primary, .pRead), (.primary, .tBegin 0), (.primary, .tEnd 0), (.primary, .tSetReady 0),
   (.primary, .tRemAcq 0), (.primary, .tRemove 0), (.primary, .pChkAcq), (.primary, .pCheck), (.primary, .pLeave)]

theorem C09_fixed_witness :
    ∃ s, Reachable newCfg s ∧ s.accepted = [0] ∧ s.started = [0] ∧ s.finished = [0] ∧ s.running = [] ∧
      s.shut = true ∧ s.pp = .gone := by
  exact ⟨_, reachable_runGet newCfg fixedSchedule rfl, rfl, rfl, rfl, rfl, rfl, rfl⟩

/-- non-vacuity of `C09_no_stuck`: right after `spawn` returned and `trigger_shutdown` returned (the state in
which the pinned tree loses the task) the hypotheses hold and the enabled step is the primary thread's -/
example : ∃ s, Reachable newCfg s ∧ (∃ t, t ∈ s.accepted ∧ t ∉ s.finished) ∧ s.shut = true ∧ Protocol newCfg :=
  ⟨_, reachable_runGet newCfg (lostTaskSchedule.take 7) rfl, ⟨0, by decide, by decide⟩, rfl,
    fun _ h => by simp [newCfg] at h⟩

/-- non-vacuity of `C09_measure`: the initial state is bounded, and along the fixed schedule the measure (bound
`N = 2`) goes 3 → 20 (call started) → 17 (check inside `spawn`) → … → 0 at the end (everybody idle, task done,
primary thread gone) -/
example : Bounded 2 (init newCfg) ∧ measure 2 (init newCfg) = 3 ∧
    measure 2 (runGet newCfg (fixedSchedule.take 1) rfl) = 20 ∧
    measure 2 (runGet newCfg (fixedSchedule.take 2) rfl) = 17 ∧
    measure 2 (runGet newCfg fixedSchedule rfl) = 0 :=
  ⟨bounded_init _ _, rfl, rfl, rfl, rfl⟩

/-- non-vacuity of the `main_thread_only` hand-over (a spawner blocked in `waitfinish()` with the lock held) -/
example : ∃ s, Reachable { primary := true, mto := true, gated := true, old := false } s ∧
    s.us 0 = .spawnWait 1 0 ∧ s.phase 1 = .pending ∧ s.lock = some (.user 0) :=
  ⟨_, reachable_runGet _
      [(.user 0, .spawnAcq 0), (.user 0, .spawnCheck), (.user 0, .spawnRelease), (.user 0, .spawnReturn),
       (.primary, .pWait), (.primary, .pRead), (.primary, .tBegin 0), (.primary, .tEnd 0),
       (.user 0, .spawnAcq 1), (.user 0, .spawnCheck)] rfl, rfl, rfl, rfl⟩

/-! ### a thread that cannot be started (`Model/SpawnFail.lean`) -/

/-- how the current source treats a failing `execmodel.start` inside `spawn` (the handler drops the reply from `_running`
and re-raises) and the order registration → primary hand-over → thread start, read off `WorkerPool.spawn` by the translator -/
theorem C09_start_failure_pinned :
    SpawnFail.codeCfg = SpawnFail.good ∧
    Generated.spawnOrder = ["self._running.add", "self._try_send_to_primary_thread", "self.execmodel.start"] := by
  decide

/-- **C09 (waitall after a refused start).** Whatever mixture of successful spawns, spawns whose thread could not be
started, finished calls and shutdowns came before: `_running` counts accepted, unfinished calls only — so once every accepted
call has come to its end `waitall()` is true (and `terminate()` with it). -/
theorem C09_refused_start_not_counted (ops : List SpawnFail.Op) :
    (∀ r, r ∈ (SpawnFail.run SpawnFail.codeCfg SpawnFail.init ops).2.running →
        r ∈ (SpawnFail.run SpawnFail.codeCfg SpawnFail.init ops).2.accepted ∧
        r ∉ (SpawnFail.run SpawnFail.codeCfg SpawnFail.init ops).2.finished) ∧
    ((∀ r, r ∈ (SpawnFail.run SpawnFail.codeCfg SpawnFail.init ops).2.accepted →
        r ∈ (SpawnFail.run SpawnFail.codeCfg SpawnFail.init ops).2.finished) →
      SpawnFail.waitallTrue (SpawnFail.run SpawnFail.codeCfg SpawnFail.init ops).2 = true) := by
  rw [C09_start_failure_pinned.1]
  have h := SpawnFail.inv_run SpawnFail.init SpawnFail.inv_init ops
  generalize (SpawnFail.run SpawnFail.good SpawnFail.init ops).2 = p at *
  refine ⟨fun r hr => ⟨h.counted r hr, h.unfinished r hr⟩, ?_⟩
  intro hall
  cases hr : p.running with
  | nil => simp [SpawnFail.waitallTrue, hr]
  | cons r rest =>
    have hm : r ∈ p.running := by simp [hr]
    exact absurd (hall r (h.counted r hm)) (h.unfinished r hm)

/-- a refused start changes nothing but the reply counter: the pool is as it was -/
theorem C09_refused_start_inert (p : SpawnFail.P) (hs : p.shut = false) :
    (SpawnFail.step SpawnFail.codeCfg p (.spawn false)).1 = .startError ∧
    (SpawnFail.step SpawnFail.codeCfg p (.spawn false)).2 = { p with next := p.next + 1 } := by
  rw [C09_start_failure_pinned.1]
  simp [SpawnFail.step, SpawnFail.good, hs]

/-- the pinned tree (no handler around `start`): after ONE spawn whose thread could not be started — the call was refused,
nothing is accepted — `waitall()` is false and stays false whatever happens afterwards (defect D34) -/
theorem C09_start_failure_counterexample (ops : List SpawnFail.Op) :
    (SpawnFail.step SpawnFail.pinned SpawnFail.init (.spawn false)).1 = .startError ∧
    SpawnFail.waitallTrue (SpawnFail.run SpawnFail.pinned SpawnFail.init (.spawn false :: ops)).2 = false := by
  refine ⟨by decide, ?_⟩
  have h := SpawnFail.ghost_stays (SpawnFail.step SpawnFail.pinned SpawnFail.init (.spawn false)).2 0
    (by decide) (by decide) (by decide) ops
  simp only [SpawnFail.run]
  generalize (SpawnFail.run SpawnFail.pinned (SpawnFail.step SpawnFail.pinned SpawnFail.init (.spawn false)).2 ops).2 = q at *
  cases hq : q.running with
  | nil => rw [hq] at h; exact absurd h (by simp)
  | cons a l => simp [SpawnFail.waitallTrue, hq]

/-- non-vacuity: a history with a refused start between two accepted calls, both finished — `waitall()` is true with the
guard and false without it -/
example :
    let ops := [SpawnFail.Op.spawn true, .spawn false, .spawn true, .finish 0, .finish 2]
    (SpawnFail.run SpawnFail.good SpawnFail.init ops).1 = [.reply 0, .startError, .reply 2, .done, .done] ∧
    SpawnFail.waitallTrue (SpawnFail.run SpawnFail.good SpawnFail.init ops).2 = true ∧
    SpawnFail.waitallTrue (SpawnFail.run SpawnFail.pinned SpawnFail.init ops).2 = false := by
  decide

end ExecnetVerif
