/-
Shared definitions for the invariants of the L3 `Net` model (no proofs here).
Each invariant group is a predicate on one side of the connection (or on the pair side/peer);
`Net/*.lean` prove that every group holds in every reachable state.
-/
import ExecnetVerif.Model.Net
namespace ExecnetVerif.Net

def qItems : List QItem → List Item
  | [] => []
  | .item v :: r => v :: qItems r
  | .endmarker :: r => qItems r

def queueItems (q : Option (List QItem)) : List Item := (q.map qItems).getD []

def cbItems : List CbEvent → List Item
  | [] => []
  | .item v :: r => v :: cbItems r
  | .endmarker :: r => cbItems r

def Frame.isClosing (id : Nat) : Frame → Bool
  | .close i => i == id
  | .closeErr i _ => i == id
  | .lastMsg i => i == id
  | _ => false

/-- run a history from an arbitrary state -/
theorem run_append (fails : Item → Bool) (st : State) (ops1 ops2 : List Op) :
    (run fails st (ops1 ++ ops2)).2 = (run fails (run fails st ops1).2 ops2).2 := by
  induction ops1 generalizing st with
  | nil => rfl
  | cons op t ih => simp only [List.cons_append, run]; exact ih _

theorem Reachable.init (fails : Item → Bool) : Reachable fails init := ⟨[], rfl⟩

theorem Reachable.step {fails : Item → Bool} {st : State} (h : Reachable fails st) (op : Op) :
    Reachable fails (step fails st op).2 := by
  obtain ⟨ops, rfl⟩ := h
  exact ⟨ops ++ [op], by rw [run_append]; simp [run]⟩

/-- induction principle: a predicate that holds initially and is preserved by every step holds in
every reachable state -/
theorem Reachable.induction {fails : Item → Bool} {P : State → Prop} (h0 : P Net.init)
    (hstep : ∀ st op, Reachable fails st → P st → P (Net.step fails st op).2) :
    ∀ st, Reachable fails st → P st := by
  have key : ∀ (ops : List Op) (st0 : State), Reachable fails st0 → P st0 → P (run fails st0 ops).2 := by
    intro ops
    induction ops with
    | nil => intro st0 _ h; exact h
    | cons op t ih =>
      intro st0 hr h
      simp only [run]
      exact ih _ (hr.step op) (hstep st0 op hr h)
  intro st ⟨ops, h⟩
  subst h
  exact key ops Net.init (Reachable.init fails) h0

/-! ### G1: wire conservation -/

/-- everything side `s` wrote on `id` has either been handled by the peer's receiver or is still in
flight, in order -/
def WireInv (st : State) : Prop :=
  ∀ (s : Side) (id : Nat), (st.side s).sent id = (st.side s.peer).delivered id ++ dataOf id (st.side s).out

/-! ### G2: delivery bookkeeping -/

def KeptInv (st : State) : Prop :=
  ∀ (p : Side) (id : Nat),
    List.Sublist ((st.side p).kept id) ((st.side p).delivered id) ∧
    ((st.side p).dropped id = false → (st.side p).kept id = (st.side p).delivered id)

/-! ### G3: shape of one channel record -/

def Chan.QueueShape (c : Chan) : Prop :=
  ∀ q, c.queue = some q → ∃ (items : List Item) (k : Nat),
    q = items.map QItem.item ++ List.replicate k QItem.endmarker ∧ (k = 0 ↔ c.rclosed = false)

def ShapeInv (st : State) : Prop :=
  ∀ (p : Side) (id : Nat),
    let c := (st.side p).chans id
    c.QueueShape ∧
    (c.closed = true → c.rclosed = true) ∧
    (c.registered = true → c.created = true ∧ c.alive = true ∧ c.closed = false ∧ c.rclosed = false) ∧
    (c.alive = true → c.created = true) ∧
    (c.created = true → c.alive = true → c.registered = false → c.rclosed = true) ∧
    (c.executing = true → c.alive = true) ∧
    (c.created = false → c.queue = some [] ∧ c.closed = false ∧ c.rclosed = false ∧ c.rerrs = [] ∧ c.executing = false)

/-! ### G4: what the user got -/

def GotInv (st : State) : Prop :=
  ∀ (p : Side) (id : Nat),
    let x := st.side p
    List.Sublist (x.got id ++ queueItems (x.chans id).queue) (x.kept id) ∧
    (x.broken id = false → x.got id ++ queueItems (x.chans id).queue = x.kept id)

/-! ### G5: callbacks -/

def CbInv (st : State) : Prop :=
  ∀ (p : Side) (id : Nat),
    let x := st.side p
    let c := x.chans id
    -- a registered callback means callback mode, not ended
    (∀ w, x.cbs id = some w → x.broken id = false → c.queue = none ∧ x.cbWants id = some w ∧ x.ended id = false) ∧
    -- the endmarker is the last callback event and unregisters the callback
    -- (these, "on request" and "suffix" are guarded by `broken`: a re-opened id gets a second
    -- conversation appended to the same ghost log)
    (x.broken id = false → ∀ pre post, x.cbLog id = pre ++ CbEvent.endmarker :: post → post = []) ∧
    (x.broken id = false → CbEvent.endmarker ∈ x.cbLog id → x.cbs id = none) ∧
    -- before setcallback there are no callback events
    (x.cbWants id = none → x.cbLog id = [] ∧ x.cbs id = none) ∧
    -- callback mode that has not ended keeps its callback registered
    (∀ w, x.cbWants id = some w → x.ended id = false → x.broken id = false → x.cbs id = some w) ∧
    -- a requested endmarker has been delivered once the conversation ended at this side
    (x.cbWants id = some true → x.ended id = true → x.broken id = false → CbEvent.endmarker ∈ x.cbLog id) ∧
    -- an endmarker is only ever delivered on request
    (x.broken id = false → CbEvent.endmarker ∈ x.cbLog id → x.cbWants id = some true) ∧
    -- the callback saw exactly the items handed over since setcallback
    (x.broken id = false → ∃ pre, x.got id = pre ++ cbItems (x.cbLog id)) ∧
    -- ended ⇒ forgotten (unless the id was re-opened, which marks it broken)
    (x.ended id = true → x.broken id = false → c.registered = false)

/-! ### G6: after the receiver finished -/

def FinInv (st : State) : Prop :=
  ∀ (p : Side),
    let x := st.side p
    x.finished = true →
      x.ioOpen = false ∧ ∀ id, (x.chans id).registered = false ∧ x.cbs id = none ∧
        ((x.chans id).alive = true → (x.chans id).rclosed = true)

/-! ### G7: closing frames are ordered after the data -/

def noClosing (id : Nat) (out : List Frame) : Prop := ∀ f ∈ out, Frame.isClosing id f = false

/-- no DATA frame for `id` follows a closing frame for `id` -/
def wellOrdered (id : Nat) (out : List Frame) : Prop :=
  ∀ pre f post, out = pre ++ f :: post → Frame.isClosing id f = true → dataOf id post = []

def CloseInv (st : State) : Prop :=
  ∀ (s : Side) (id : Nat),
    let x := st.side s
    let c := x.chans id
    (x.closeSent id = false → noClosing id x.out) ∧
    (x.closeSent id = true → x.broken id = false → c.closed = true ∨ c.alive = false) ∧
    (x.broken id = false → wellOrdered id x.out) ∧
    ((st.side s.peer).closeSeen id = true → x.closeSent id = true) ∧
    ((st.side s.peer).closeSeen id = true → x.broken id = false → dataOf id x.out = [])

/-! ### G8: channel ids -/

def IdInv (st : State) : Prop :=
  st.a.count % 2 = 1 ∧ st.b.count % 2 = 0 ∧
  (∀ id, (st.a.chans id).created = true → id % 2 = 1 → id < st.a.count) ∧
  (∀ id, (st.b.chans id).created = true → id % 2 = 0 → id < st.b.count)

def chanOut : Out → Option Nat
  | .chan id => some id
  | _ => none

end ExecnetVerif.Net
