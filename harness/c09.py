"""C09 — WorkerPool runs every accepted task exactly once and reports truthfully (DESIGN.md §4 C09).

The real `WorkerPool` / `Reply` run under the deterministic scheduler (`harness/sched.py`): every lock,
event and thread of the pool comes from a `SchedExecModel`, so a run is a function of the scenario and
of the list of scheduling choices (`Scheduler.trace`) — that pair is the replay of a failing schedule.

A *scenario* is JSON:
  {"backend": "thread"|"main_thread_only", "primary": bool, "timeouts": "when_stuck"|"adversarial",
   "users": [[op, ...], ...]}
with ops  ["spawn", t, kind]  kind in ret|raise|block      ["get", t, timeout|null]
          ["shutdown"]  ["waitall", timeout|null]  ["terminate", timeout|null]
          ["release", t, delay]  ["sleep", d]
For main_thread_only pools with a primary thread there is one spawner and it follows the gateway's
submission protocol (an event set at the end of every body, waited for and cleared before the next
spawn — exactly `_executetask_complete` in `WorkerGateway`), as the property text prescribes.

Logical events (the only thing compared with the Lean model `pool.accepts`):
  sp:i:t  spawn returned a Reply      rf:i:t  spawn raised ValueError      st:t:p|w  body began (primary / worker thread)
  en:t    body ended                   sd:i  trigger_shutdown returned    wa:i:r:T  waitall returned r (T: had a timeout)
  tm:i:r:T terminate returned r        gt:i:t:r:T  Reply.get returned (r=1) / timed out (r=0)      pl  primary left
"""
from __future__ import annotations

import json
import os
import time

from . import common
from .sched import Deadlock, SchedAbort, Scheduler, make_execmodel

MODEL_EVENTS = ("sp", "rf", "st", "en", "sd", "wa", "tm", "gt", "pl")


class TaskError(Exception):
    """the exception a `raise` body raises (never an OSError/ValueError, which the pool itself uses)"""


class TaskExit(SystemExit):
    pass


class TaskKbd(KeyboardInterrupt):
    pass


class TaskBase(BaseException):
    """neither Exception nor SystemExit/KeyboardInterrupt (like asyncio.CancelledError)"""


# a task may end with ANY exception class: Reply.get must re-raise exactly it and the task must count as finished
TASK_EXC = (TaskError, TaskExit, TaskBase, TaskKbd, GeneratorExit)


# ---------------------------------------------------------------------------------------
# one schedule of one scenario on the real code
# ---------------------------------------------------------------------------------------
class Outcome:
    def __init__(self):
        self.log = []
        self.problems = []  # oracle findings: list of str
        self.deadlock = None
        self.trace = []
        self.trace_n = []
        self.steps = 0


def gated_scenario(scn):
    return scn["backend"] == "main_thread_only" and scn["primary"]


def execute(execnet, scn, choices=None, rng=None, preempt=0, preempt_prob=0.0, max_steps=20000, current_first=False, event_yield=False):
    gb = execnet.gateway_base
    out = Outcome()
    sched = Scheduler(rng=rng, choices=choices, timeouts=scn.get("timeouts", "when_stuck"), max_steps=max_steps,
                      preempt_lines=preempt, preempt_prob=preempt_prob, current_first=current_first,
                      src_prefix=os.path.dirname(os.path.abspath(gb.__file__)))
    em = make_execmodel(gb, sched, scn["backend"])
    if event_yield:
        # allocating an Event is a point where a thread can lose the processor too (an Event made lazily, on first use,
        # by whoever comes first is made twice when two threads come at once)
        plain_event = em.Event

        def yielding_event():
            e = plain_event()
            if sched.in_logical_thread():
                sched.yield_point("Event()")
            return e

        em.Event = yielding_event
    log = out.log
    problems = out.problems
    users = scn["users"]
    gated = gated_scenario(scn)
    kinds = {}
    for prog in users:
        for op in prog:
            if op[0] == "spawn":
                kinds[op[1]] = op[2]
    counts = {t: 0 for t in kinds}
    excs = {t: TASK_EXC[t % len(TASK_EXC)]("task %d" % t) for t in kinds}
    rel = {t: sched.Event() for t in kinds}
    replies = {}
    state = {"primary": None, "pool": None}
    complete = sched.Event()
    complete.flag = True
    done_ev = [sched.Event() for _ in users]
    FINAL = len(users)

    def ev(*a):
        log.append(a)

    def body(t, kind):
        counts[t] += 1
        ev("st", t, "p" if sched.current is state["primary"] else "w")
        if kind == "block":
            rel[t].wait()
        ev("en", t)
        if gated:
            complete.set()
        if kind == "raise":
            raise excs[t]
        return ("v", t)

    def do_get(i, t, to):
        r = replies.get(t)
        if r is None:
            return
        ev("gc", i, t, int(not r.running))
        timed = int(to is not None)
        try:
            v = r.get(to)
        except OSError:
            if to is None:
                problems.append("get() without timeout raised OSError for task %d" % t)
            ev("gt", i, t, 0, timed)
        except BaseException as e:  # noqa: BLE001
            if isinstance(e, SchedAbort):
                raise
            if e is excs.get(t):
                if kinds[t] != "raise":
                    problems.append("get() of task %d re-raised an exception although the body returned: %r" % (t, e))
            else:
                problems.append("get() of task %d raised %r (expected %s)" % (t, e, "its own exception" if kinds[t] == "raise" else "a value"))
            ev("gt", i, t, 1, timed)
        else:
            if kinds[t] == "raise" or v != ("v", t):
                problems.append("get() of task %d returned %r" % (t, v))
            ev("gt", i, t, 1, timed)

    def user(i, prog):
        pool = state["pool"]
        for op in prog:
            k = op[0]
            if k == "spawn":
                t, kind = op[1], op[2]
                if gated:
                    complete.wait()
                    complete.clear()
                ev("sc", i, t)
                try:
                    r = pool.spawn(body, t, kind)
                except ValueError:
                    ev("rf", i, t)
                    if gated:
                        complete.set()
                except BaseException as e:  # noqa: BLE001
                    problems.append("spawn of task %d raised %r" % (t, e))
                    ev("rf", i, t)
                else:
                    replies[t] = r
                    ev("sp", i, t)
            elif k == "get":
                do_get(i, op[1], op[2])
            elif k == "shutdown":
                ev("sdc", i)
                pool.trigger_shutdown()
                ev("sd", i)
            elif k == "waitall":
                ev("wc", i)
                r = pool.waitall(op[1])
                ev("wa", i, int(bool(r)), int(op[1] is not None))
            elif k == "terminate":
                ev("sdc", i)
                ev("wc", i)
                r = pool.terminate(op[1])
                ev("tm", i, int(bool(r)), int(op[1] is not None))
            elif k == "release":
                if op[2]:
                    em.sleep(op[2])
                rel[op[1]].set()
                ev("rl", op[1])
            elif k == "sleep":
                em.sleep(op[1])
            else:
                raise common.ToolFailure("bad op %r" % (op,))

    def user_thread(i, prog):
        try:
            user(i, prog)
        finally:
            done_ev[i].set()

    def primary_fn():
        state["pool"].integrate_as_primary_thread()
        ev("pl")

    # the pool and the logical threads exist before the run starts (no scheduling points are spent on set-up)
    pool = state["pool"] = gb.WorkerPool(em, hasprimary=scn["primary"])
    if scn["primary"]:
        state["primary"] = sched.spawn(primary_fn, name="primary")
    for i, prog in enumerate(users):
        sched.spawn(user_thread, (i, prog), name="user%d" % i)

    def main():
        for e in done_ev:
            e.wait()
        # closing phase: shut the pool down and wait for everything (no timeout: a lost task or a lost
        # wake-up shows up as a deadlock of this run), then collect every reply
        ev("sdc", FINAL)
        pool.trigger_shutdown()
        ev("sd", FINAL)
        ev("wc", FINAL)
        r = pool.waitall(None)
        ev("wa", FINAL, int(bool(r)), 0)
        for t in sorted(replies):
            do_get(FINAL, t, None)

    try:
        sched.run(main, wall_timeout=60.0)
    except Deadlock as e:
        out.deadlock = str(e)
    out.trace = list(sched.trace)
    out.trace_n = list(sched.trace_n)
    out.trace_p = list(sched.trace_p)
    out.steps = sched.steps
    out.line_events = sched.line_events
    for t in sched.threads:
        if t.exc is not None:
            problems.append("thread %s died with %r" % (t.name, t.exc))
    judge(scn, out, kinds, counts, replies)
    return out


def judge(scn, out, kinds, counts, replies):
    """the model-free oracle of the property text, on the log of one run"""
    log = out.log
    P = out.problems
    if out.deadlock is not None:
        P.append("hang: " + out.deadlock.replace("\n", " | ")[:400])
    accepted = [e[2] for e in log if e[0] == "sp"]
    # exactly once
    for t in kinds:
        want = 1 if t in accepted else 0
        if out.deadlock is None and counts[t] != want:
            P.append("task %d (%s) body ran %d times, expected %d" % (t, "accepted" if want else "not accepted", counts[t], want))
        elif counts[t] > 1:
            P.append("task %d body ran %d times" % (t, counts[t]))
    idx = {}
    for n, e in enumerate(log):
        idx.setdefault(e[:3] if e[0] in ("sc", "sp", "rf", "st", "en", "gc") else e[:2], []).append(n)

    def first(key, default=None):
        return idx.get(key, [default])[0]

    sd_returns = [n for n, e in enumerate(log) if e[0] in ("sd", "tm")]
    sd_calls = [n for n, e in enumerate(log) if e[0] == "sdc"]
    # spawn after shutdown is refused; spawn with no shutdown in sight is accepted
    for n, e in enumerate(log):
        if e[0] == "sc":
            i, t = e[1], e[2]
            ret_ok = first(("sp", i, t))
            ret_rf = first(("rf", i, t))
            if ret_ok is not None and any(m < n for m in sd_returns):
                P.append("spawn of task %d was accepted after trigger_shutdown had returned" % t)
            if ret_rf is not None and not any(m < ret_rf for m in sd_calls):
                P.append("spawn of task %d was refused although no shutdown had been requested" % t)
    # order per task: st before en, exactly one each when accepted
    for t in accepted:
        if out.deadlock is None:
            st = [n for n, e in enumerate(log) if e[0] == "st" and e[1] == t]
            en = [n for n, e in enumerate(log) if e[0] == "en" and e[1] == t]
            if len(st) != 1 or len(en) != 1 or st[0] > en[0]:
                P.append("task %d: %d starts / %d ends" % (t, len(st), len(en)))
    # primary-thread placement: with a primary in main_thread_only every body runs on it
    if scn["primary"] and scn["backend"] == "main_thread_only":
        for e in log:
            if e[0] == "st" and e[2] != "p":
                P.append("main_thread_only pool ran task %d on a worker thread" % e[1])
    if not scn["primary"]:
        for e in log:
            if e[0] == "st" and e[2] != "w":
                P.append("task %d ran on a primary thread of a pool without one" % e[1])
    # waitall / terminate truth
    for n, e in enumerate(log):
        if e[0] in ("wa", "tm"):
            i, r, timed = e[1], e[2], e[3]
            calls = [m for m in idx.get(("wc", i), []) if m < n]
            c = calls[-1]
            if r:
                must = set()
                for m, f in enumerate(log[:c]):
                    if f[0] == "sp":
                        must.add(f[2])
                if e[0] == "tm" or any(m < c for m in sd_returns):
                    must = set(accepted)  # nothing can be accepted after a shutdown that returned earlier
                ended = {f[1] for f in log[:n] if f[0] == "en"}
                if must - ended:
                    P.append("%s returned True while task(s) %s had not finished" % ("waitall" if e[0] == "wa" else "terminate", sorted(must - ended)))
            else:
                if not timed:
                    P.append("waitall(None) returned False")
                elif scn.get("timeouts", "when_stuck") == "when_stuck":
                    # a timeout fires only when nothing else can run: legitimate only if a body is still
                    # blocked waiting for its (delayed) release
                    began = {f[1] for f in log[:n] if f[0] == "st"}
                    released = {f[1] for f in log[:n] if f[0] == "rl"}
                    if not any(kinds[t] == "block" and t not in released for t in began):
                        P.append("waitall(timeout) returned False although no accepted task was legitimately blocked (lost task or lost wake-up)")
    # Reply.get
    for n, e in enumerate(log):
        if e[0] == "gt":
            i, t, r, timed = e[1], e[2], e[3], e[4]
            calls = [m for m in idx.get(("gc", i, t), []) if m < n]
            c = calls[-1]
            if not r:
                if log[c][3]:
                    P.append("get(timeout) of the finished task %d raised OSError" % t)
                elif scn.get("timeouts", "when_stuck") == "when_stuck":
                    began = {f[1] for f in log[:n] if f[0] == "st"}
                    released = {f[1] for f in log[:n] if f[0] == "rl"}
                    if not any(kinds[u] == "block" and u not in released for u in began):
                        P.append("get(timeout) of task %d timed out although nothing was legitimately blocked" % t)
            else:
                ended = {f[1] for f in log[:n] if f[0] == "en"}
                if t not in ended:
                    P.append("get() of task %d returned before its body ended" % t)
    if out.deadlock is None:
        if scn["primary"] and not any(e[0] == "pl" for e in log):
            P.append("primary thread did not leave integrate_as_primary_thread")
        if scn["primary"] and any(e[0] == "pl" for e in log):
            n = first(("pl",))
            if not any(m < n for m in sd_calls):
                P.append("primary thread left before any shutdown was requested")
        # every accepted task was collected in the closing phase with its exact outcome (do_get checks the value)
        got = {e[2] for e in log if e[0] == "gt" and e[3] == 1}
        if set(accepted) - got:
            P.append("replies never resolved: %s" % sorted(set(accepted) - got))


def model_line(scn, log, old=False):
    toks = ["pool.accepts", "P=%d" % int(scn["primary"]), "M=%d" % int(scn["backend"] == "main_thread_only"),
            "G=%d" % int(gated_scenario(scn)), "O=%d" % int(old), ";"]
    for e in log:
        if e[0] in MODEL_EVENTS:
            toks.append(":".join(str(x) for x in e))
    return " ".join(toks)


# ---------------------------------------------------------------------------------------
# schedule exploration
# ---------------------------------------------------------------------------------------
def dfs_schedules(run_one, depth=None, limit=None, deadline=None, max_preempt=None):
    """Exhaustive DFS over scheduling choices.  `run_one(prefix)` runs the schedule that follows `prefix` and then
    always takes alternative 0; it returns an object with .trace / .trace_n / .trace_p.
    depth: only the first `depth` choices are varied (bounded-exhaustive);
    max_preempt: (needs Scheduler(current_first=True)) only schedules with at most that many pre-emptions, i.e.
    choices other than "the running thread continues" at points where it could have continued.
    Sets dfs_schedules.complete when the whole bounded tree was enumerated."""
    prefix = []
    n = 0
    dfs_schedules.complete = False
    while True:
        out = run_one(list(prefix))
        n += 1
        yield out
        tr, ar, pp = out.trace, out.trace_n, out.trace_p
        if depth is not None:
            tr, ar, pp = tr[:depth], ar[:depth], pp[:depth]
        used = []  # pre-emptions spent before position k
        c = 0
        for k in range(len(tr)):
            used.append(c)
            if pp[k] and tr[k] != 0:
                c += 1
        k = len(tr) - 1
        while k >= 0:
            if tr[k] + 1 < ar[k]:
                if max_preempt is None or not pp[k] or tr[k] != 0 or used[k] + 1 <= max_preempt:
                    break
            k -= 1
        if k < 0:
            dfs_schedules.complete = True
            return
        prefix = tr[:k] + [tr[k] + 1]
        if (limit is not None and n >= limit) or (deadline is not None and time.monotonic() > deadline):
            return


# ---------------------------------------------------------------------------------------
# scenario generator
# ---------------------------------------------------------------------------------------
def gen_scenario(rng, small=False):
    backend = rng.choice(["thread", "main_thread_only"])
    primary = rng.random() < 0.7
    gated = backend == "main_thread_only" and primary
    nspawners = 1 if gated else rng.choice([1, 1, 2, 2, 3])
    total = rng.randint(1, 3 if small else 5)
    users = [[] for _ in range(nspawners)]
    releases = []
    t = 0
    for _ in range(total):
        u = rng.randrange(nspawners)
        if len(users[u]) >= 8:
            continue
        kind = rng.choice(["ret", "ret", "ret", "raise", "raise", "block"])
        users[u].append(["spawn", t, kind])
        if kind == "block":
            releases.append(["release", t, rng.choice([0, 0, 10.0])])
        if rng.random() < 0.35:
            users[u].append(["get", t, rng.choice([None, None, 1.0])])
        t += 1
    for u in range(nspawners):
        # late gets on earlier replies of the same spawner
        mine = [op[1] for op in users[u] if op[0] == "spawn"]
        if mine and rng.random() < 0.3:
            users[u].append(["get", rng.choice(mine), rng.choice([None, 1.0])])
    for _ in range(rng.choice([0, 1, 1, 1, 2])):
        k = rng.random()
        if k < 0.4:
            users.append([["shutdown"]])
        elif k < 0.7:
            users.append([["terminate", rng.choice([None, 1.0, 5.0])]])
        else:
            users.append([["shutdown"], ["waitall", rng.choice([None, 1.0, 5.0])]])
    for _ in range(rng.choice([0, 0, 1, 1, 2])):
        users.append([["waitall", rng.choice([None, 1.0, 5.0])]])
    if releases:
        users.append(releases)
    # a late spawner that is likely (not certain) to meet a pool that is already shutting down
    if rng.random() < 0.25 and not gated and t < 6:
        users.append([["sleep", 2.0], ["spawn", t, "ret"]])
    return {"backend": backend, "primary": primary, "timeouts": rng.choice(["when_stuck"] * 4 + ["adversarial"]),
            "users": users}


def nontrivial(scn):
    """a scenario is non-trivial when a shutdown or waitall races with at least one spawn"""
    ops = [op[0] for prog in scn["users"] for op in prog]
    return "spawn" in ops and (len(scn["users"]) > 1)


# the lost-task scenarios of D9 (pinned tree), smallest first; each runs first in every check
CORPUS_SCENARIOS = [
    {"backend": "thread", "primary": True, "users": [[["spawn", 0, "ret"]], [["shutdown"], ["waitall", 5.0]]]},
    {"backend": "main_thread_only", "primary": True, "users": [[["spawn", 0, "ret"], ["spawn", 1, "ret"]], [["shutdown"], ["waitall", 5.0]]]},
    {"backend": "thread", "primary": True, "users": [[["spawn", 0, "ret"]], [["spawn", 1, "raise"]], [["shutdown"]]]},
    {"backend": "main_thread_only", "primary": True, "users": [[["spawn", 0, "ret"], ["spawn", 1, "ret"], ["spawn", 2, "raise"]], [["terminate", 5.0]]]},
    {"backend": "thread", "primary": True, "users": [[["spawn", 0, "ret"], ["spawn", 1, "ret"]], [["spawn", 2, "raise"]], [["terminate", None]]]},
    {"backend": "thread", "primary": False, "users": [[["spawn", 0, "block"], ["get", 0, 1.0]], [["waitall", 1.0], ["terminate", None]], [["release", 0, 10.0]]]},
    {"backend": "thread", "primary": True, "users": [[["spawn", 0, "ret"]], [["spawn", 1, "ret"]]]},
    {"backend": "thread", "primary": False, "users": [[["spawn", 0, "ret"]], [["waitall", None]]]},
    {"backend": "thread", "primary": True, "users": [[["spawn", 0, "ret"], ["spawn", 1, "raise"]], [["waitall", None]]]},
]
LINE_PREEMPT_SCENARIOS = [0, 1, 5, 7, 8]
# minimised schedules (Scheduler(current_first=True) choice lists) that lose the task on the pinned tree:
# spawn returns, trigger_shutdown returns, then the primary wakes up / (main_thread_only) the hand-over of the
# second task races with shutdown while the first one is finishing
CORPUS_SCHEDULES = [
    (0, [0, 0, 0, 0, 0, 0, 0, 0, 1]),
    (1, [0] * 26 + [1]),
    (1, [0] * 15 + [1] + [0] * 7 + [1]),   # loses the task with a shutdown-only repair (both changes are needed)
    (3, [0] * 42 + [1]),
    (3, [0] * 31 + [1] + [0] * 7 + [1]),
]


# ---------------------------------------------------------------------------------------
# bookkeeping shared by all exploration modes
# ---------------------------------------------------------------------------------------
class Collector:
    def __init__(self, res):
        self.res = res
        self.lines = {}  # model line -> case (first schedule that produced it)

    def add(self, scn, out, case):
        res = self.res
        res.count((json.dumps(scn, sort_keys=True), tuple(out.trace)), nontrivial=nontrivial(scn))
        res.stat("schedules")
        res.stat("backend_" + scn["backend"] + ("+primary" if scn["primary"] else ""))
        for e in out.log:
            if e[0] in ("rf", "tm", "pl") or (e[0] in ("wa", "gt") and not e[-2]):
                res.stat("event_" + e[0] + ("_timeout" if e[0] in ("wa", "gt") else ""))
        if out.problems:
            res.violations.append({"case": case, "what": "; ".join(out.problems)[:1500], "finding": None,
                                   "log": [list(e) for e in out.log][:200]})
            return
        line = model_line(scn, out.log)
        if line not in self.lines:
            self.lines[line] = case

    def check_model(self, ctx, limit):
        """trace inclusion: every logical trace the real pool produced must be a trace of the Lean model"""
        res = self.res
        items = sorted(self.lines.items())
        if len(items) > limit:
            rng = ctx.rng("model-sample")
            items = rng.sample(items, limit)
        outs = ctx.driver.ask([l for l, _ in items])
        for (line, case), ans in zip(items, outs):
            if ans.startswith("accept"):
                res.traces += 1
                res.stat("model_states_expanded_max", 0)
                res.stats["model_states_expanded_max"] = max(res.stats["model_states_expanded_max"], int(ans.split()[1]))
            elif ans.startswith("unknown"):
                res.stat("model_search_budget_exhausted")  # neither accepted nor refuted within the driver's budget
            else:
                res.mismatches.append({"op": "pool.accepts", "model": ans, "line": line, "case": case})


def _case(scn, out, **kw):
    c = {"scenario": scn, "choices": list(out.trace)}
    c.update(kw)
    return c


def _dfs_worker(args):
    """runs in a child process: exhaustive DFS of one scenario; returns a summary"""
    scn, max_preempt, depth, budget_s, line_cap = args
    execnet = common.import_execnet()
    deadline = time.monotonic() + budget_s
    n = 0
    bad = []
    lines = {}
    cf = max_preempt is not None
    for out in dfs_schedules(lambda p: execute(execnet, scn, choices=p, current_first=cf), depth=depth,
                             deadline=deadline, max_preempt=max_preempt):
        n += 1
        if out.problems:
            if len(bad) < 3:
                bad.append({"case": _case(scn, out, current_first=cf), "what": "; ".join(out.problems)[:1500],
                            "log": [list(e) for e in out.log][:200]})
        elif len(lines) < line_cap:
            lines.setdefault(model_line(scn, out.log), _case(scn, out, current_first=cf))
    return {"scenario": scn, "n": n, "complete": bool(dfs_schedules.complete), "bad": bad, "lines": lines,
            "max_preempt": max_preempt, "depth": depth}


def preempt_probability(execnet, scn, preempt):
    """per-line pre-emption probability such that about `preempt` pre-emptions are spread over a whole run
    (a calibration run counts the traced lines of this scenario)"""
    import random

    cal = execute(execnet, scn, rng=random.Random("calibrate"), preempt=10 ** 9, preempt_prob=0.0)
    return min(0.5, float(preempt) / max(50, cal.line_events))


def _random_worker(args):
    """runs in a child process: random schedules (optionally with line-level pre-emption) of generated scenarios"""
    seed_tag, nscen, per, preempt, budget_s, line_cap = args
    import random

    execnet = common.import_execnet()
    deadline = time.monotonic() + budget_s
    rng = random.Random(seed_tag)
    n = 0
    bad = []
    lines = {}
    for k in range(nscen):
        scn = gen_scenario(rng)
        prob = 0.0
        if preempt:
            prob = preempt_probability(execnet, scn, preempt)
        for j in range(per):
            sseed = "%s:%d:%d" % (seed_tag, k, j)
            out = execute(execnet, scn, rng=random.Random(sseed), preempt=preempt, preempt_prob=prob)
            n += 1
            case = _case(scn, out, rng_seed=sseed, preempt=preempt, preempt_prob=prob)
            if out.problems:
                if len(bad) < 3:
                    bad.append({"case": case, "what": "; ".join(out.problems)[:1500], "log": [list(e) for e in out.log][:200]})
            elif len(lines) < line_cap and not preempt:
                lines.setdefault(model_line(scn, out.log), case)
        if time.monotonic() > deadline:
            break
    return {"n": n, "bad": bad, "lines": lines}


# ---------------------------------------------------------------------------------------
# process level: remote_exec immediately followed by group.terminate()
# ---------------------------------------------------------------------------------------
def process_level(ctx, res, rounds):
    import shutil

    execnet = ctx.execnet
    d = common.scratch_dir("c09")
    try:
        for k in range(rounds):
            for model in ("thread", "main_thread_only"):
                marker = os.path.join(d, "ran-%s-%d" % (model, k))
                group = execnet.Group()
                t0 = time.monotonic()
                try:
                    gw = group.makegateway("popen//execmodel=%s" % model)
                    t1 = time.monotonic()
                    gw.remote_exec("open(%r, 'w').close()" % marker)
                    group.terminate(timeout=10.0)
                    dt = time.monotonic() - t1
                finally:
                    try:
                        group.terminate(timeout=1.0)
                    except Exception:  # noqa: BLE001
                        pass
                case = {"process_level": model, "round": k}
                res.count(("process", model, k))
                res.stat("process_level_runs")
                res.stat("process_level_max_latency_ms", 0)
                res.stats["process_level_max_latency_ms"] = max(res.stats["process_level_max_latency_ms"], int(dt * 1000))
                ran = os.path.exists(marker)
                if not ran or dt >= 2.0:
                    res.violations.append({"case": case, "finding": None,
                                           "what": "gw.remote_exec(src); group.terminate(): body %s, terminate took %.2f s (execmodel=%s)"
                                                   % ("ran" if ran else "NEVER RAN", dt, model)})
                    return
    finally:
        shutil.rmtree(d, ignore_errors=True)


# ---------------------------------------------------------------------------------------
# the real exec models (the scheduler runs replace Event / Lock / start by their own)
# ---------------------------------------------------------------------------------------
def _timed(fn, limit=3.0):
    import threading

    box = {}

    def runner():
        t0 = time.monotonic()
        try:
            box["val"] = fn()
        except BaseException as e:  # noqa: BLE001
            box["exc"] = e
        box["dt"] = time.monotonic() - t0

    th = threading.Thread(target=runner, daemon=True)
    th.start()
    th.join(limit)
    if th.is_alive():
        return "stuck", None, limit
    if "exc" in box:
        return "raise", box["exc"], box["dt"]
    return "ok", box["val"], box["dt"]


def native_execmodel_probe(ctx, res):
    """WorkerPool / Reply on the repository's own ThreadExecModel and MainThreadOnlyExecModel with real threads: the time-out
    contract of every waiting call including timeout=0 ("a timed-out get/waitfinish raises OSError", waitall/terminate
    "return true only when no accepted task is unfinished"), and a thread that cannot be started (an accepted call is executed;
    a refused one leaves the pool as it was)."""
    import threading
    import _thread

    gb = ctx.execnet.gateway_base

    def bad(case, what, finding=None):
        res.violations.append({"case": dict(case, native=True), "what": what, "finding": finding})

    for backend in ("thread", "main_thread_only"):
        em = gb.get_execmodel(backend)
        ev = em.Event()
        for to in (0, 0.0, 0.05):
            case = {"backend": backend, "op": "Event.wait", "timeout": to}
            res.count(("native", backend, "event", repr(to)))
            kind, val, dt = _timed(lambda: ev.wait(timeout=to))
            if kind != "ok" or val or dt > to + 1.0:
                bad(case, "Event().wait(timeout=%r) of an unset event: %s %r after %.2f s (must return false at once)" % (to, kind, val, dt))
        ev.set()
        kind, val, dt = _timed(lambda: ev.wait())
        if kind != "ok" or not val:
            bad({"backend": backend, "op": "Event.wait", "timeout": None}, "wait() of a set event: %s %r" % (kind, val))
        for hasprimary in (False, True):
            tag = {"backend": backend, "primary": hasprimary}
            pool = gb.WorkerPool(em, hasprimary=hasprimary)
            prim = None
            if hasprimary:
                prim = threading.Thread(target=pool.integrate_as_primary_thread, daemon=True)
                prim.start()
            go = threading.Event()
            ran = []

            def task():
                go.wait(30)
                ran.append(1)
                return 42

            reply = pool.spawn(task)
            waits = [("Reply.get", lambda to: reply.get(timeout=to), OSError),
                     ("Reply.waitfinish", lambda to: reply.waitfinish(timeout=to), OSError),
                     ("WorkerPool.waitall", lambda to: pool.waitall(timeout=to), False)]
            for name, fn, want in waits:
                for to in (0, 0.0, 0.05):
                    case = dict(tag, op=name, timeout=to)
                    res.count(("native", backend, hasprimary, name, repr(to)), nontrivial=True)
                    res.stat("native_timeout_calls")
                    kind, val, dt = _timed(lambda: fn(to), 2.5)
                    if kind == "stuck" or dt > to + 1.0:
                        bad(case, "%s(timeout=%r) with the task unfinished: %s after %.2f s (must time out at once)" % (name, to, kind, dt))
                    elif want is OSError and not (kind == "raise" and isinstance(val, OSError)):
                        bad(case, "%s(timeout=%r) with the task unfinished: %s %r, expected OSError" % (name, to, kind, val))
                    elif want is False and not (kind == "ok" and not val):
                        bad(case, "%s(timeout=%r) with the task unfinished: %s %r, expected a false result" % (name, to, kind, val))
            if ran:
                bad(tag, "a timed-out wait cancelled or ran the task early: ran=%r" % ran)
            go.set()
            kind, val, dt = _timed(lambda: reply.get(timeout=5.0), 8.0)
            if kind != "ok" or val != 42 or dt > 2.0 or ran != [1]:
                bad(dict(tag, op="Reply.get", timeout=5.0), "after the task finished: get %s %r after %.2f s, ran=%r (expected 42 at once, once)" % (kind, val, dt, ran))
            kind, val, dt = _timed(lambda: pool.waitall(timeout=5.0), 8.0)
            if kind != "ok" or not val or dt > 2.0:
                bad(dict(tag, op="WorkerPool.waitall", timeout=5.0), "with every task finished: waitall %s %r after %.2f s" % (kind, val, dt))
            # terminate(timeout=0) with an unfinished task
            go2 = threading.Event()
            reply2 = pool.spawn(lambda: go2.wait(30) and 7)
            res.count(("native", backend, hasprimary, "terminate0"), nontrivial=True)
            kind, val, dt = _timed(lambda: pool.terminate(timeout=0), 2.5)
            if kind != "ok" or val or dt > 1.0:
                bad(dict(tag, op="WorkerPool.terminate", timeout=0), "terminate(timeout=0) with a task unfinished: %s %r after %.2f s" % (kind, val, dt))
            go2.set()
            kind, val, dt = _timed(lambda: (reply2.get(timeout=5.0), pool.waitall(timeout=5.0)), 12.0)
            if kind != "ok" or val != (7, True):
                bad(dict(tag, op="after terminate"), "task accepted before terminate: %s %r (expected its value and waitall true)" % (kind, val))
            try:
                pool.spawn(lambda: None)
                bad(dict(tag, op="spawn after shutdown"), "spawn after terminate was accepted")
            except ValueError:
                pass
            if prim is not None:
                prim.join(3.0)
                if prim.is_alive():
                    bad(dict(tag, op="integrate_as_primary_thread"), "the primary thread did not leave integrate_as_primary_thread after shutdown")
        # a thread that cannot be started
        case = {"backend": backend, "op": "spawn with failing thread start"}
        res.count(("native", backend, "start-fails"), nontrivial=True)
        pool = gb.WorkerPool(em)
        ran = []
        real_start = _thread.start_new_thread

        def failing(*a, **kw):
            raise RuntimeError("can't start new thread")

        _thread.start_new_thread = failing
        try:
            try:
                reply = pool.spawn(lambda: ran.append(1) or 5)
                accepted = True
            except RuntimeError:
                accepted = False
        finally:
            _thread.start_new_thread = real_start
        if accepted:
            kind, val, dt = _timed(lambda: reply.get(timeout=2.0), 4.0)
            if kind != "ok" or val != 5 or ran != [1]:
                bad(case, "spawn() returned a Reply although no thread could be started and the call was never executed: get %s %r, ran=%r" % (kind, val, ran))
        else:
            res.stat("native_spawn_refused_when_thread_start_fails")
            kind, val, dt = _timed(lambda: pool.waitall(timeout=1.0), 3.0)
            if pool.active_count() != 0 or kind != "ok" or not val:
                bad(case, "spawn() raised RuntimeError (call not accepted) but the pool counts it: active_count=%d, waitall(1.0) %s %r "
                          "— waitall/terminate can never become true" % (pool.active_count(), kind, val), finding=None)
            kind, val, dt = _timed(lambda: pool.spawn(lambda: 9).get(timeout=2.0), 4.0)
            if kind != "ok" or val != 9:
                bad(case, "the pool is unusable after a refused spawn: %s %r" % (kind, val))
            pool.terminate(timeout=1.0)


def start_failure_correspondence(ctx, res, nprog):
    """random histories of spawns whose thread starts / cannot be started, finishing calls and shutdown on the real
    WorkerPool (thread model, real threads) against `spf.run code` (Model/SpawnFail.lean)"""
    import threading
    import _thread

    gb = ctx.execnet.gateway_base
    em = gb.get_execmodel("thread")
    real_start = _thread.start_new_thread

    def failing(*a, **kw):
        raise RuntimeError("can't start new thread")

    progs = []
    for k in range(nprog):
        rng = common.rng_for(ctx.seed, "C09:spf:%d" % k)
        pool = gb.WorkerPool(em)
        gates, replies, ops, outs = {}, {}, [], []
        nxt = 0
        nfin = 0
        for _ in range(rng.choice([3, 6, 10])):
            c = rng.random()
            if c < 0.3:
                op = "s1"
            elif c < 0.55:
                op = "s0"
            elif c < 0.9:
                op = "f%d" % (rng.randrange(nxt + 1) if nxt else 0)
            else:
                op = "x"
            ops.append(op)
            if op in ("s1", "s0"):
                gate = threading.Event()
                if op == "s0":
                    _thread.start_new_thread = failing
                try:
                    try:
                        r = pool.spawn(gate.wait, 30)
                        if pool._shuttingdown:
                            outs.append("accepted-after-shutdown")
                        else:
                            outs.append("r%d" % nxt)
                            gates[nxt], replies[nxt] = gate, r
                            nxt += 1
                    except ValueError:
                        outs.append("shut")
                    except RuntimeError:
                        outs.append("starterr")
                        nxt += 1
                finally:
                    _thread.start_new_thread = real_start
            elif op == "x":
                pool.trigger_shutdown()
                outs.append("done")
            else:
                r = int(op[1:])
                if r in gates:
                    before = pool.active_count()
                    gates.pop(r).set()
                    try:
                        replies[r].get(timeout=5.0)
                    except OSError:
                        pass
                    t_end = time.monotonic() + 5.0
                    while pool.active_count() >= before and time.monotonic() < t_end:
                        time.sleep(0.001)
                    nfin += 1
                    outs.append("done")
                else:
                    outs.append("noten")
        box = {}
        th = threading.Thread(target=lambda: box.setdefault("w", pool.waitall(timeout=0.05)), daemon=True)
        th.start()
        th.join(3.0)
        impl = "%s | running=%d accepted=%d finished=%d waitall=%s" % (
            " ".join(outs), pool.active_count(), len(replies), nfin, str(bool(box.get("w"))).lower())
        for g in gates.values():
            g.set()
        pool.terminate(timeout=2.0)
        res.count(("spf",) + tuple(ops), nontrivial="s0" in ops)
        res.stat("spawnfail_programs")
        for o in outs:
            res.stat("spawnfail_out_" + o.rstrip("0123456789"))
        progs.append((ops, impl))
    model = ctx.driver.ask(["spf.run code " + " ".join(ops) for ops, _ in progs])
    for (ops, impl), m in zip(progs, model):
        if impl == m:
            res.traces += 1
            continue
        # does the property fail on this history?  (a refused spawn that is counted / waitall false with everything finished)
        f = dict(kv.split("=") for kv in impl.split(" | ")[1].split())
        if "accepted-after-shutdown" in impl or (f["accepted"] == f["finished"] and f["waitall"] != "true"):
            res.violations.append({"case": {"spawnfail_ops": " ".join(ops), "native": True}, "finding": None,
                                   "what": "history %s: %s — every accepted call has finished, yet waitall() is not true / the pool "
                                           "counts a call it refused (model: %s)" % (" ".join(ops), impl, m)})
        else:
            res.mismatches.append({"op": "spf.run", "ops": " ".join(ops), "impl": impl, "model": m})


# ---------------------------------------------------------------------------------------
# entry points
# ---------------------------------------------------------------------------------------
RULE = ("real WorkerPool/Reply under the deterministic scheduler: frozen D9 corpus (scenario + choice list), generated scenarios "
        "(1-3 spawners x 1-5 tasks of kind return/raise/block-until-released, thread and main_thread_only, with/without primary, "
        "gated spawner for main_thread_only+primary, shutdown/terminate/waitall callers with and without time-outs, Reply.get(timeout)) "
        "x random schedules, pre-emption-bounded exhaustive DFS (all schedules with <= k pre-emptions at synchronisation points) and "
        "depth-bounded exhaustive DFS of the corpus scenarios, line-level pre-emption (thorough); every completed run's logical trace "
        "checked with pool.accepts; plus remote_exec + immediate group.terminate() on real popen gateways. distinct = distinct "
        "(scenario, choice list); non-trivial = a spawn racing with at least one other thread")


def run_corpus(ctx, res, col):
    execnet = ctx.execnet
    for idx, choices in CORPUS_SCHEDULES:
        scn = CORPUS_SCENARIOS[idx]
        out = execute(execnet, scn, choices=list(choices), current_first=True)
        col.add(scn, out, _case(scn, out, current_first=True, origin="corpus"))
        res.stat("corpus")


def run(ctx):
    import random

    res = common.Result()
    res.rule = RULE
    res.assumptions = ["C09 progress theorems assume `Protocol`: a main_thread_only pool with a primary thread is fed by a spawner that "
                       "submits the next task only after the previous body returned (the property text's gateway submission protocol)",
                       "task bodies terminate; scheduling granularity of the theorems = synchronisation operations (line-level "
                       "pre-emption is sampled by the harness only)"]
    execnet = ctx.execnet
    col = Collector(res)
    t_start = time.monotonic()
    run_corpus(ctx, res, col)
    if res.violations:
        return res
    # process level first (cheap, and the most visible symptom of D9)
    process_level(ctx, res, ctx.budget(3, 10, 6))
    if res.violations:
        return res
    native_execmodel_probe(ctx, res)
    if [v for v in res.violations if not v.get("finding")]:
        return res
    start_failure_correspondence(ctx, res, ctx.budget(60, 600, 200))
    if res.violations:
        return res
    # random schedules of generated scenarios
    nscen = ctx.budget(45, 0, 150)
    per = ctx.budget(50, 0, 120)
    rng = ctx.rng("scenarios")
    for k in range(nscen):
        scn = gen_scenario(rng)
        res.sample(scn)
        for j in range(per):
            sseed = "%d:C09:%d:%d" % (ctx.seed, k, j)
            ey = j % 4 == 3
            out = execute(execnet, scn, rng=random.Random(sseed), event_yield=ey)
            col.add(scn, out, _case(scn, out, rng_seed=sseed, event_yield=ey))
            if ey:
                res.stat("schedules_with_event_allocation_as_scheduling_point")
        if len(res.violations) > 5:
            return res
    # corpus scenarios: random + small exhaustive DFS
    for idx, scn in enumerate(CORPUS_SCENARIOS):
        for j in range(ctx.budget(60, 200, 400)):
            sseed = "%d:C09:corpus%d:%d" % (ctx.seed, idx, j)
            out = execute(execnet, scn, rng=random.Random(sseed))
            col.add(scn, out, _case(scn, out, rng_seed=sseed))
    if res.violations:
        return res
    # line-level pre-emption (sys.settrace) inside gateway_base.py on the small scenarios: races that need a
    # switch between two statements that are not synchronisation operations
    for idx in LINE_PREEMPT_SCENARIOS:
        scn = CORPUS_SCENARIOS[idx]
        prob = preempt_probability(execnet, scn, 4)
        for j in range(ctx.budget(400, 4000, 1500)):
            sseed = "%d:C09:line%d:%d" % (ctx.seed, idx, j)
            out = execute(execnet, scn, rng=random.Random(sseed), preempt=4, preempt_prob=prob)
            res.stat("line_preempt_schedules")
            if out.problems:
                col.add(scn, out, _case(scn, out, rng_seed=sseed, preempt=4, preempt_prob=prob))
            else:
                res.count((idx, "line", sseed))
    if res.violations:
        return res
    if not ctx.thorough:
        scn = CORPUS_SCENARIOS[0]
        deadline = time.monotonic() + ctx.budget(12, 0, 40)
        n = 0
        for out in dfs_schedules(lambda p: execute(execnet, scn, choices=p, current_first=True), max_preempt=1, deadline=deadline):
            col.add(scn, out, _case(scn, out, current_first=True))
            n += 1
        res.stat("dfs_schedules", n)
        res.extra["dfs"] = [{"scenario": 0, "max_preempt": 1, "schedules": n, "complete": bool(dfs_schedules.complete)}]
        res.exhaustive = bool(dfs_schedules.complete)
    else:
        thorough_parallel(ctx, res, col)
    col.check_model(ctx, ctx.budget(500, 6000, 1500))
    res.extra["wall_explore_s"] = round(time.monotonic() - t_start, 1)
    return res


def thorough_parallel(ctx, res, col):
    import concurrent.futures
    import multiprocessing

    budget = 420.0
    jobs = [
        ("dfs", (CORPUS_SCENARIOS[0], 2, None, budget, 400)),
        ("dfs", (CORPUS_SCENARIOS[0], None, 9, budget, 400)),
        ("dfs", (CORPUS_SCENARIOS[1], 1, None, budget, 400)),
        ("dfs", (CORPUS_SCENARIOS[3], 1, None, budget, 400)),
        ("dfs", (CORPUS_SCENARIOS[5], 2, None, budget, 400)),
        ("dfs", (CORPUS_SCENARIOS[6], 1, None, budget, 400)),
    ]
    for w in range(6):
        jobs.append(("rand", ("%d:C09:par%d" % (ctx.seed, w), 400, 80, 0, budget, 700)))
    for w in range(2):
        jobs.append(("rand", ("%d:C09:pre%d" % (ctx.seed, w), 200, 15, 3, budget, 0)))
    mp = multiprocessing.get_context("spawn")
    dfs_report = []
    all_complete = True
    with concurrent.futures.ProcessPoolExecutor(max_workers=16, mp_context=mp) as ex:
        futs = [(kind, ex.submit(_dfs_worker if kind == "dfs" else _random_worker, args)) for kind, args in jobs]
        for kind, f in futs:
            r = f.result(timeout=budget + 240)
            res.evaluations += r["n"]
            res.stat("schedules", r["n"])
            for b in r["bad"]:
                res.violations.append({"case": b["case"], "what": b["what"], "finding": None, "log": b["log"]})
            for line, case in r["lines"].items():
                col.lines.setdefault(line, case)
            if kind == "dfs":
                res.stat("dfs_schedules", r["n"])
                dfs_report.append({"scenario": CORPUS_SCENARIOS.index(r["scenario"]), "max_preempt": r["max_preempt"],
                                   "depth": r["depth"], "schedules": r["n"], "complete": r["complete"]})
                all_complete = all_complete and r["complete"]
                # distinct-case accounting for the evidence
                res.hashes.add("dfs-%d-%s-%s-%d" % (CORPUS_SCENARIOS.index(r["scenario"]), r["max_preempt"], r["depth"], r["n"]))
            else:
                res.stat("random_parallel_schedules", r["n"])
    res.extra["dfs"] = dfs_report
    res.exhaustive = all_complete


def search(ctx, prev):
    return run(ctx)


def replay(ctx, payload):
    import random

    res = common.Result()
    res.rule = RULE
    case = payload["case"]
    if "process_level" in case:
        process_level(ctx, res, 3)
        return res
    if "native" in case:
        native_execmodel_probe(ctx, res)
        start_failure_correspondence(ctx, res, 60)
        return res
    scn = case["scenario"]
    col = Collector(res)
    if case.get("rng_seed") is not None:
        pre = case.get("preempt", 0)
        out = execute(ctx.execnet, scn, rng=random.Random(case["rng_seed"]), preempt=pre, preempt_prob=case.get("preempt_prob", 0.0),
                      event_yield=bool(case.get("event_yield")))
    else:
        out = execute(ctx.execnet, scn, choices=list(case["choices"]), current_first=bool(case.get("current_first")))
    col.add(scn, out, case)
    print("replayed schedule: %d scheduling choices, log: %s" % (len(out.trace), " ".join(":".join(map(str, e)) for e in out.log)))
    for p in out.problems:
        print("  oracle:", p)
    col.check_model(ctx, 10)
    return res
