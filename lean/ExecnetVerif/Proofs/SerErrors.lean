import ExecnetVerif.Proofs.SerBasic
namespace ExecnetVerif

theorem rdI32_err {bs : Bytes} {k : Int → Bytes → Res} {e : LoadErr} (h : rdI32 bs k = .err e) :
    e = .eof ∨ ∃ i r, k i r = .err e := by
  unfold rdI32 at h
  split at h
  · exact Or.inr ⟨_, _, h⟩
  · cases h; exact Or.inl rfl

theorem rdBytes_err {bs : Bytes} {k : Bytes → Bytes → Res} {e : LoadErr} (h : rdBytes bs k = .err e) :
    e = .eof ∨ e = .dataFormat ∨ ∃ b r, k b r = .err e := by
  unfold rdBytes at h
  rcases rdI32_err h with h1 | ⟨i, r, h2⟩
  · exact Or.inl h1
  · split at h2
    · cases h2; exact Or.inr (Or.inl rfl)
    · split at h2
      · exact Or.inr (Or.inr ⟨_, _, h2⟩)
      · cases h2; exact Or.inl rfl

theorem buildColl_err_ne_memory {c n rest st e} (h : buildColl c n rest st = .err e) : e ≠ .memory := by
  unfold buildColl at h
  cases c <;> simp only at h
  · cases h
  · by_cases hh : hashableAll (if n = 0 then ([], st) else popN n st).1 = true
    · simp [hh] at h
    · simp [hh] at h; simp [← h]
  · by_cases hh : hashableAll (if n = 0 then ([], st) else popN n st).1 = true
    · simp [hh] at h
    · simp [hh] at h; simp [← h]

theorem setItem_err_ne_memory {rest st e} (h : setItem rest st = .err e) : e ≠ .memory := by
  unfold setItem at h
  split at h
  · split at h
    · split at h <;> cases h; simp
    · split at h <;> cases h; simp
    · cases h; simp
  · cases h; simp

/-- MemoryError can only come from NEWLIST under a finite memory limit -/
theorem step_memory {cfg : Cfg} {op rest st} (h : step cfg op rest st = .err .memory) :
    cfg.memLimit ≠ none := by
  unfold step at h
  split at h
  all_goals first
    | (cases h; done)
    | (exact absurd rfl (setItem_err_ne_memory h))
    | (rcases rdI32_err h with h1 | ⟨i, r, h2⟩
       · cases h1
       · first
         | (cases h2; done)
         | (exact absurd rfl (buildColl_err_ne_memory h2))
         | (split at h2
            · intro hm; simp [memExceeded, hm] at *
            · cases h2)
         | (split at h2 <;> cases h2))
    | (rcases rdBytes_err h with h1 | h1 | ⟨b, r, h2⟩
       · cases h1
       · cases h1
       · first
         | (cases h2; done)
         | (split at h2 <;> cases h2; done)
         | (split at h2
            · cases h2
            · split at h2 <;> cases h2))
    | (split at h
       · first
         | (cases h; done)
         | (split at h <;> cases h)
       · cases h)

theorem finish_cases (st : List PyVal) : (∃ v, finish st = .ok v) ∨ finish st = .error .dataFormat := by
  unfold finish
  split
  · exact Or.inl ⟨_, rfl⟩
  · exact Or.inr rfl

theorem run_memory (cfg : Cfg) : ∀ (n : Nat) (input : Bytes) (st : List PyVal), input.length ≤ n →
    run cfg input st = .error .memory → cfg.memLimit ≠ none := by
  intro n
  induction n with
  | zero =>
    intro input st hl h
    have : input = [] := by cases input <;> simp_all
    subst this; rw [run_nil] at h; cases h
  | succ n ih =>
    intro input st hl h
    cases input with
    | nil => rw [run_nil] at h; cases h
    | cons op rest =>
      cases hs : step cfg op rest st with
      | cont r' st' =>
        rw [run_cont hs] at h
        have := step_len hs
        exact ih r' st' (by simp at hl; omega) h
      | stop st' =>
        rw [run_stop hs] at h
        rcases finish_cases st' with ⟨v, hv⟩ | hv <;> rw [hv] at h <;> cases h
      | err e =>
        rw [run_err hs] at h
        cases h
        exact step_memory hs

end ExecnetVerif
