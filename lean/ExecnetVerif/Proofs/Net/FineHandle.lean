/-
The put-back `pb` commutes with the receiver's frame handler `handle` (for a record that is not registered
and a frame that does not re-create its id).
-/
import ExecnetVerif.Proofs.Net.FineSide
namespace ExecnetVerif.Net.Fine
open ExecnetVerif.Net
set_option linter.unusedSimpArgs false

/-- the frame does not re-create (`createAt`) the channel id -/
def frameAvoids (id : Nat) : Frame → Prop
  | .data _ v => id ∉ v.chans
  | .exec k => k ≠ id
  | _ => True

/-! the DATA handler in pieces -/

def withDelivered (x : SideSt) (k : Nat) (v : Item) : SideSt :=
  { x with delivered := upd x.delivered k (x.delivered k ++ [v]) }

def cbMark (x : SideSt) (k : Nat) (v : Item) : SideSt :=
  { x with cbLog := upd x.cbLog k (x.cbLog k ++ [.item v]),
           got := upd x.got k (x.got k ++ [v]),
           kept := upd x.kept k (x.kept k ++ [v]) }

def withCloseErr (x : SideSt) (k : Nat) (v : Item) : SideSt :=
  { x with out := x.out ++ [.closeErr k v.val], closeSent := upd x.closeSent k true }

def dataCb' (fails : Item → Bool) (x : SideSt) (k : Nat) (v : Item) : SideSt :=
  if fails v then
    if x.ioOpen then localClose (withCloseErr x k v) k (some v.val) false
    else epilogue x false
  else x

def dataCb (fails : Item → Bool) (x : SideSt) (k : Nat) (v : Item) : SideSt :=
  dataCb' fails (cbMark (registerAll x v.chans) k v) k v

def enqueue (x : SideSt) (k : Nat) (v : Item) : SideSt :=
  let x := registerAll x v.chans
  let c := x.chans k
  { x with chans := upd x.chans k { c with queue := (c.queue.map (· ++ [.item v])) },
           kept := upd x.kept k (x.kept k ++ [v]) }

def dataQ (x : SideSt) (k : Nat) (v : Item) : SideSt :=
  let c := x.chans k
  match c.registered, c.queue with
  | true, some _ => enqueue x k v
  | _, _ => { x with dropped := upd x.dropped k true }

theorem handle_data_eq (fails : Item → Bool) (x : SideSt) (w : Bool) (k : Nat) (v : Item) :
    handle fails x w (.data k v) =
      match x.cbs k with
      | some _ => dataCb fails (withDelivered x k v) k v
      | none => dataQ (withDelivered x k v) k v := by
  simp only [handle, dataCb, dataCb', dataQ, enqueue, withDelivered, cbMark, withCloseErr]
  cases x.cbs k <;> rfl

theorem dataCb'_pb (fails : Item → Bool) (x : SideSt) (id k : Nat) (v : Item) :
    dataCb' fails (pb x id) k v = pb (dataCb' fails x k v) id := by
  unfold dataCb'
  show (if fails v = true then
      if (pb x id).ioOpen = true then localClose (pb (withCloseErr x k v) id) k (some v.val) false
      else epilogue (pb x id) false
    else pb x id) = _
  rw [localClose_pb, epilogue_pb, pb_ioOpen]
  split
  · split <;> rfl
  · rfl

theorem dataCb_pb (fails : Item → Bool) (x : SideSt) (id k : Nat) (v : Item) (hv : id ∉ v.chans) :
    dataCb fails (pb x id) k v = pb (dataCb fails x k v) id := by
  unfold dataCb
  rw [registerAll_pb x id v.chans hv]
  exact dataCb'_pb fails (cbMark (registerAll x v.chans) k v) id k v

theorem dataQ_pb (x : SideSt) (id k : Nat) (v : Item) (hreg : (x.chans id).registered = false)
    (hv : id ∉ v.chans) : dataQ (pb x id) k v = pb (dataQ x k v) id := by
  by_cases h : k = id
  · subst h
    have h1 : dataQ (pb x k) k v = { pb x k with dropped := upd x.dropped k true } := by
      unfold dataQ; simp only [pb_chans_same, pbChan_registered, hreg]; rfl
    have h2 : dataQ x k v = { x with dropped := upd x.dropped k true } := by
      unfold dataQ; simp only [hreg]
    rw [h1, h2]; rfl
  · have hc : (pb x id).chans k = x.chans k := pb_chans_ne x h
    unfold dataQ
    simp only [hc]
    split
    · unfold enqueue
      simp only [registerAll_pb x id v.chans hv, pb_chans_ne _ h, pb_kept]
      apply SideSt.ext' <;> try rfl
      simp only [pb_chans, upd_ne _ _ (Ne.symm h)]
      rw [upd_comm _ _ _ (Ne.symm h)]
    · rfl

theorem handle_pb (fails : Item → Bool) (x : SideSt) (w : Bool) (id : Nat) (fr : Frame)
    (hreg : (x.chans id).registered = false) (hfr : frameAvoids id fr) :
    handle fails (pb x id) w fr = pb (handle fails x w fr) id := by
  cases fr with
  | data k v =>
    rw [handle_data_eq, handle_data_eq, pb_cbs]
    have hd : withDelivered (pb x id) k v = pb (withDelivered x k v) id := rfl
    rw [hd]
    cases x.cbs k with
    | some b => exact dataCb_pb fails _ id k v hfr
    | none => exact dataQ_pb _ id k v hreg hfr
  | close k => exact localClose_pb { x with closeSeen := upd x.closeSeen k true } id k none false
  | closeErr k e => exact localClose_pb { x with closeSeen := upd x.closeSeen k true } id k (some e) false
  | lastMsg k => exact localClose_pb { x with closeSeen := upd x.closeSeen k true } id k none true
  | exec k =>
    cases w with
    | false => rfl
    | true =>
      have hk : k ≠ id := hfr
      show (let y := createAt (pb x id) k; ({ y with chans := upd y.chans k { y.chans k with executing := true } } : SideSt)) = _
      simp only [createAt_pb x hk]
      apply SideSt.ext' <;> try rfl
      simp only [handle, if_true, pb_chans, upd_ne _ _ hk, upd_ne _ _ (Ne.symm hk)]
      rw [upd_comm _ _ _ (Ne.symm hk)]
  | terminate => exact epilogue_pb x id false

end ExecnetVerif.Net.Fine
