import ExecnetVerif.Model.Chunk
import ExecnetVerif.Proofs.BytesLemmas
namespace ExecnetVerif

/-! ### header -/

theorem ofU8_toU8 (t : Int) (h : inI8 t) : ofU8 (toU8 t) = t := by
  unfold inI8 at h
  unfold ofU8 toU8
  simp only [UInt8.toNat_ofNat']
  split <;> omega

theorem packI32_length (i : Int) : (packI32 i).length = 4 := rfl

theorem packHeader_length (t cid : Int) (len : Nat) : (packHeader t cid len).length = 9 := by
  simp [packHeader, packI32_length]

theorem encodeMsg_length (m : Msg) : (encodeMsg m).length = frameLen m := by
  simp [encodeMsg, packHeader_length, frameLen]

theorem unpack_pack (t cid : Int) (len : Nat) (ht : inI8 t) (hc : inI32 cid) (hl : len < two31) :
    unpackHeader (packHeader t cid len) = some (t, cid, (len : Int)) := by
  have hl' : inI32 (len : Int) := by
    unfold inI32; rw [two31_eq] at hl; omega
  unfold unpackHeader packHeader packI32
  simp only
  rw [rd4_be4 _ _ (toU32_lt cid)]
  simp only
  have : be4 (toU32 (len : Int)) = be4 (toU32 (len : Int)) ++ [] := by simp
  rw [this, rd4_be4 _ _ (toU32_lt _)]
  simp only [ofU8_toU8 t ht, ofU32_toU32 cid hc, ofU32_toU32 _ hl']

theorem unpackHeader_of_length (h : Bytes) (hl : h.length = 9) : ∃ r, unpackHeader h = some r := by
  match h, hl with
  | [a, b0, b1, b2, b3, c0, c1, c2, c3], _ => exact ⟨_, rfl⟩

/-! ### the stream decoder -/

theorem decodeStream_nil : decodeStream [] = ([], .eof) := by
  rw [decodeStream]; simp

theorem decodeStream_short (bs : Bytes) (h0 : bs.length ≠ 0) (h9 : bs.length < 9) :
    decodeStream bs = ([], .midHeader) := by
  rw [decodeStream]; simp [h0, h9]

/-- one complete well-formed frame at the front is decoded as itself, whatever follows -/
theorem decodeStream_encode_append (m : Msg) (rest : Bytes) (h : wfMsg m) :
    decodeStream (encodeMsg m ++ rest) = (m :: (decodeStream rest).1, (decodeStream rest).2) := by
  obtain ⟨ht, hc, hl⟩ := h
  have hlen : (packHeader m.typ m.cid m.data.length).length = 9 := packHeader_length _ _ _
  rw [decodeStream]
  have e1 : (encodeMsg m ++ rest).length = 9 + m.data.length + rest.length := by
    simp [encodeMsg, hlen]; omega
  have etake : (encodeMsg m ++ rest).take 9 = packHeader m.typ m.cid m.data.length := by
    unfold encodeMsg
    rw [List.append_assoc, List.take_append_of_le_length (by omega)]
    rw [List.take_of_length_le (by omega)]
  have edrop : (encodeMsg m ++ rest).drop 9 = m.data ++ rest := by
    unfold encodeMsg
    rw [List.append_assoc, List.drop_append_of_le_length (by omega)]
    rw [List.drop_of_length_le (by omega)]; simp
  rw [etake, edrop, unpack_pack _ _ _ ht hc hl]
  simp only [e1, Int.toNat_natCast]
  have hn0 : ¬ (9 + m.data.length + rest.length = 0) := by omega
  have hn9 : ¬ (9 + m.data.length + rest.length < 9) := by omega
  simp only [hn0, hn9, if_false, dite_false, List.length_append]
  have hnp : ¬ (m.data.length + rest.length < m.data.length) := by omega
  simp only [hnp, if_false, List.drop_left, List.take_left]

theorem decodeStream_encodeAll_append (ms : List Msg) (rest : Bytes) (h : wfMsgs ms) :
    decodeStream (encodeAll ms ++ rest) = (ms ++ (decodeStream rest).1, (decodeStream rest).2) := by
  induction ms with
  | nil => simp [encodeAll]
  | cons m t ih =>
    have hm : wfMsg m := h m (by simp)
    have ht : wfMsgs t := fun x hx => h x (by simp [hx])
    simp only [encodeAll, List.flatMap_cons, List.append_assoc] at ih ⊢
    rw [decodeStream_encode_append m _ hm, ih ht]
    simp

/-! ### the read-until-n loop over arbitrary chunkings -/

theorem readExact_ok : ∀ (chunks : List Bytes) (need : Nat) (acc : Bytes),
    (∀ c ∈ chunks, c ≠ []) → need ≤ chunks.flatten.length →
    ∃ chunks', readExact chunks need acc = .ok (acc ++ chunks.flatten.take need, chunks') ∧
      chunks'.flatten = chunks.flatten.drop need ∧ (∀ c ∈ chunks', c ≠ []) := by
  intro chunks
  induction chunks with
  | nil =>
    intro need acc _ hle
    have : need = 0 := by simpa using hle
    subst this
    exact ⟨[], by simp [readExact], by simp, by simp⟩
  | cons c cs ih =>
    intro need acc hne hle
    have hc : c ≠ [] := hne c (by simp)
    have hcs : ∀ x ∈ cs, x ≠ [] := fun x hx => hne x (by simp [hx])
    have hclen : c.length ≠ 0 := by
      intro h; exact hc (List.eq_nil_of_length_eq_zero h)
    by_cases h0 : need = 0
    · subst h0
      exact ⟨c :: cs, by simp [readExact], by simp, hne⟩
    · by_cases hcn : c.length ≤ need
      · simp only [List.flatten_cons, List.length_append] at hle
        obtain ⟨chunks', he, hf, hn⟩ := ih (need - c.length) (acc ++ c) hcs (by omega)
        refine ⟨chunks', ?_, ?_, hn⟩
        · simp only [readExact, h0, hclen, hcn, if_true, if_false, he, List.flatten_cons]
          rw [List.take_append (l₁ := c), List.take_of_length_le hcn]
          simp
        · rw [hf, List.flatten_cons, List.drop_append (l₁ := c),
            List.drop_of_length_le hcn]
          simp
      · have hlt : need < c.length := by omega
        refine ⟨c.drop need :: cs, ?_, ?_, ?_⟩
        · simp only [readExact, h0, hclen, hcn, if_false, List.flatten_cons]
          rw [List.take_append_of_le_length (by omega)]
        · simp only [List.flatten_cons]
          rw [List.drop_append_of_le_length (by omega)]
        · intro x hx
          simp only [List.mem_cons] at hx
          cases hx with
          | inl h =>
            subst h
            intro hnil
            have := congrArg List.length hnil
            simp at this; omega
          | inr h => exact hcs x h

theorem readExact_short : ∀ (chunks : List Bytes) (need : Nat) (acc : Bytes),
    (∀ c ∈ chunks, c ≠ []) → chunks.flatten.length < need →
    readExact chunks need acc = .error (acc.length + chunks.flatten.length) := by
  intro chunks
  induction chunks with
  | nil =>
    intro need acc _ hlt
    have : need ≠ 0 := by simp at hlt; omega
    simp [readExact, this]
  | cons c cs ih =>
    intro need acc hne hlt
    have hc : c ≠ [] := hne c (by simp)
    have hcs : ∀ x ∈ cs, x ≠ [] := fun x hx => hne x (by simp [hx])
    have hclen : c.length ≠ 0 := by
      intro h; exact hc (List.eq_nil_of_length_eq_zero h)
    simp only [List.flatten_cons, List.length_append] at hlt ⊢
    have h0 : need ≠ 0 := by omega
    have hcn : c.length ≤ need := by omega
    simp only [readExact, h0, hclen, hcn, if_true, if_false]
    rw [ih (need - c.length) (acc ++ c) hcs (by omega)]
    simp only [List.length_append]
    congr 1; omega

theorem totalLen_eq (chunks : List Bytes) : totalLen chunks = chunks.flatten.length := by
  simp [totalLen, List.length_flatten]

theorem decodeChunkedFuel_eq : ∀ (fuel : Nat) (chunks : List Bytes),
    (∀ c ∈ chunks, c ≠ []) → chunks.flatten.length < fuel →
    decodeChunkedFuel fuel chunks = decodeStream chunks.flatten := by
  intro fuel
  induction fuel with
  | zero => intro chunks _ h; omega
  | succ fuel ih =>
    intro chunks hne hfuel
    rw [decodeStream]
    by_cases h0 : chunks.flatten.length = 0
    · have := readExact_short chunks 9 [] hne (by omega)
      simp only [decodeChunkedFuel, this, h0, List.length_nil, if_true]
    · by_cases h9 : chunks.flatten.length < 9
      · have := readExact_short chunks 9 [] hne h9
        obtain ⟨k, hk⟩ : ∃ k, chunks.flatten.length = k + 1 := ⟨chunks.flatten.length - 1, by omega⟩
        have h9' : k + 1 < 9 := by omega
        simp only [decodeChunkedFuel, this, List.length_nil, hk, Nat.zero_add, h9', dite_true,
          Nat.succ_ne_zero, if_false]
      · obtain ⟨chunks1, he1, hf1, hn1⟩ := readExact_ok chunks 9 [] hne (by omega)
        obtain ⟨⟨t, cid, len⟩, hu⟩ := unpackHeader_of_length (chunks.flatten.take 9)
          (by rw [List.length_take]; omega)
        simp only [decodeChunkedFuel, he1, List.nil_append, hu, h0, h9, if_false, dite_false]
        by_cases hp : (chunks.flatten.drop 9).length < len.toNat
        · have := readExact_short chunks1 len.toNat [] hn1 (by rw [hf1]; exact hp)
          simp only [this, hp, if_true]
        · obtain ⟨chunks2, he2, hf2, hn2⟩ := readExact_ok chunks1 len.toNat [] hn1
            (by rw [hf1]; omega)
          have hlen2 : chunks2.flatten.length < fuel := by
            rw [hf2, hf1]; simp only [List.length_drop]; omega
          simp only [he2, List.nil_append, hp, if_false, ih chunks2 hn2 hlen2, hf2, hf1]

/-- however the stream is cut into non-empty chunks, the receiver decodes the same messages and
sees the same kind of end -/
theorem decodeStreamChunked_eq (chunks : List Bytes) (hne : ∀ c ∈ chunks, c ≠ []) :
    decodeStreamChunked chunks = decodeStream chunks.flatten := by
  unfold decodeStreamChunked
  exact decodeChunkedFuel_eq _ chunks hne (by rw [totalLen_eq]; omega)

/-! ### cutting the stream -/

/-- a complete header followed by fewer payload bytes than it announces: nothing is produced -/
theorem decodeStream_short_payload (t cid : Int) (len : Nat) (p : Bytes) (ht : inI8 t)
    (hc : inI32 cid) (hl : len < two31) (hp : p.length < len) :
    decodeStream (packHeader t cid len ++ p) = ([], .midPayload) := by
  have hlen : (packHeader t cid len).length = 9 := packHeader_length _ _ _
  rw [decodeStream]
  have e1 : (packHeader t cid len ++ p).length = 9 + p.length := by simp [hlen]
  have etake : (packHeader t cid len ++ p).take 9 = packHeader t cid len := by
    rw [List.take_append_of_le_length (by omega), List.take_of_length_le (by omega)]
  have edrop : (packHeader t cid len ++ p).drop 9 = p := by
    rw [List.drop_append_of_le_length (by omega), List.drop_of_length_le (by omega)]; simp
  rw [etake, edrop, unpack_pack _ _ _ ht hc hl]
  have hn0 : ¬ (9 + p.length = 0) := by omega
  have hn9 : ¬ (9 + p.length < 9) := by omega
  simp only [e1, hn0, hn9, if_false, dite_false, Int.toNat_natCast, hp, if_true]

theorem encodeAll_cons (m : Msg) (ms : List Msg) : encodeAll (m :: ms) = encodeMsg m ++ encodeAll ms := by
  simp [encodeAll]

theorem decodeStream_take_encodeAll : ∀ (ms : List Msg) (k : Nat), wfMsgs ms →
    decodeStream ((encodeAll ms).take k) = framesBefore ms k := by
  intro ms
  induction ms with
  | nil => intro k _; simp [encodeAll, framesBefore, decodeStream_nil]
  | cons m t ih =>
    intro k h
    have hm : wfMsg m := h m (by simp)
    have ht : wfMsgs t := fun x hx => h x (by simp [hx])
    have hL : (encodeMsg m).length = frameLen m := encodeMsg_length m
    have hF : frameLen m = 9 + m.data.length := rfl
    rw [encodeAll_cons, framesBefore]
    by_cases h0 : k = 0
    · subst h0; simp [decodeStream_nil]
    · by_cases h9 : k < 9
      · simp only [h0, h9, if_true, if_false]
        apply decodeStream_short
        · rw [List.length_take, List.length_append, hL]; omega
        · rw [List.length_take, List.length_append, hL]; omega
      · by_cases hk : k < frameLen m
        · simp only [h0, h9, hk, if_true, if_false]
          rw [List.take_append_of_le_length (by omega)]
          unfold encodeMsg
          rw [List.take_append, packHeader_length, List.take_of_length_le (by rw [packHeader_length]; omega)]
          obtain ⟨h1, h2, h3⟩ := hm
          apply decodeStream_short_payload _ _ _ _ h1 h2 h3
          rw [List.length_take]; omega
        · simp only [h0, h9, hk, if_false]
          rw [List.take_append, List.take_of_length_le (by omega), hL,
            decodeStream_encode_append m _ hm, ih (k - frameLen m) ht]

theorem framesBefore_fst_eq_take : ∀ (ms : List Msg) (k : Nat),
    (framesBefore ms k).1 = ms.take (completeWithin ms k) := by
  intro ms
  induction ms with
  | nil => intro k; simp [framesBefore, completeWithin]
  | cons m t ih =>
    intro k
    have hF : frameLen m = 9 + m.data.length := rfl
    simp only [framesBefore, completeWithin]
    by_cases h0 : k = 0
    · subst h0
      have : ¬ frameLen m = 0 := by omega
      simp [this]
    · by_cases h9 : k < 9
      · have : ¬ frameLen m ≤ k := by omega
        simp [h0, h9, this]
      · by_cases hk : k < frameLen m
        · have : ¬ frameLen m ≤ k := by omega
          simp [h0, h9, hk, this]
        · have : frameLen m ≤ k := by omega
          simp [h0, h9, hk, this, ih]

/-- the cut is clean (plain EOF at a header boundary) iff it falls on a frame boundary or beyond the
end; in every other case the ending says where inside a frame the stream broke -/
theorem framesBefore_all (ms : List Msg) (k : Nat) (hk : (encodeAll ms).length ≤ k) :
    framesBefore ms k = (ms, .eof) := by
  induction ms generalizing k with
  | nil => simp [framesBefore]
  | cons m t ih =>
    rw [encodeAll_cons, List.length_append, encodeMsg_length] at hk
    have hF : frameLen m = 9 + m.data.length := rfl
    have h0 : ¬ k = 0 := by omega
    have h9 : ¬ k < 9 := by omega
    have hl : ¬ k < frameLen m := by omega
    simp only [framesBefore, h0, h9, hl, if_false, ih (k - frameLen m) (by omega)]

end ExecnetVerif
