/-
C04 (byte level) — connection loss at any byte: a receiver whose stream is cut after `k` bytes decodes
exactly the frames lying completely before the cut, nothing partial, then EOFError.
Property theorems only (helper lemmas live in Proofs/FrameLemmas).  The protocol-level half of C04
(what channels and waiters observe after the cut) lives with the L3 `Net` model.
-/
import ExecnetVerif.Proofs.FrameLemmas
namespace ExecnetVerif

/-- **C04 (byte level).** For every sequence of messages the peer managed to write and every byte
offset `k` at which the connection breaks (inside a header, inside a payload, between frames, or
after the end), the survivor's `from_io` loop returns exactly the frames that lie completely before
the cut — `msgs.take (completeWithin msgs k)`, unmodified and in order — and then raises EOFError
(`Ending` says whether at a frame boundary, inside a header or inside a payload; never anything
else).  No partial or corrupt message is ever produced.  `framesBefore` is the specification of the
cut on the frame list; it does not decode bytes. -/
theorem C04_cut_frames (msgs : List Msg) (k : Nat) (h : wfMsgs msgs) :
    decodeStream ((msgs.flatMap encodeMsg).take k) = framesBefore msgs k ∧
    (framesBefore msgs k).1 = msgs.take (completeWithin msgs k) ∧
    ((msgs.flatMap encodeMsg).length ≤ k → framesBefore msgs k = (msgs, .eof)) :=
  ⟨decodeStream_take_encodeAll msgs k h, framesBefore_fst_eq_take msgs k, framesBefore_all msgs k⟩

/-- **C04 (byte level, any arrival pattern).** The same holds however the surviving prefix arrives
through the read-until-n loops (any chunking by the pipe or socket). -/
theorem C04_cut_frames_chunked (msgs : List Msg) (k : Nat) (h : wfMsgs msgs) (chunks : List Bytes)
    (hflat : chunks.flatten = (msgs.flatMap encodeMsg).take k) (hne : ∀ c ∈ chunks, c ≠ []) :
    decodeStreamChunked chunks = (msgs.take (completeWithin msgs k), (framesBefore msgs k).2) := by
  rw [decodeStreamChunked_eq chunks hne, hflat, (C04_cut_frames msgs k h).1,
    ← (C04_cut_frames msgs k h).2.1]

/-- the ending of a cut stream is one of the three EOF shapes (never a `struct.error`) -/
theorem C04_cut_ending (msgs : List Msg) (k : Nat) : (framesBefore msgs k).2 ≠ .badHeader := by
  induction msgs generalizing k with
  | nil => simp [framesBefore]
  | cons m t ih =>
    simp only [framesBefore]
    split
    · simp
    · split
      · simp
      · split
        · simp
        · exact ih _

/-! ### non-vacuity: a cut inside the second payload, inside the third header, on a boundary -/

def cutExample : List Msg := [⟨4, 1, [1, 2, 3]⟩, ⟨4, -1, [9, 9, 9, 9]⟩, ⟨5, 1, []⟩]

example : wfMsgs cutExample := by decide
example : framesBefore cutExample 23 = ([⟨4, 1, [1, 2, 3]⟩], .midPayload) := by decide
example : framesBefore cutExample 30 = ([⟨4, 1, [1, 2, 3]⟩, ⟨4, -1, [9, 9, 9, 9]⟩], .midHeader) := by decide
example : framesBefore cutExample 25 = ([⟨4, 1, [1, 2, 3]⟩, ⟨4, -1, [9, 9, 9, 9]⟩], .eof) := by decide
example : completeWithin cutExample 23 = 1 := by decide

end ExecnetVerif
