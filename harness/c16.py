"""C16 — every transport is observationally equivalent for channel programs (DESIGN.md §4 C16).

Two families:
* the real proxy code (`ProxyIO`, `serve_proxy_io`, `ChannelFileRead/Write`, two real gateways as the carrier) run
  in one process under the deterministic scheduler against a scripted sub-process IO, compared with the model
  (`proxy.upstream`, `proxy.down`, `proxy.control`) and with the identity oracle;
* generated channel programs on real gateways of every transport x remote execmodel: the canonical transcripts
  must be identical; control requests on a proxied gateway must act on the sub-process.
"""
from __future__ import annotations

import hashlib
import os
import threading
import time

from . import c08, common, pyval, sched as S

HEADER = c08.HEADER


# ---------------------------------------------------------------------------------------
# family 1: the proxy chain in one process
# ---------------------------------------------------------------------------------------
def run_chain_case(ctx, res, case):
    """case: up (frames the sub writes), cut (bytes of its frame stream that get out, None = all), down (frames the
    master writes), rngseed (schedule, chunkings), cap (max low-level read), split (wire splits writes)"""
    execnet = ctx.execnet
    gb = execnet.gateway_base
    from execnet import gateway_io

    Message = gb.Message
    up = c08.mat_msgs(case["up"])
    down = c08.mat_msgs(case["down"])
    stream = c08.encode_frames(up)
    cut = len(stream) if case.get("cut") is None else min(case["cut"], len(stream))
    sub_out = b"1" + stream[:cut]
    dies = case.get("cut") is not None  # the sub dies after `cut` bytes of its frames; otherwise it runs until its stdin ends
    if dies:
        down = []
    rng = common.rng_for(case["rngseed"], "chain")
    sch = S.Scheduler(rng=common.rng_for(case["rngseed"], "sched"), max_steps=600000)
    em = S.make_execmodel(gb, sch)
    cap = case.get("cap")
    split = bool(case.get("split"))
    a2f = S.Pipe(sch, rng, cap, split)
    f2a = S.Pipe(sch, rng, cap, split)
    sub_stdin = S.Pipe(sch, rng, cap, split)
    sub_stdout = S.Pipe(sch, rng, cap, False)
    ctl_log = []
    fwd_writes = []
    stdout_reader = c08.LoggedReader(sub_stdout.reader)

    class FakeSubIO(gb.Popen2IO):
        remoteaddress = "sub.example:22"

        def write(self, data):
            fwd_writes.append(bytes(data))
            gb.Popen2IO.write(self, data)

        def wait(self):
            ctl_log.append("wait")
            return 7

        def kill(self):
            ctl_log.append("kill")

        def close_write(self):
            ctl_log.append("close_write")
            gb.Popen2IO.close_write(self)

    st = {"items": [], "errors": []}
    real_create_io = gateway_io.create_io

    def fake_create_io(spec, execmodel):
        st["spec"] = (spec.id, spec.popen)
        return FakeSubIO(sub_stdin.writer, stdout_reader, execmodel)

    def main():
        A = gb.BaseGateway(gb.Popen2IO(a2f.writer, f2a.reader, em), "master-side", _startcount=1)
        F = gb.BaseGateway(gb.Popen2IO(f2a.writer, a2f.reader, em), "forwarder-side", _startcount=2)
        chan_a = A.newchannel()
        chan_f = F._channelfactory.new(chan_a.id)
        st["keep"] = (A, F, chan_a, chan_f)
        A._initreceive()
        F._initreceive()

        def forwarder():
            try:
                gateway_io.serve_proxy_io(chan_f)
            except BaseException as e:  # noqa: BLE001
                st["errors"].append(("forwarder", repr(e)))
                raise
            finally:
                chan_f.close()  # remote_exec's finalisation closes the channel

        stdin_done = em.Event()

        def sub_writer():
            pos = 0
            while pos < len(sub_out):
                k = rng.randint(1, max(1, min(len(sub_out) - pos, cap or 4096)))
                sub_stdout.writer.write(sub_out[pos:pos + k])
                pos += k
            if not dies:
                stdin_done.wait()  # a healthy worker closes its stdout when it exits, i.e. after EOF on its stdin
            sub_stdout.writer.close()

        def sub_reader():
            io = gb.Popen2IO(c08.CountingWriter(), sub_stdin.reader, em)
            st["down_got"] = c08.read_all(execnet, io)
            stdin_done.set()

        sch.spawn(forwarder, name="forwarder")
        sch.spawn(sub_writer, name="sub-writer")
        sch.spawn(sub_reader, name="sub-reader")
        real_receive = chan_a.receive

        def receive(timeout=None):
            x = real_receive(timeout)
            st["items"].append(x)
            return x

        chan_a.receive = receive
        chan_a.send({"id": "sub", "popen": True})
        pio = gateway_io.ProxyIO(chan_a, em)
        st["boot"] = pio.read(1)
        st["wait"] = pio.wait()
        st["addr"] = pio.remoteaddress
        if not dies:
            for t, c, d in down:
                Message(t, c, d).to_io(pio)
            st["close_write"] = pio.close_write()
        st["up_got"] = c08.read_all(execnet, pio)
        st["kill"] = pio.kill()
        if dies:
            st["close_write"] = pio.close_write()
        try:
            A._send(Message.GATEWAY_TERMINATE)
        except OSError as e:
            st["errors"].append(("terminate", repr(e)))

    res.count(("chain", case["up"], case.get("cut"), case["down"], case["rngseed"], cap, split),
              nontrivial=bool(up or down))
    res.stat("chain_cut" if cut < len(stream) else "chain_full")
    gateway_io.create_io = fake_create_io
    try:
        sch.run(main, wall_timeout=60.0)
    except S.Deadlock as e:
        res.violations.append(dict(case=case, what="proxy chain hung: " + str(e)[:400]))
        return
    finally:
        gateway_io.create_io = real_create_io
        # the scheduler is gone: keep Channel.__del__ of left-over channels from using its primitives
        for g in st.get("keep", ())[:2]:
            for ch in list(g._channelfactory._channels.values()):
                ch.gateway = None
        for obj in st.get("keep", ())[2:]:
            obj.gateway = None
    crashed = [(t.name, repr(t.exc)) for t in sch.threads if t.exc is not None]
    if crashed or st["errors"]:
        res.violations.append(dict(case=case, what="proxy chain: threads crashed %r, errors %r" % (crashed[:3], st["errors"][:3])))
        return
    # ---- oracle (model-free): identity on frames in both directions, control requests reach the sub
    exp_up, _where = c08.frames_before(up, cut)
    up_got, up_end, up_exc = st["up_got"]
    down_got, down_end, down_exc = st["down_got"]
    problems = []
    if st["boot"] != b"1":
        problems.append("boot byte read by the master is %r" % (st["boot"],))
    if up_got != exp_up:
        problems.append("master decoded %d frames from the sub, expected the %d complete ones: %s" % (len(up_got), len(exp_up), c08.render_msgs(up_got)[:200]))
    if not isinstance(up_exc, EOFError):
        problems.append("master's reader ended with %r instead of EOFError" % (up_exc,))
    if down_got != down or not isinstance(down_exc, EOFError):
        problems.append("sub decoded %d frames (%s), expected the %d the master wrote" % (len(down_got), down_end, len(down)))
    exp_ctl = ["wait", "kill", "close_write"] if dies else ["wait", "close_write", "kill"]
    if ctl_log != exp_ctl:
        problems.append("control requests %r performed %r on the sub IO" % (exp_ctl, ctl_log))
    if st["wait"] != 7 or st["kill"] is not None or st["close_write"] is not None or st["addr"] != "sub.example:22":
        problems.append("control replies: wait=%r kill=%r close_write=%r remoteaddress=%r" % (st["wait"], st["kill"], st["close_write"], st["addr"]))
    if any(type(i) is not bytes for i in st["items"]):
        problems.append("a non-bytes item reached the master's proxy file")
    if problems:
        res.violations.append(dict(case=case, what="proxy chain: " + "; ".join(problems)))
        return
    res.traces += 1
    # ---- model
    sizes = [k for k in stdout_reader.log if k]
    line_up = "proxy.upstream %s %s" % (c08.hexs(sub_out), ",".join(map(str, sizes)) if sizes else "0")
    exp_line_up = "ok boot=%s items=%s | %s" % (c08.hexs(st["boot"]), ",".join(c08.hexs(i) for i in st["items"]) or ".",
                                               c08.render_decoded(up_got, up_end)[3:])
    exp_line_down = "ok items=%s | %s" % (",".join(c08.hexs(i) for i in fwd_writes) or ".", c08.render_decoded(down_got, down_end)[3:])
    lines = [line_up, "proxy.down " + c08.render_msgs(down), "proxy.control 2", "proxy.control 1", "proxy.control 4", "proxy.control 3"]
    exps = [exp_line_up, exp_line_down, "ok wait result", "ok kill none", "ok close_write none", "ok remoteaddress result"]
    for line, exp, out in zip(lines, exps, ctx.driver.ask(lines)):
        if out != exp:
            res.mismatches.append(dict(op=line.split(" ", 1)[0], case=case, line=line[:300], impl=exp[:300], model=out[:300]))


# ---------------------------------------------------------------------------------------
# family 2: channel programs on real gateways
# ---------------------------------------------------------------------------------------
REMOTE = r'''
import hashlib
def blob(seed, n):
    d = hashlib.sha1(str(seed).encode()).digest()
    return (d * (n // 20 + 1))[:n]
def make(kind, seed, n):
    if kind == "bytes": return blob(seed, n)
    if kind == "str": return blob(seed, n).decode("latin-1")
    if kind == "ascii": return blob(seed, n).hex()[:n]
    if kind == "ints": return list(range(seed, seed + n))
    if kind == "mixed": return {"k": (seed, [None, True, 1.5, 2+3j]), n: frozenset([seed, "x"]), b"b": set([n]), "t": (blob(seed, 9), -seed * 10**20)}
    raise ValueError(kind)
def digest(x):
    if isinstance(x, bytes): return ("bytes", len(x), hashlib.sha1(x).hexdigest())
    if isinstance(x, str): return ("str", len(x), hashlib.sha1(x.encode("utf-8")).hexdigest())
    return (type(x).__name__, len(x) if hasattr(x, "__len__") else -1, hashlib.sha1(repr(x).encode()).hexdigest() if not isinstance(x, (set, frozenset, dict)) else "-")
op = channel.receive()
kind = op[0]
if kind == "echo":
    n = 0
    while 1:
        x = channel.receive()
        if x == ("__end__",):
            break
        n += 1
        channel.send(x)
    channel.send(("echoed", n))
elif kind == "up":
    for k, seed, n in op[1]:
        channel.send(make(k, seed, n))
elif kind == "down":
    for i in range(op[1]):
        channel.send(digest(channel.receive()))
elif kind == "sub_local":
    c = channel.receive()
    got = []
    for i in range(op[1]):
        got.append(c.receive())
    for x in got:
        c.send((x, x))
    c.close()
    channel.send(("sub_local", len(got)))
elif kind == "sub_remote":
    c = channel.gateway.newchannel()
    channel.send(c)
    got = [x for x in c]
    channel.send(("sub_remote", got))
elif kind == "callback":
    for i in range(op[1]):
        channel.send((i, "cb" * i))
elif kind == "raise":
    for i in range(op[1]):
        channel.send(i)
    raise ValueError(op[2])
elif kind == "local_close":
    rep = channel.receive()
    try:
        x = channel.receive()
        out = ("item", x)
    except EOFError:
        out = ("EOFError",)
    except channel.RemoteError as e:
        out = ("RemoteError", str(e).strip().splitlines()[-1])
    rep.send(out)
elif kind == "status":
    import os
    channel.send(("pid", os.getpid() > 0))
'''

TMO = 20.0


def blob(seed, n):
    d = hashlib.sha1(str(seed).encode()).digest()
    return (d * (n // 20 + 1))[:n]


def make(kind, seed, n):
    if kind == "bytes":
        return blob(seed, n)
    if kind == "str":
        return blob(seed, n).decode("latin-1")
    if kind == "ascii":
        return blob(seed, n).hex()[:n]
    if kind == "ints":
        return list(range(seed, seed + n))
    if kind == "mixed":
        return {"k": (seed, [None, True, 1.5, 2 + 3j]), n: frozenset([seed, "x"]), b"b": {n}, "t": (blob(seed, 9), -seed * 10**20)}
    raise ValueError(kind)


def canon_item(x):
    """canonical, transport-independent text of a received value"""
    if type(x) is bytes and len(x) > 200:
        return "bytes:%d:%s" % (len(x), hashlib.sha1(x).hexdigest())
    if type(x) is str and len(x) > 200:
        return "str:%d:%s" % (len(x), hashlib.sha1(x.encode("utf-8", "surrogatepass")).hexdigest())
    if type(x) is list and len(x) > 200:
        return "list:%d:%s" % (len(x), hashlib.sha1(repr(x).encode()).hexdigest())
    return repr(pyval.canon(x))


def _recv(ch, out, tag=""):
    """receive one item into the transcript; returns False when the channel ended"""
    try:
        x = ch.receive(TMO)
    except EOFError:
        out.append(tag + "EOFError")
        return False
    except ch.RemoteError as e:
        out.append(tag + "RemoteError:" + str(e).strip().splitlines()[-1])
        return False
    except ch.TimeoutError:
        out.append(tag + "TIMEOUT")
        return False
    out.append(tag + canon_item(x))
    return True


def _waitclose(ch, out):
    try:
        ch.waitclose(TMO)
        out.append("waitclose:ok")
    except EOFError:
        out.append("waitclose:EOFError")
    except ch.RemoteError as e:
        out.append("waitclose:RemoteError:" + str(e).strip().splitlines()[-1])
    except ch.TimeoutError:
        out.append("waitclose:TIMEOUT")


def run_op(gw, op, values):
    """run one op of a program on gateway gw; returns its transcript (list of str)"""
    out = []
    kind = op[0]
    ch = gw.remote_exec(REMOTE)
    if kind == "echo":
        ch.send(("echo",))
        for v in values:
            try:
                ch.send(v)
            except Exception as e:  # noqa: BLE001 - raised locally, before the wire (C01)
                out.append("send:" + type(e).__name__)
                continue
            _recv(ch, out)
        ch.send(("__end__",))
        _recv(ch, out)
    elif kind == "up":
        ch.send(("up", op[1]))
        for _ in op[1]:
            _recv(ch, out)
    elif kind == "down":
        ch.send(("down", len(op[1])))
        for k, seed, n in op[1]:
            ch.send(make(k, seed, n))
            _recv(ch, out)
    elif kind == "sub_local":
        ch.send(("sub_local", op[1]))
        c = gw.newchannel()
        ch.send(c)
        for i in range(op[1]):
            c.send(("item", i, b"x" * (i * 1000)))
        while _recv(c, out, "sub:"):
            pass
        _recv(ch, out)
    elif kind == "sub_remote":
        ch.send(("sub_remote",))
        c = ch.receive(TMO)
        out.append("got-channel:%s" % isinstance(c, type(ch)))
        for i in range(op[1]):
            c.send(i * i)
        c.close()
        _recv(ch, out)
    elif kind == "callback":
        seen = []
        done = threading.Event()
        end = "END" if op[2] else None

        def cb(x):
            seen.append(x)
            if x == "END":
                done.set()

        ch.send(("callback", op[1]))
        if op[2]:
            ch.setcallback(cb, endmarker="END")
            if not done.wait(TMO):
                out.append("callback:TIMEOUT")
        else:
            ch.setcallback(cb)
            _waitclose(ch, out)
            t0 = time.time()
            while len(seen) < op[1] and time.time() - t0 < TMO:
                time.sleep(0.005)
        out.extend("cb:" + canon_item(x) for x in seen)
        try:
            ch.receive(0.1)
            out.append("receive-with-callback:returned")
        except OSError as e:
            out.append("receive-with-callback:" + type(e).__name__)
        _ = end
    elif kind == "raise":
        ch.send(("raise", op[1], op[2]))
        for _ in range(op[1]):
            _recv(ch, out)
        _recv(ch, out)
        _recv(ch, out)
    elif kind == "local_close":
        ch.send(("local_close",))
        rep = gw.newchannel()
        ch.send(rep)
        if op[1] is None:
            ch.close()
        else:
            ch.close(op[1])
        out.append("isclosed:%s" % ch.isclosed())
        _recv(rep, out, "report:")
        try:
            ch.send(1)
            out.append("send-after-close:ok")
        except OSError:
            out.append("send-after-close:OSError")
    elif kind == "status":
        ch.send(("status",))
        _recv(ch, out)
        out.append("execmodel:" + str(gw.remote_status().execmodel))
    if kind != "callback":
        _waitclose(ch, out)
    out.append("isclosed:%s" % ch.isclosed())
    return out


def gen_program(rng, big):
    """a list of (op, values) pairs"""
    prog = []
    kinds = ["echo", "up", "down", "sub_local", "sub_remote", "callback", "raise", "local_close", "status"]
    rng.shuffle(kinds)
    for kind in kinds[: rng.randint(3, 6)] + (["echo"] if rng.random() < 0.5 else []):
        if kind == "echo":
            vals = []
            for _ in range(rng.randint(1, 5)):
                g = pyval.Gen(rng, max_depth=4, max_size=rng.choice([4, 15, 40]))
                vals.append(g.value())
            vals += [b"", "", (), {}, None, True, 2**31, -(2**63) - 1, 1e308, b"\x00\xff", "é\U0001f600"][: rng.randint(0, 11)]
            prog.append((("echo",), vals))
        elif kind in ("up", "down"):
            items = []
            for _ in range(rng.randint(1, 4)):
                k = rng.choice(["bytes", "str", "ascii", "ints", "mixed"])
                n = rng.choice([0, 1, 9, 100, 5000, 70000])
                if k == "ints":
                    n = min(n, 5000)
                items.append((k, rng.randrange(1000), n))
            if big:
                items.append((rng.choice(["bytes", "ascii", "str"]), rng.randrange(1000), rng.choice([300000, 1 << 20, 2 << 20])))
            prog.append(((kind, items), None))
        elif kind == "sub_local":
            prog.append((("sub_local", rng.randint(0, 4)), None))
        elif kind == "sub_remote":
            prog.append((("sub_remote", rng.randint(0, 5)), None))
        elif kind == "callback":
            prog.append((("callback", rng.randint(0, 6), rng.random() < 0.7), None))
        elif kind == "raise":
            prog.append((("raise", rng.randint(0, 3), "boom-%d" % rng.randrange(100)), None))
        elif kind == "local_close":
            prog.append((("local_close", rng.choice([None, None, "closed by test %d" % rng.randrange(9)])), None))
        else:
            prog.append((("status",), None))
    return prog


def transports_for(model):
    return [
        ("popen", "popen//id=direct-%s//execmodel=%s" % (model, model)),
        ("popen-python", "popen//id=python-%s//python=/venv/bin/python//execmodel=%s" % (model, model)),
        ("socket", "socket//id=socket-%s//installvia=sockhost-%s" % (model, model)),
        ("via", "popen//id=via-%s//via=master//execmodel=%s" % (model, model)),
    ]


def _kill_children(group_gateways):
    for gw in group_gateways:
        popen = getattr(getattr(gw, "_io", None), "popen", None)
        if popen is not None:
            try:
                popen.kill()
            except OSError:
                pass


def safe_terminate(res, group, created, case):
    """`group.terminate(timeout)` bounded from outside: a wedged via master makes Gateway.exit() block for ever
    (ProxyIO.close_write waits for a reply without a time-out); then the child processes are killed directly."""
    st, val = _with_timeout(lambda: group.terminate(timeout=3.0), 40.0)
    if st != "ok":
        _kill_children(created)
        res.violations.append(dict(case=case, what="group.terminate(timeout=3) %s %r; child processes killed by the harness" % (st, val)))


class TrackingGroup:
    """makegateway through the real Group, remembering every gateway for the final clean-up"""

    def __init__(self, execnet):
        self.group = execnet.Group()
        self.created = []

    def makegateway(self, spec):
        gw = self.group.makegateway(spec)
        self.created.append(gw)
        return gw

    def __getitem__(self, k):
        return self.group[k]


def run_programs(ctx, res, models, nprog, seed_tag):
    """bounded: the whole family runs in a helper thread; if it does not come back the children are killed"""
    tg = TrackingGroup(ctx.execnet)
    limit = ctx.budget(150, 1200, 400)
    try:
        st, val = _with_timeout(lambda: _run_programs(ctx, res, tg, models, nprog, seed_tag), limit)
        if st == "hung":
            res.violations.append(dict(case=dict(kind="programs", seed_tag=seed_tag), what="the channel programs did not finish within %d s (a call without time-out blocked)" % limit))
            _kill_children(tg.created)
        elif st == "exc":
            import traceback

            res.violations.append(dict(case=dict(kind="programs", seed_tag=seed_tag),
                                       what="unexpected %s while running the channel programs: %s" % (type(val).__name__, "".join(traceback.format_exception(val))[-700:])))
    finally:
        safe_terminate(res, tg.group, tg.created, dict(kind="programs", seed_tag=seed_tag))


def _run_programs(ctx, res, group, models, nprog, seed_tag):
    t0 = time.time()
    group.makegateway("popen//id=master")
    gws = {}
    for model in models:
        group.makegateway("popen//id=sockhost-%s//execmodel=%s" % (model, model))
        for name, spec in transports_for(model):
            gws[(model, name)] = group.makegateway(spec)
    res.stat("gateways", len(gws))
    # D11 (C14, repaired elsewhere): on a main_thread_only worker a failing body makes every later remote_exec
    # fail with the "deadlock" error.  Where that is still present the remote-error op is left out for that
    # execmodel (it would poison the shared gateways on every transport alike), and the evidence says so.
    skip_raise = set()
    if "main_thread_only" in models and d11_present(group):
        skip_raise.add("main_thread_only")
        res.stat("remote_error_ops_skipped_on_main_thread_only_because_of_D11")
    rng = ctx.rng(seed_tag)
    for p in range(nprog):
        full_prog = gen_program(rng, big=(p % 3 == 2))
        for model in models:
            prog = [(op, v) for op, v in full_prog if not (op[0] == "raise" and model in skip_raise)]
            descr = [op for op, _ in prog]
            if time.time() - t0 > ctx.budget(38, 700, 120):
                res.stat("programs_skipped_for_time")
                continue
            transcripts = {}
            for name, _spec in transports_for(model):
                gw = gws[(model, name)]
                tr = []
                for op, values in prog:
                    try:
                        tr.extend(["%s>" % op[0]] + run_op(gw, op, values))
                    except Exception as e:  # noqa: BLE001
                        tr.append("%s> EXCEPTION %s: %s" % (op[0], type(e).__name__, str(e)[:200]))
                transcripts[name] = tr
                res.stat("ops_run", len(prog))
            case = dict(kind="program", seed_tag=seed_tag, index=p, model=model, ops=[repr(d)[:120] for d in descr])
            res.count(("program", seed_tag, p, model, repr(descr)), nontrivial=True)
            for op, _ in prog:
                res.stat("op_" + op[0])
            res.stat("model_" + model)
            ref = transcripts["popen"]
            bad = [n for n, tr in transcripts.items() if tr != ref]
            hang = [n for n, tr in transcripts.items() if any("TIMEOUT" in x or "EXCEPTION" in x for x in tr)]
            if bad or hang:
                n = (bad or hang)[0]
                diff = next(((i, a, b) for i, (a, b) in enumerate(zip(ref, transcripts[n])) if a != b), (min(len(ref), len(transcripts[n])), "<end>", "<end>"))
                trouble = [x[:200] for x in transcripts[n] if "TIMEOUT" in x or "EXCEPTION" in x][:2]
                res.violations.append(dict(case=case, what="transcripts differ between transports (execmodel %s): popen vs %s at entry %d: %r vs %r; time-outs/exceptions on %r %r"
                                           % (model, n, diff[0], str(diff[1])[:150], str(diff[2])[:150], hang, trouble)))
            else:
                res.traces += 1
                res.sample(dict(model=model, ops=[d[0] for d in descr], transcript_len=len(ref)))
    # control requests on proxied gateways must act on the sub-process
    for model in models[:1]:
        death_checks(ctx, res, group, model)
        control_checks(ctx, res, group, model)
        if model == "thread":
            terminate_checks(ctx, res, model)


def d11_present(group):
    g = group.makegateway("popen//execmodel=main_thread_only")
    try:
        ch = g.remote_exec("raise ValueError('probe')")
        try:
            ch.waitclose(TMO)
        except ch.RemoteError:
            pass
        ch2 = g.remote_exec("channel.send(1)")
        try:
            return ch2.receive(TMO) != 1
        except ch2.RemoteError:
            return True
    finally:
        g.exit()


def _pid_alive(pid):
    try:
        with open("/proc/%d/stat" % pid) as f:
            return f.read().rsplit(")", 1)[1].split()[0] != "Z"
    except OSError:
        return False


def _with_timeout(fn, tmo=10.0):
    box = {}

    def body():
        try:
            box["value"] = fn()
        except BaseException as e:  # noqa: BLE001
            box["exc"] = e

    th = threading.Thread(target=body, daemon=True)
    th.start()
    th.join(tmo)
    if th.is_alive():
        return "hung", None
    if "exc" in box:
        return "exc", box["exc"]
    return "ok", box["value"]


def control_checks(ctx, res, group, model):
    """close_write+wait and kill+wait on a via gateway and on a direct popen gateway give the same results and
    really end the worker process"""
    outcomes = {}
    for name, mk in (("via", "popen//via=master//execmodel=%s" % model), ("popen", "popen//execmodel=%s" % model)):
        for action in ("close_write", "kill"):
            case = dict(kind="control", transport=name, action=action, model=model)
            res.count(("control", name, action, model))
            gw = group.makegateway(mk)
            pid = gw.remote_exec("import os; channel.send(os.getpid())").receive(TMO)
            master_pid = group["master"].remote_exec("import os; channel.send(os.getpid())").receive(TMO)
            if not _pid_alive(pid) or pid == master_pid:
                res.violations.append(dict(case=case, what="worker pid %r not a live separate process" % pid))
                continue
            st, val = _with_timeout(getattr(gw._io, action))
            if st != "ok" or val is not None:
                res.violations.append(dict(case=case, what="%s() on the %s gateway: %s %r (worker process %d alive=%r)" % (action, name, st, val, pid, _pid_alive(pid))))
                if st == "hung":
                    return  # the via master is wedged now; nothing more can be learnt from it
                continue
            st, rc = _with_timeout(gw._io.wait)
            t0 = time.time()
            while _pid_alive(pid) and time.time() - t0 < 5:
                time.sleep(0.02)
            alive = _pid_alive(pid)
            outcomes[(name, action)] = (st, rc, alive)
            if st != "ok" or alive:
                res.violations.append(dict(case=case, what="%s() then wait() on the %s gateway: wait %s rc=%r, worker process %d alive=%r"
                                           % (action, name, st, rc, pid, alive)))
                if st == "hung":
                    return
                continue
            if not _pid_alive(master_pid):
                res.violations.append(dict(case=case, what="the via master died with the sub"))
            res.traces += 1
    for action in ("close_write", "kill"):
        a, b = outcomes.get(("via", action)), outcomes.get(("popen", action))
        if a is not None and b is not None and a != b:
            res.violations.append(dict(case=dict(kind="control", action=action, model=model),
                                       what="%s+wait: via gateway gives %r, direct popen gives %r" % (action, a, b)))
    try:
        ok = group["master"].remote_exec("channel.send(42)").receive(TMO)
    except Exception as e:  # noqa: BLE001
        ok = repr(e)
    if ok != 42:
        res.violations.append(dict(case=dict(kind="control", model=model), what="via master unusable after control requests: %r" % (ok,)))


def terminate_checks(ctx, res, model):
    """`Group.terminate(timeout)` with a busy worker: the kill request reaches the process on a via gateway exactly as on a
    direct popen gateway (same outcome: terminate returns in about the time-out, the worker process is gone)"""
    execnet = ctx.execnet
    obs = {}
    for name in ("popen", "via"):
        case = dict(kind="terminate", transport=name, model=model)
        res.count(("terminate", name, model))
        group = execnet.Group()
        try:
            if name == "via":
                group.makegateway("popen//id=tmaster")
                gw = group.makegateway("popen//via=tmaster//execmodel=%s" % model)
            else:
                gw = group.makegateway("popen//execmodel=%s" % model)
            ch = gw.remote_exec("import os, time\nchannel.send(os.getpid())\ntime.sleep(600)\n")
            pid = ch.receive(TMO)
            t0 = time.time()
            st, _ = _with_timeout(lambda: group.terminate(timeout=1.0), tmo=20.0)
            elapsed = time.time() - t0
            t1 = time.time()
            while _pid_alive(pid) and time.time() - t1 < 1.0:
                time.sleep(0.02)
            obs[name] = (st, elapsed < 3.5, not _pid_alive(pid))
            if obs[name] != ("ok", True, True):
                res.violations.append(dict(case=case, what="terminate(timeout=1) with a busy worker on the %s gateway: %s after %.2f s, worker process %d %s"
                                           % (name, st, elapsed, pid, "still alive" if _pid_alive(pid) else "gone")))
            else:
                res.traces += 1
        except Exception as e:  # noqa: BLE001
            res.violations.append(dict(case=case, what="terminate check failed: %r" % (e,)))
        finally:
            try:
                _kill_children([g for g in group])
            except Exception:  # noqa: BLE001
                pass
    if len(obs) == 2 and obs["popen"] != obs["via"]:
        res.violations.append(dict(case=dict(kind="terminate", model=model), what="terminate of a busy worker: via %r, popen %r" % (obs["via"], obs["popen"])))


def death_checks(ctx, res, group, model):
    """the worker process is killed while a channel waits: the same observations on every transport
    (receive and waitclose raise EOFError, the gateway stops receiving, sends fail with OSError)"""
    import signal

    group.makegateway("popen//id=deathhost//execmodel=%s" % model)
    specs = [("popen", "popen//execmodel=%s" % model), ("popen-python", "popen//python=/venv/bin/python//execmodel=%s" % model),
             ("socket", "socket//installvia=deathhost"), ("via", "popen//via=master//execmodel=%s" % model)]
    transcripts = {}
    for name, spec in specs:
        res.count(("death", name, model))
        gw = group.makegateway(spec)
        ch = gw.remote_exec("import os\nchannel.send(os.getpid())\nchannel.send('second')\nchannel.receive()")
        tr = []
        pid = ch.receive(TMO)
        _recv(ch, tr)  # 'second' — received before the kill, so that the kill cannot race with it
        os.kill(pid, signal.SIGKILL)
        _recv(ch, tr)
        _waitclose(ch, tr)
        t0 = time.time()
        while gw.hasreceiver() and time.time() - t0 < 5:
            time.sleep(0.02)
        tr.append("hasreceiver:%s" % gw.hasreceiver())
        for what, fn in (("send", lambda: ch.send(1)), ("remote_exec", lambda: gw.remote_exec("pass")), ("newchannel", gw.newchannel)):
            try:
                fn()
                tr.append(what + ":ok")
            except OSError:
                tr.append(what + ":OSError")
            except Exception as e:  # noqa: BLE001
                tr.append(what + ":" + type(e).__name__)
        transcripts[name] = tr
    ref = transcripts["popen"]
    for name, tr in transcripts.items():
        if tr != ref or any("TIMEOUT" in x for x in tr):
            res.violations.append(dict(case=dict(kind="death", transport=name, model=model),
                                       what="worker killed: observations on %s %r differ from popen %r" % (name, tr, ref)))
            break
    else:
        res.traces += 1
        res.extra["death_transcript"] = ref


# ---------------------------------------------------------------------------------------
CORPUS_CHAIN = [
    dict(kind="chain", up=[(4, 1, "4c51"), (5, 1, "")], cut=None, down=[(3, 1, "aa"), (2, 0, "")], rngseed=1601, cap=None, split=False),
    dict(kind="chain", up=[(4, 1, "4c51"), (4, 3, "00" * 30)], cut=20, down=[], rngseed=1602, cap=3, split=True),
    dict(kind="chain", up=[], cut=None, down=[(4, -1, "")], rngseed=1603, cap=1, split=True),
]


def available_models():
    models = ["thread", "main_thread_only"]
    try:
        import gevent  # noqa: F401

        models.append("gevent")
    except ImportError:
        pass
    return models


def run_case(ctx, res, case):
    try:
        if case["kind"] == "chain":
            run_chain_case(ctx, res, case)
        else:
            raise common.ToolFailure("case kind %r is replayed by re-running with the recorded VERIF_SEED" % case["kind"])
    except common.ToolFailure:
        raise
    except Exception as e:  # noqa: BLE001
        import traceback

        res.violations.append(dict(case=case, what="unexpected %s while running the case: %s" % (type(e).__name__, traceback.format_exc()[-600:])))


def run(ctx):
    res = common.Result()
    res.rule = ("(1) real ProxyIO + serve_proxy_io + ChannelFileRead/Write over two real gateways in one process under the deterministic "
                "scheduler, scripted sub-process IO: generated frame sequences both ways x cut offsets x chunkings x schedules; "
                "(2) generated channel programs (echo of generated values of every type, bursts up/down to 2 MB, sub-channels both ways, "
                "callbacks with/without endmarker, remote errors, local closes, status) on popen, popen//python=, socket//installvia=, "
                "popen//via= x remote execmodels; distinct = distinct (program, execmodel) / chain case; all are non-trivial")
    execnet = ctx.execnet
    codes = sorted(execnet.gateway_base.Message._types)
    for c in CORPUS_CHAIN:
        run_case(ctx, res, c)
    rng = ctx.rng("chain")
    for i in range(ctx.budget(200, 8000, 600)):
        nu, nd = rng.randint(0, 5), rng.randint(0, 4)
        up = [c08.gen_msg(rng, codes, rng.choice([0, 8, 60, 700])) for _ in range(nu)]
        down = [c08.gen_msg(rng, codes, rng.choice([0, 8, 60, 700])) for _ in range(nd)]
        if i % 25 == 24:
            up.append((4, 1, ["rnd", rng.randrange(1 << 30), rng.choice([70000, 300000])]))
        total = sum(HEADER + len(c08.mat(d)) for _, _, d in up)
        cut = None if rng.random() < 0.4 or not total else rng.randint(0, total)
        cap = rng.choice([None, 1, 4, 9, 64]) if total < 3000 else rng.choice([None, 4096])
        run_case(ctx, res, dict(kind="chain", up=up, cut=cut, down=down, rngseed=rng.randrange(1 << 30), cap=cap, split=rng.random() < 0.5))
    models = available_models()
    res.extra["remote_execmodels"] = models
    if ctx.thorough:
        run_programs(ctx, res, models, 250, "programs")
    else:
        run_programs(ctx, res, models, ctx.budget(14, 40, 20), "programs")
    res.assumptions.append("the kernel's pipe and TCP implementations deliver a FIFO byte stream; the carrying channel delivers items whole and in order (C02)")
    res.assumptions.append("the endpoint behaviour given the frame sequence (L3 Net) is the subject of C02/C03/C07/C10; here the transcripts of the real endpoints are compared with each other")
    return res


def search(ctx, prev):
    return run(ctx)


def replay(ctx, payload):
    res = common.Result()
    case = payload["case"]
    for k in ("up", "down"):
        if k in case:
            case[k] = [tuple(m) for m in case[k]]
    run_case(ctx, res, case)
    return res
