/-
L7 (rsync): executable model of `execnet.rsync.RSync` (sender) and `execnet.rsync_remote.serve_rsync`
(receiver) **as they are after the fix commits D13, D14, D20**, plus the pinned (pre-D14) link
classification with the caller's cwd as an explicit parameter.

Protocol (one channel per target):
1. sender broadcasts the *structure* in pre-order: file → `(st_mode, st_mtime, st_size)`, directory →
   `[st_mode, name…]` followed by the entries in that order, symlink → `None` (and an entry in
   `_links`), vanished entry → `(None, 0, 0)`;
2. each receiver walks the same recursion over its own tree (`receive_directory_structure`) with the
   decision table skip / chmod / checksum-request / request, removes entries of another kind, and with
   `delete` removes names that were not listed; then `list_done`;
3. per requested file: sender answers the file's bytes or `None` when the receiver's md5 matches;
   receiver writes, `chmod`s, `utime`s and acks;
4. `links`: every link is removed and re-created (`linkbase`: re-based on the destination dir);
5. `done`.

Abstractions (each is exercised by the correspondence harness, none is hidden in a theorem):
* file content is a `Blob` (size + identity); md5 is modelled as the blob itself, i.e. md5 equality is
  content equality (collision-freeness is a stated assumption);
* modes are the permission bits (`S_IMODE`), `mtime` is the `st_mtime` float as a 64-bit pattern;
  `utime(t)` makes `st_mtime == t` (measured: always for whole seconds and for `st_mtime ≥ 1e9`; a
  nanosecond-precise mtime before 1974 arrives up to 2 ns early — known finding, kept out of the generators);
* `Tree.absent` in a *source* listing is an entry that vanished between `listdir` and `lstat`
  (the sender's `(None, 0, 0)`); `wfTree` excludes it from the theorems, the harness exercises it by
  injecting names into the sender's `os.listdir`;
* a directory is a finite map written as an association list (first binding wins, result order is a
  model artefact: listed entries in message order, then the unlisted prior entries); the driver prints
  entries sorted;
* relative paths travel as component lists (the `"/".join` / `os.path.join` of single components is
  not modelled), link targets and the two root directories as `Path.RawPath`.
-/
import ExecnetVerif.Model.Path
namespace ExecnetVerif.Rsync
open ExecnetVerif.Path

abbrev Name := String

/-- file content: its length and its identity (two blobs are the same bytes iff equal) -/
structure Blob where
  size : Nat
  id : Nat
  deriving DecidableEq, Repr, Inhabited

/-- what `lstat` + `readlink` + `read` see at one path -/
inductive Tree where
  | file (b : Blob) (mode : Nat) (mtime : Nat)
  | dir (mode : Nat) (entries : List (Name × Tree))
  | link (target : RawPath)
  | absent
  deriving Inhabited

abbrev Entries := List (Name × Tree)

def names (es : Entries) : List Name := es.map Prod.fst

/-- `lstat(join(dir, n))` -/
def lookup (n : Name) : Entries → Tree
  | [] => .absent
  | (m, t) :: r => if m = n then t else lookup n r

/-- `os.listdir` of what is at a path (nothing unless it is a directory) -/
def entriesOf : Tree → Entries
  | .dir _ es => es
  | _ => []

/-- what is at a relative path below `t` -/
def getPath : List Name → Tree → Tree
  | [], t => t
  | n :: p, .dir _ es => getPath p (lookup n es)
  | _ :: _, _ => .absent

/-! ### sender: structure broadcast -/

inductive Msg where
  /-- `(st_mode, st_mtime, st_size)`; `mode = none` is the `(None, 0, 0)` of a vanished entry -/
  | file (mode : Option Nat) (mtime size : Nat)
  /-- `[st_mode, name, …]` -/
  | dir (mode : Nat) (names : List Name)
  /-- `None` -/
  | link
  deriving DecidableEq, Repr

mutual
/-- `_send_directory_structure` -/
def structMsgs : Tree → List Msg
  | .file b m t => [.file (some m) t b.size]
  | .dir m es => .dir m (es.map Prod.fst) :: structMsgsL es
  | .link _ => [.link]
  | .absent => [.file none 0 0]
def structMsgsL : List (Name × Tree) → List Msg
  | [] => []
  | (_, t) :: r => structMsgs t ++ structMsgsL r
end

/-- one element of `RSync._links`: `base = true` is `"linkbase"` (payload = path relative to the source
dir), `base = false` is `"link"` (payload = the target verbatim) -/
structure LinkMsg where
  path : List Name
  base : Bool
  payload : List String
  deriving DecidableEq, Repr

/-- `_send_link_structure` after D14: only an absolute target can lie inside the source tree -/
def classify (sourcedir : RawPath) (t : RawPath) : Bool × List String :=
  if isAbs t then
    let rel := relComps (normAbs t) (normAbs sourcedir)
    if isInside rel then (true, rel) else (false, t)
  else (false, t)

/-- `_send_link_structure` of the pinned tree: `os.path.relpath(linkpoint, sourcedir)` resolves a
relative `linkpoint` against the caller's working directory -/
def classifyOld (cwd sourcedir : RawPath) (t : RawPath) : Bool × List String :=
  let rel := relComps (absComps cwd t) (absComps cwd sourcedir)
  if isInside rel then (true, rel) else (false, t)

mutual
/-- the `_links` list built during the broadcast (`basename = path[len(sourcedir)+1:]`) -/
def linkMsgs (cl : RawPath → Bool × List String) : List Name → Tree → List LinkMsg
  | p, .link t => [⟨p, (cl t).1, (cl t).2⟩]
  | p, .dir _ es => linkMsgsL cl p es
  | _, .file _ _ _ => []
  | _, .absent => []
def linkMsgsL (cl : RawPath → Bool × List String) : List Name → List (Name × Tree) → List LinkMsg
  | _, [] => []
  | p, (n, t) :: r => linkMsgs cl (p ++ [n]) t ++ linkMsgsL cl p r
end

/-! ### receiver: structure phase -/

/-- one `("send", (relcomponents, checksum))` request together with the `(mode, time, size)` the
receiver remembers in `modifiedfiles` -/
structure Req where
  path : List Name
  mode : Option Nat
  mtime : Nat
  size : Nat
  checksum : Option Blob
  deriving DecidableEq, Repr

/-- decision table of `receive_directory_structure` for a file message: the entry as it is left by
the structure phase and whether/how the file is requested (`none`: not requested;
`some ck`: requested with checksum `ck`) -/
def decideFile (mode : Option Nat) (mtime size : Nat) : Tree → Tree × Option (Option Blob)
  | .file b m' t' =>
    if size ≠ b.size then (.file b m' t', some none)
    else if mtime ≠ t' then (.file b m' t', some (some b))
    else match mode with
      | some md => if md ≠ m' then (.file b md t', none) else (.file b m' t', none)
      | none => (.file b m' t', none)
  | .absent => (.absent, some none)
  | .dir _ _ => (.absent, some none)    -- remove(path)
  | .link _ => (.absent, some none)     -- remove(path)

mutual
/-- `receive_directory_structure(path, relcomponents)`: `t` is what is at `path`, the result is what
is there afterwards, the requests issued and the unread rest of the stream. `fuel` is a termination
artefact (the real recursion is bounded by the well-formed stream). -/
def recv (delete : Bool) : Nat → List Name → Tree → List Msg → Tree × List Req × List Msg
  | 0, _, t, ms => (t, [], ms)
  | _ + 1, _, t, [] => (t, [], [])
  | fuel + 1, rel, t, .dir mode ns :: ms =>
    -- a non-directory is unlinked, a missing one created: empty directory
    let tes := entriesOf t
    let r := recvEntries delete fuel rel tes ns ms
    let others := if delete then [] else tes.filter (fun e => decide (e.1 ∉ ns))
    (.dir (mode ||| 0o700) (r.1 ++ others), r.2.1, r.2.2)
  | _ + 1, rel, t, .file mode mtime size :: ms =>
    let d := decideFile mode mtime size t
    match d.2 with
    | none => (d.1, [], ms)
    | some ck => (d.1, [⟨rel, mode, mtime, size, ck⟩], ms)
  | _ + 1, _, t, .link :: ms => (t, [], ms)
/-- the `for entryname in msg` loop (`tes` = the directory's listing) -/
def recvEntries (delete : Bool) : Nat → List Name → Entries → List Name → List Msg →
    Entries × List Req × List Msg
  | _, _, _, [], ms => ([], [], ms)
  | 0, _, _, _ :: _, ms => ([], [], ms)
  | fuel + 1, rel, tes, n :: ns, ms =>
    let a := recv delete fuel (rel ++ [n]) (lookup n tes) ms
    let b := recvEntries delete fuel rel tes ns a.2.2
    ((n, a.1) :: b.1, a.2.1 ++ b.2.1, b.2.2)
end

mutual
/-- fuel that suffices for the stream of a tree -/
def fuelOf : Tree → Nat
  | .dir _ es => 1 + fuelOfL es
  | _ => 1
def fuelOfL : List (Name × Tree) → Nat
  | [] => 0
  | (_, t) :: r => 1 + fuelOf t + fuelOfL r
end

/-! ### content phase -/

/-- `_send_item`: the data answered to a request — `none` when the file cannot be read or the
receiver's checksum matches (md5 modelled as the content itself) -/
def senderData (src : Tree) (r : Req) : Option Blob :=
  match getPath r.path src with
  | .file b _ _ => if r.checksum = some b then none else some b
  | _ => none

/-- receiver side of one request: write the data if any, then `chmod(mode)` (if given) and
`utime(time)`; OSError of the latter two is swallowed (nothing at the path) -/
def writeFile (r : Req) (data : Option Blob) (t : Tree) : Tree :=
  let t1 := match data with
    | some b => (match t with
      | .file _ m tm => Tree.file b m tm
      | _ => Tree.file b 0o644 0)   -- provisional umask mode / current time, overwritten below
    | none => t
  match t1 with
  | .file b m _ => .file b (r.mode.getD m) r.mtime
  | other => other

/-- rewrite the entry `n` of a directory listing (creating it if missing) -/
def updEntry (n : Name) (g : Tree → Tree) : Entries → Entries
  | [] => [(n, g .absent)]
  | (m, t) :: r => if m = n then (m, g t) :: r else (m, t) :: updEntry n g r

/-- apply a file-system operation at a relative path (a no-op if a parent is not a directory) -/
def updPath : List Name → (Tree → Tree) → Tree → Tree
  | [], f, t => f t
  | n :: p, f, .dir m es => .dir m (updEntry n (updPath p f) es)
  | _ :: _, _, t => t

/-- serve one request: the sender's answer applied by the receiver; content that was really sent
is reported (`_report_send_file`) -/
def serveReq (src : Tree) (st : Tree × List (List Name)) (r : Req) : Tree × List (List Name) :=
  let d := senderData src r
  (updPath r.path (writeFile r d) st.1, if d.isSome then st.2 ++ [r.path] else st.2)

/-! ### link phase -/

/-- receiver: `remove(path)` whatever is there, then `os.symlink(src, path)` -/
def applyLink (destdir : RawPath) (t : Tree) (l : LinkMsg) : Tree :=
  updPath l.path (fun _ => .link (if l.base then pjoin destdir l.payload else l.payload)) t

/-! ### one target, all targets -/

/-- the sending side: `RSync(sourcedir)` and the working directory of the calling process -/
structure Sender where
  sourcedir : RawPath
  cwd : RawPath

/-- `add_target(gw, destdir, delete=…)` and what is at `destdir` before -/
structure Target where
  destdir : RawPath
  delete : Bool
  tree : Tree

structure Result where
  tree : Tree
  sent : List (List Name)

/-- per-channel state after the structure phase: `pending = some reqs` until the channel's `links`
message has been served -/
structure TState where
  destdir : RawPath
  tree : Tree
  sent : List (List Name)
  pending : Option (List Req)

/-- structure phase of one target -/
def initT (src : Tree) (tg : Target) : TState :=
  let r := recv tg.delete (fuelOf src) [] tg.tree (structMsgs src)
  ⟨tg.destdir, r.1, [], some r.2.1⟩

/-- the sender's main loop serves the next message of this channel: a `send` request, or (after the
last one) `links`/`done` -/
def stepT (links : List LinkMsg) (src : Tree) (st : TState) : TState :=
  match st.pending with
  | none => st
  | some [] => { st with tree := links.foldl (applyLink st.destdir) st.tree, pending := none }
  | some (r :: rs) =>
    let x := serveReq src (st.tree, st.sent) r
    { st with tree := x.1, sent := x.2, pending := some rs }

/-- run the channel to its `done` -/
def finishT (links : List LinkMsg) (src : Tree) (st : TState) : Result :=
  match st.pending with
  | none => ⟨st.tree, st.sent⟩
  | some reqs =>
    let x := reqs.foldl (serveReq src) (st.tree, st.sent)
    ⟨links.foldl (applyLink st.destdir) x.1, x.2⟩

/-- `RSync.send()` for one target, with the link classifier as a parameter -/
def syncWith (cl : RawPath → Bool × List String) (src : Tree) (tg : Target) : Result :=
  finishT (linkMsgs cl [] src) src (initT src tg)

/-- `RSync(sourcedir).add_target(gw, destdir, delete=…); send()` (fixed tree) -/
def sync (sd : Sender) (src : Tree) (tg : Target) : Result :=
  syncWith (classify sd.sourcedir) src tg

/-- the same on the pinned tree (pre-D14 link classification) -/
def syncOld (sd : Sender) (src : Tree) (tg : Target) : Result :=
  syncWith (classifyOld sd.cwd sd.sourcedir) src tg

def modifyAt (f : TState → TState) : Nat → List TState → List TState
  | _, [] => []
  | 0, s :: r => f s :: r
  | i + 1, s :: r => s :: modifyAt f i r

/-- several targets: the structure is broadcast to all of them, then the main loop serves the
channels' messages in whatever order they arrive (`sched`: the channel index of each served
message), and goes on until every channel is done -/
def syncAll (sd : Sender) (src : Tree) (tgs : List Target) (sched : List Nat) : List Result :=
  let links := linkMsgs (classify sd.sourcedir) [] src
  let sts := sched.foldl (fun sts i => modifyAt (stepT links src) i sts) (tgs.map (initT src))
  sts.map (finishT links src)

/-! ### what the property demands -/

/-- where a link must point at the target: the same string, except that an absolute target lying
strictly inside the source tree points at the corresponding place below the destination -/
def expectLink (sourcedir destdir : RawPath) (t : RawPath) : RawPath :=
  if isAbs t then
    match stripPrefix? (normAbs sourcedir) (normAbs t) with
    | some (c :: cs) => pjoin destdir (c :: cs)
    | _ => t
  else t

mutual
/-- the target tree the property demands: every source file with its content, permission bits and
mtime; every directory with the source's entries (owner-rwx forced on, the receiver's documented
`| 0o700` for directories) followed — without `delete` — by the prior entries the source does not
list, untouched; every link with `expectLink` -/
def expect (sourcedir destdir : RawPath) (delete : Bool) : Tree → Tree → Tree
  | .file b m t, _ => .file b m t
  | .link tg, _ => .link (expectLink sourcedir destdir tg)
  | .dir m es, tgt =>
    .dir (m ||| 0o700) (expectL sourcedir destdir delete es (entriesOf tgt) ++
      (if delete then [] else (entriesOf tgt).filter (fun e => decide (e.1 ∉ es.map Prod.fst))))
  | .absent, tgt => tgt
def expectL (sourcedir destdir : RawPath) (delete : Bool) : List (Name × Tree) → Entries → Entries
  | [], _ => []
  | (n, s) :: r, tes => (n, expect sourcedir destdir delete s (lookup n tes)) ::
      expectL sourcedir destdir delete r tes
end

mutual
/-- the files whose content has to travel: no prior file of the same size with the same mtime or the
same content -/
def expectSent : Tree → Tree → List (List Name)
  | .file b _ t, .file b' _ t' => if b.size = b'.size ∧ (t = t' ∨ b = b') then [] else [[]]
  | .file _ _ _, _ => [[]]
  | .dir _ es, tgt => expectSentL es (entriesOf tgt)
  | _, _ => []
def expectSentL : List (Name × Tree) → Entries → List (List Name)
  | [], _ => []
  | (n, s) :: r, tes => (expectSent s (lookup n tes)).map (n :: ·) ++ expectSentL r tes
end

mutual
/-- names are unique per directory and every listed entry exists (is a file, directory or link) -/
def wfTree : Tree → Prop
  | .dir _ es => (es.map Prod.fst).Nodup ∧ wfTreeL es
  | .absent => False
  | _ => True
def wfTreeL : List (Name × Tree) → Prop
  | [] => True
  | (_, t) :: r => wfTree t ∧ wfTreeL r
end

mutual
/-- rsync's quick check is sound for this pair: a prior target file with the size and the mtime of
the source file at the same path has the same content (known finding D19 is its failure) -/
def quickCheckSound : Tree → Tree → Prop
  | .file b _ t, .file b' _ t' => b.size = b'.size → t = t' → b = b'
  | .dir _ es, tgt => quickCheckSoundL es (entriesOf tgt)
  | _, _ => True
def quickCheckSoundL : List (Name × Tree) → Entries → Prop
  | [], _ => True
  | (n, s) :: r, tes => quickCheckSound s (lookup n tes) ∧ quickCheckSoundL r tes
end

end ExecnetVerif.Rsync
