/-
Basics for the refinement proof of the two-step `receive` (Model/NetFine.lean): the put-back on one side
(`pb`), field lemmas, `SideSt` extensionality, commutation of put-backs, the queue of the abstraction.
-/
import ExecnetVerif.Model.NetFine
import ExecnetVerif.Proofs.Net.Defs
namespace ExecnetVerif.Net.Fine
open ExecnetVerif.Net

/-! ### sides, `upd` -/

theorem side_set (st : State) (s p : Side) (x : SideSt) :
    (st.set s x).side p = if p = s then x else st.side p := by
  cases s <;> cases p <;> rfl

@[simp] theorem side_set_self (st : State) (s : Side) (x : SideSt) : (st.set s x).side s = x := by
  cases s <;> rfl

theorem side_set_ne (st : State) {s p : Side} (x : SideSt) (h : p ≠ s) : (st.set s x).side p = st.side p := by
  cases s <;> cases p <;> first | rfl | exact absurd rfl h

@[simp] theorem side_set_peer (st : State) (s : Side) (x : SideSt) :
    (st.set s x).side s.peer = st.side s.peer := by cases s <;> rfl

@[simp] theorem side_peer_set (st : State) (s : Side) (x : SideSt) :
    (st.set s.peer x).side s = st.side s := by cases s <;> rfl

@[simp] theorem set_set_same (st : State) (s : Side) (x y : SideSt) : (st.set s x).set s y = st.set s y := by
  cases s <;> rfl

theorem set_set_comm (st : State) {s p : Side} (x y : SideSt) (h : s ≠ p) :
    (st.set s x).set p y = (st.set p y).set s x := by
  cases s <;> cases p <;> first | rfl | exact absurd rfl h

@[simp] theorem set_side_self (st : State) (s : Side) : st.set s (st.side s) = st := by
  cases s <;> rfl

theorem peer_ne (s : Side) : s.peer ≠ s := by cases s <;> decide
theorem ne_peer (s : Side) : s ≠ s.peer := by cases s <;> decide
theorem eq_peer_of_ne {s p : Side} (h : p ≠ s) : p = s.peer := by
  cases s <;> cases p <;> first | rfl | exact absurd rfl h

theorem upd_apply {α : Type} (f : Nat → α) (k : Nat) (v : α) (i : Nat) :
    upd f k v i = if i = k then v else f i := rfl

@[simp] theorem upd_same {α : Type} (f : Nat → α) (k : Nat) (v : α) : upd f k v k = v := by
  simp [upd]

theorem upd_ne {α : Type} (f : Nat → α) {k i : Nat} (v : α) (h : i ≠ k) : upd f k v i = f i := by
  simp [upd, h]

theorem upd_comm {α : Type} (f : Nat → α) {j k : Nat} (v w : α) (h : j ≠ k) :
    upd (upd f j v) k w = upd (upd f k w) j v := by
  funext i; simp only [upd]; split <;> split <;> simp_all

@[simp] theorem upd_upd {α : Type} (f : Nat → α) (k : Nat) (v w : α) : upd (upd f k v) k w = upd f k w := by
  funext i; simp only [upd]; split <;> rfl

@[simp] theorem upd_eq_self {α : Type} (f : Nat → α) (k : Nat) : upd f k (f k) = f := by
  funext i; simp only [upd]; split <;> simp_all

theorem SideSt.ext' {x y : SideSt} (h1 : x.chans = y.chans) (h2 : x.cbs = y.cbs) (h3 : x.count = y.count)
    (h4 : x.finished = y.finished) (h5 : x.gwerr = y.gwerr) (h6 : x.ioOpen = y.ioOpen) (h7 : x.out = y.out)
    (h8 : x.sent = y.sent) (h9 : x.got = y.got) (h10 : x.kept = y.kept) (h11 : x.delivered = y.delivered)
    (h12 : x.cbLog = y.cbLog) (h13 : x.dropped = y.dropped) (h14 : x.broken = y.broken)
    (h15 : x.cbWants = y.cbWants) (h16 : x.ended = y.ended) (h17 : x.closeSeen = y.closeSeen)
    (h18 : x.closeSent = y.closeSent) : x = y := by
  cases x; cases y; simp_all

/-! ### put-back on one channel record / one side -/

def pbChan (c : Chan) : Chan := { c with queue := pushEnd c.queue }

def pb (x : SideSt) (id : Nat) : SideSt := { x with chans := upd x.chans id (pbChan (x.chans id)) }

theorem putBack_eq (st : State) (s : Side) (id : Nat) : putBack st (s, id) = st.set s (pb (st.side s) id) := rfl

@[simp] theorem pbChan_created (c : Chan) : (pbChan c).created = c.created := rfl
@[simp] theorem pbChan_registered (c : Chan) : (pbChan c).registered = c.registered := rfl
@[simp] theorem pbChan_alive (c : Chan) : (pbChan c).alive = c.alive := rfl
@[simp] theorem pbChan_closed (c : Chan) : (pbChan c).closed = c.closed := rfl
@[simp] theorem pbChan_rclosed (c : Chan) : (pbChan c).rclosed = c.rclosed := rfl
@[simp] theorem pbChan_rerrs (c : Chan) : (pbChan c).rerrs = c.rerrs := rfl
@[simp] theorem pbChan_executing (c : Chan) : (pbChan c).executing = c.executing := rfl
@[simp] theorem pbChan_queue (c : Chan) : (pbChan c).queue = pushEnd c.queue := rfl

@[simp] theorem pb_cbs (x : SideSt) (id : Nat) : (pb x id).cbs = x.cbs := rfl
@[simp] theorem pb_count (x : SideSt) (id : Nat) : (pb x id).count = x.count := rfl
@[simp] theorem pb_finished (x : SideSt) (id : Nat) : (pb x id).finished = x.finished := rfl
@[simp] theorem pb_gwerr (x : SideSt) (id : Nat) : (pb x id).gwerr = x.gwerr := rfl
@[simp] theorem pb_ioOpen (x : SideSt) (id : Nat) : (pb x id).ioOpen = x.ioOpen := rfl
@[simp] theorem pb_out (x : SideSt) (id : Nat) : (pb x id).out = x.out := rfl
@[simp] theorem pb_sent (x : SideSt) (id : Nat) : (pb x id).sent = x.sent := rfl
@[simp] theorem pb_got (x : SideSt) (id : Nat) : (pb x id).got = x.got := rfl
@[simp] theorem pb_kept (x : SideSt) (id : Nat) : (pb x id).kept = x.kept := rfl
@[simp] theorem pb_delivered (x : SideSt) (id : Nat) : (pb x id).delivered = x.delivered := rfl
@[simp] theorem pb_cbLog (x : SideSt) (id : Nat) : (pb x id).cbLog = x.cbLog := rfl
@[simp] theorem pb_dropped (x : SideSt) (id : Nat) : (pb x id).dropped = x.dropped := rfl
@[simp] theorem pb_broken (x : SideSt) (id : Nat) : (pb x id).broken = x.broken := rfl
@[simp] theorem pb_cbWants (x : SideSt) (id : Nat) : (pb x id).cbWants = x.cbWants := rfl
@[simp] theorem pb_ended (x : SideSt) (id : Nat) : (pb x id).ended = x.ended := rfl
@[simp] theorem pb_closeSeen (x : SideSt) (id : Nat) : (pb x id).closeSeen = x.closeSeen := rfl
@[simp] theorem pb_closeSent (x : SideSt) (id : Nat) : (pb x id).closeSent = x.closeSent := rfl
theorem pb_chans (x : SideSt) (id : Nat) : (pb x id).chans = upd x.chans id (pbChan (x.chans id)) := rfl
@[simp] theorem pb_chans_same (x : SideSt) (id : Nat) : (pb x id).chans id = pbChan (x.chans id) := by
  simp [pb_chans]
theorem pb_chans_ne (x : SideSt) {id i : Nat} (h : i ≠ id) : (pb x id).chans i = x.chans i := by
  simp [pb_chans, upd_ne _ _ h]

/-- every field of a record except the queue survives a put-back anywhere -/
theorem pb_chans_apply (x : SideSt) (id i : Nat) :
    (pb x id).chans i = if i = id then pbChan (x.chans i) else x.chans i := by
  by_cases h : i = id
  · subst h; simp
  · simp [pb_chans_ne x h, h]

theorem pb_comm (x : SideSt) (i j : Nat) : pb (pb x i) j = pb (pb x j) i := by
  by_cases h : i = j
  · subst h; rfl
  · apply SideSt.ext' <;> try rfl
    simp only [pb_chans]
    rw [upd_ne _ _ (Ne.symm h), upd_ne _ _ h, upd_comm _ _ _ h]

theorem putBack_comm (st : State) (k k' : Side × Nat) : putBack (putBack st k) k' = putBack (putBack st k') k := by
  obtain ⟨s, i⟩ := k
  obtain ⟨p, j⟩ := k'
  simp only [putBack_eq]
  by_cases h : s = p
  · subst h; simp only [side_set_self, set_set_same]; rw [pb_comm]
  · rw [side_set_ne _ _ (Ne.symm h), side_set_ne _ _ h, set_set_comm _ _ _ h]

end ExecnetVerif.Net.Fine
