"""Deterministic thread scheduler plugged in through execnet's own ExecModel interface.

execnet takes every lock, event, queue and thread from `gateway.execmodel`; `SchedExecModel` hands out
scheduler-aware ones.  Logical threads are real threads passing a baton: exactly one runs at a time,
every synchronisation operation is a scheduling point, time is virtual.  A run is determined by the
list of choices (`Scheduler.trace`), so every schedule is replayable; "nobody can move and nobody has
a time-out" is reported as a deadlock.

No source hooks are needed (DESIGN.md §1.3).
"""
from __future__ import annotations

import collections
import sys
import threading
import traceback


class SchedAbort(BaseException):
    """raised inside logical threads when the run is being torn down"""


class Deadlock(Exception):
    pass


class LThread:
    def __init__(self, sched, name, fn, args):
        self.sched = sched
        self.name = name
        self.fn = fn
        self.args = args
        self.sem = threading.Semaphore(0)
        self.alive = True
        self.pred = None  # blocked iff pred is not None
        self.deadline = None
        self.timed_out = False
        self.what = ""
        self.real = None
        self.exc = None
        self.pending_exc = None  # asynchronous exception (Scheduler.interrupt), raised at the next scheduling point

    def __repr__(self):
        return f"<LThread {self.name} {'blocked:' + self.what if self.pred else 'runnable'}>"


class Scheduler:
    def __init__(self, rng=None, choices=None, timeouts="when_stuck", max_steps=200000, stickiness=0.0,
                 preempt_lines=0, preempt_prob=0.0, src_prefix=None, current_first=False):
        """rng: random.Random for scheduling choices (after `choices`, a replay prefix, is used up).
        timeouts: 'when_stuck' (a timed wait expires only when nothing else can run; the virtual clock then
        jumps to the earliest deadline) or 'adversarial' (a timed waiter may expire at any scheduling point).
        preempt_lines: budget of extra line-level pre-emptions inside files under `src_prefix`.
        current_first: list the running thread first among the candidates whenever it can continue, so that
        choice 0 means "no pre-emption" (`trace_p` records whether that was the case; used by the
        pre-emption-bounded DFS).  Off by default: candidate order = thread creation order."""
        self.rng = rng
        self.choices = list(choices or [])
        self.timeouts = timeouts
        self.max_steps = max_steps
        self.stickiness = stickiness
        self.threads: list[LThread] = []
        self.current: LThread | None = None
        self.trace: list[int] = []
        self.trace_n: list[int] = []  # number of alternatives at each recorded choice (for DFS exploration)
        self.trace_p: list[bool] = []  # was alternative 0 "the running thread continues"? (current_first only)
        self.current_first = current_first
        self._cur_can_continue = False
        self.now = 0.0
        self.steps = 0
        self.aborted = False
        self.deadlock = False
        self.livelock = False
        self.done = threading.Event()
        self.log: list = []  # logical events recorded by harness code via sched.event(...)
        self.names = collections.Counter()
        self.preempt_left = preempt_lines
        self.preempt_prob = preempt_prob
        self.src_prefix = src_prefix
        self.blocked_report = ""
        self.closed = False  # set when the run is over: every primitive becomes inert (late finalisers)
        self.line_events = 0
        self._idents: set[int] = set()  # real idents of this scheduler's live logical threads

    # -- introspection -------------------------------------------------------------------
    def in_logical_thread(self):
        # compare thread OBJECTS (idents are reused by later threads: a finaliser of a previous run's object,
        # executed by a thread of a later run, must not be mistaken for one of this scheduler's threads)
        cur = self.current
        return (not self.closed) and cur is not None and cur.real is not None and cur.real is threading.current_thread()

    def event(self, *what):
        self.log.append((self.current.name if self.current else "?",) + what)

    def interrupt(self, thread, exc):
        """Asynchronous exception for logical thread `thread` (e.g. the KeyboardInterrupt a SIGINT handler
        raises in the main thread): a blocked `thread` becomes runnable, and `exc` is raised in it at its next
        scheduling point (inside `block_until` / `yield_point`, like CPython raising between two bytecodes or
        out of an interruptible lock wait).  Additive: runs that never call this behave as before."""
        if thread.alive:
            thread.pending_exc = exc

    def _deliver_pending(self, cur):
        exc = cur.pending_exc
        if exc is not None and not self.aborted:
            cur.pending_exc = None
            raise exc

    # -- thread management ----------------------------------------------------------------
    def spawn(self, fn, args=(), name=None):
        base = name or getattr(fn, "__name__", "thread")
        self.names[base] += 1
        if self.names[base] > 1:
            base = f"{base}#{self.names[base]}"
        t = LThread(self, base, fn, args)

        def body():
            self._idents.add(threading.get_ident())
            t.sem.acquire()
            try:
                if self.aborted:
                    return
                if self.preempt_left > 0 and self.src_prefix:
                    sys.settrace(self._tracer)
                try:
                    t.fn(*t.args)
                except SchedAbort:
                    pass
                except BaseException as e:  # noqa: BLE001 - recorded for the oracle
                    t.exc = e
                    t.tb = traceback.format_exc()
            finally:
                sys.settrace(None)
                t.alive = False
                self._idents.discard(threading.get_ident())
                if not self.aborted:
                    try:
                        self._reschedule(t, finished=True)
                    except SchedAbort:
                        pass

        t.real = threading.Thread(target=body, name="L-" + base, daemon=True)
        t.real.start()
        self.threads.append(t)  # visible to the scheduler only once its real thread exists
        if self.in_logical_thread():
            self.yield_point("spawn")
        return t

    def _tracer(self, frame, event, arg):
        if not frame.f_code.co_filename.startswith(self.src_prefix):
            return None
        return self._line_tracer

    def _line_tracer(self, frame, event, arg):
        if event == "line":
            self.line_events += 1  # lets a harness calibrate preempt_prob to the length of a run
        if event == "line" and self.preempt_left > 0 and not self.aborted and self.rng is not None:
            if self.rng.random() < self.preempt_prob:
                self.preempt_left -= 1
                self.yield_point("line:%s:%d" % (frame.f_code.co_name, frame.f_lineno))
        return self._line_tracer

    def run(self, main_fn, args=(), wall_timeout=120.0):
        """Run main_fn as logical thread 'main' until every logical thread has finished.
        Raises Deadlock when no thread can move (after tearing the threads down)."""
        import gc

        # no cyclic GC while the baton is being passed: finalisers (Channel.__del__ sends frames, i.e. is a
        # scheduling point) must run at the deterministic points refcounting gives them, never inside the
        # scheduler's own code at an allocation-count dependent moment
        gc_was = gc.isenabled()
        gc.disable()
        self.spawn(main_fn, args, name="main")
        first = self._pick()
        self.current = first
        first.sem.release()
        try:
            if not self.done.wait(wall_timeout):
                self.blocked_report = self.describe() + "\n" + self.current_stack()
                self._abort_all()
                raise Deadlock("wall-clock time-out of the scheduler run (a thread blocked outside the scheduler?)\n" + self.blocked_report)
            if self.deadlock:
                raise Deadlock(("livelock (step budget exhausted)\n" if self.livelock else "deadlock: no thread can move\n") + self.blocked_report)
        finally:
            self.closed = True
            if gc_was:
                gc.enable()

    def current_stack(self):
        cur = self.current
        try:
            fr = sys._current_frames().get(cur.real.ident) if cur and cur.real else None
            if fr is None:
                return ""
            return "current thread %s is at:\n%s" % (cur.name, "".join(traceback.format_stack(fr)[-8:]))
        except Exception:
            return ""

    def describe(self):
        return "\n".join(f"  {t.name}: " + ("finished" if not t.alive else ("blocked on " + t.what if t.pred else "runnable")) for t in self.threads)

    def _abort_all(self):
        self.aborted = True
        for t in self.threads:
            t.sem.release()
        self.done.set()

    # -- the core -----------------------------------------------------------------------------
    def _choose(self, n):
        if n == 1:
            return 0
        if self.choices:
            c = self.choices.pop(0) % n
        elif self.rng is not None:
            c = self.rng.randrange(n)
        else:
            c = 0
        self.trace.append(c)
        self.trace_n.append(n)
        self.trace_p.append(self._cur_can_continue)
        return c

    def _pick(self):
        cands = []
        timed = []
        for t in self.threads:
            if not t.alive:
                continue
            if t.pred is None:
                cands.append(t)
            elif t.pending_exc is not None or t.pred():
                cands.append(t)
            elif t.deadline is not None:
                timed.append(t)
        self._cur_can_continue = False
        if self.current_first and self.current in cands:
            cands.remove(self.current)
            cands.insert(0, self.current)
            self._cur_can_continue = True
        if self.timeouts == "adversarial" and timed and cands:
            allc = cands + timed
            t = allc[self._choose(len(allc))]
            if t in timed:
                t.timed_out = True
                self.now = max(self.now, t.deadline)
            return t
        if cands:
            cur = self.current
            if self.stickiness and cur in cands and self.rng is not None and self.rng.random() < self.stickiness:
                return cur
            return cands[self._choose(len(cands))]
        if timed:
            t = min(timed, key=lambda x: x.deadline)
            self.now = max(self.now, t.deadline)
            t.timed_out = True
            return t
        return None

    def _reschedule(self, cur, finished=False):
        self.steps += 1
        if self.steps > self.max_steps:
            self.livelock = self.deadlock = True
            self.blocked_report = self.describe()
            self._abort_all()
            raise SchedAbort()
        nxt = self._pick()
        if nxt is None:
            if all(not t.alive for t in self.threads):
                self.done.set()
                return
            self.deadlock = True
            self.blocked_report = self.describe()
            self._abort_all()
            raise SchedAbort()
        self.current = nxt
        if nxt is cur:
            return
        nxt.sem.release()
        if not finished:
            cur.sem.acquire()
            if self.aborted:
                raise SchedAbort()

    def _aborted_here(self):
        """after a tear-down only this scheduler's own threads are unwound with SchedAbort; a finaliser that
        touches one of its primitives from a foreign thread (garbage collection of channels) is left alone"""
        return self.aborted and threading.get_ident() in self._idents

    def yield_point(self, what=""):
        if self.closed:
            return
        if self.aborted:
            if self._aborted_here():
                raise SchedAbort()
            return
        if not self.in_logical_thread():
            return
        cur = self.current
        self._reschedule(cur)
        if cur.pending_exc is not None:
            self._deliver_pending(cur)

    def block_until(self, pred, timeout=None, what=""):
        """Scheduling point; then wait until pred() holds.  Returns False iff the (virtual) time-out expired."""
        if self.closed:
            return bool(pred())
        if self._aborted_here():
            raise SchedAbort()
        if self.aborted or not self.in_logical_thread():
            # outside a scheduler run (set-up / tear-down code): no concurrency, never block
            return bool(pred())
        cur = self.current
        self._reschedule(cur)
        if cur.pending_exc is not None:
            self._deliver_pending(cur)
        if pred():
            return True
        if timeout is not None and timeout <= 0:
            return False
        while True:
            cur.pred = pred
            cur.what = what
            cur.deadline = None if timeout is None else self.now + timeout
            cur.timed_out = False
            try:
                self._reschedule(cur)
            finally:
                cur.pred = None
            if cur.pending_exc is not None:
                cur.timed_out = False
                self._deliver_pending(cur)
            if cur.timed_out:
                cur.timed_out = False
                return bool(pred())
            if pred():
                return True

    # -- primitives ---------------------------------------------------------------------------------
    def RLock(self):
        return SchedRLock(self)

    def Event(self):
        return SchedEvent(self)

    def Queue(self, maxsize=0):
        return SchedQueue(self)


class SchedRLock:
    def __init__(self, sched):
        self.sched = sched
        self.owner = None
        self.count = 0

    def _me(self):
        s = self.sched
        return s.current if s.in_logical_thread() else ("ext", threading.get_ident())

    def acquire(self, blocking=True, timeout=-1):
        me = self._me()
        if self.owner is me:
            self.count += 1
            return True
        if not blocking:
            self.sched.yield_point("trylock")
            if self.owner is None:
                self.owner, self.count = me, 1
                return True
            return False
        ok = self.sched.block_until(lambda: self.owner is None, None if timeout is None or timeout < 0 else timeout, "lock")
        if not ok:
            return False
        self.owner, self.count = me, 1
        return True

    def release(self):
        if self.sched.closed or self.sched.aborted:
            # the run is over / being torn down: threads unwind through their `with lock:` blocks
            self.count = max(0, self.count - 1)
            if self.count == 0:
                self.owner = None
            return
        if self.owner is not self._me():
            raise RuntimeError("cannot release un-acquired lock")
        self.count -= 1
        if self.count == 0:
            self.owner = None
            self.sched.yield_point("unlock")

    __enter__ = acquire

    def __exit__(self, *a):
        self.release()

    def locked(self):
        return self.owner is not None


class SchedEvent:
    def __init__(self, sched):
        self.sched = sched
        self.flag = False

    def is_set(self):
        self.sched.yield_point("is_set")
        return self.flag

    isSet = is_set

    def set(self):
        self.sched.yield_point("set")
        self.flag = True

    def clear(self):
        self.sched.yield_point("clear")
        self.flag = False

    def wait(self, timeout=None):
        return self.sched.block_until(lambda: self.flag, timeout, "event")


class Empty(Exception):
    pass


class Full(Exception):
    pass


class SchedQueue:
    def __init__(self, sched):
        self.sched = sched
        self.items = collections.deque()

    def put(self, item, block=True, timeout=None):
        self.sched.yield_point("put")
        self.items.append(item)

    put_nowait = put

    def get(self, block=True, timeout=None):
        if not block:
            self.sched.yield_point("get_nowait")
            if not self.items:
                raise Empty
            return self.items.popleft()
        ok = self.sched.block_until(lambda: len(self.items) > 0, timeout, "queue.get")
        if not ok:
            raise Empty
        return self.items.popleft()

    def get_nowait(self):
        return self.get(block=False)

    def empty(self):
        return not self.items

    def qsize(self):
        return len(self.items)


class _QueueModule:
    Empty = Empty
    Full = Full

    def __init__(self, sched):
        self._sched = sched

    def Queue(self, maxsize=0):
        return SchedQueue(self._sched)


def make_execmodel(execnet_gateway_base, sched, backend="thread"):
    """A subclass of the repository's ThreadExecModel whose primitives come from `sched`."""
    base = execnet_gateway_base.ThreadExecModel

    class SchedExecModel(base):
        def __init__(self):
            self._sched = sched
            self._queue = _QueueModule(sched)

        @property
        def queue(self):
            return self._queue

        def get_ident(self):
            cur = sched.current
            return id(cur) if sched.in_logical_thread() else threading.get_ident()

        def sleep(self, delay):
            sched.block_until(lambda: False, delay, "sleep")

        def start(self, func, args=()):
            sched.spawn(func, args)

        def Lock(self):
            return SchedRLock(sched)

        def RLock(self):
            return SchedRLock(sched)

        def Event(self):
            return SchedEvent(sched)

    SchedExecModel.backend = backend
    return SchedExecModel()


# ---------------------------------------------------------------------------------------
# in-memory pipes with controllable chunking / write splitting / cut points
# ---------------------------------------------------------------------------------------
class Pipe:
    """One direction of a byte stream.  `reader` and `writer` are file-like ends usable by the real
    `Popen2IO` (read/write/flush/close)."""

    def __init__(self, sched, rng=None, max_chunk=None, split_writes=False, cut_at=None):
        """max_chunk: a low-level read returns between 1 and max_chunk of the available bytes (rng-chosen);
        split_writes: a write() is delivered in rng-chosen pieces with a scheduling point between pieces
        (models a non-atomic socket sendall); cut_at: total byte offset after which the stream ends (EOF)."""
        self.sched = sched
        self.rng = rng
        self.max_chunk = max_chunk
        self.split_writes = split_writes
        self.cut_at = cut_at
        self.buf = bytearray()
        self.total_written = 0
        self.total_read = 0
        self.wclosed = False
        self.rclosed = False
        self.reader = _PipeReader(self)
        self.writer = _PipeWriter(self)
        self.write_log: list[tuple[str, int]] = []  # (thread name, nbytes) per delivered piece
        self.gated = False      # when True the reader only sees bytes that were granted
        self.granted = 0        # total bytes the reader may have consumed so far
        self.frames: list[int] = []  # sizes of complete writes not yet granted
        self.force_eof = False
        self.reader_waiting = False
        self.record = bytearray()  # every byte handed to write(), also beyond a cut (for frame-exact oracles)

    def grant_frame(self):
        """let the reader consume the next complete write (= one frame)"""
        n = self.frames.pop(0)
        self.granted += n
        return n

    def avail(self):
        if self.gated:
            return min(len(self.buf), self.granted - self.total_read)
        return len(self.buf)

    def _deliver(self, data):
        self.record += data
        if self.cut_at is not None:
            room = self.cut_at - self.total_written
            if room <= 0:
                self.total_written += len(data)
                return
            data = data[:room] if len(data) > room else data
        self.buf += data
        self.total_written += len(data)
        self.frames.append(len(data))


class _PipeReader:
    def __init__(self, pipe):
        self.pipe = pipe

    def _eof(self):
        p = self.pipe
        if p.force_eof:
            return True
        if p.gated:
            return False  # under frame gating the end of the stream is decided by the harness alone
        return p.wclosed or (p.cut_at is not None and p.total_written >= p.cut_at)

    def read(self, n=-1):
        p = self.pipe
        if p.rclosed:
            raise ValueError("I/O operation on closed file")
        p.reader_waiting = True
        try:
            p.sched.block_until(lambda: p.avail() > 0 or self._eof() or p.rclosed, None, "pipe.read")
        finally:
            p.reader_waiting = False
        if p.rclosed:
            raise ValueError("I/O operation on closed file")
        if p.force_eof or p.avail() <= 0:
            return b""
        k = p.avail() if n is None or n < 0 else min(n, p.avail())
        if p.max_chunk and p.rng is not None:
            k = min(k, p.rng.randint(1, p.max_chunk))
        data = bytes(p.buf[:k])
        del p.buf[:k]
        p.total_read += k
        return data

    def close(self):
        self.pipe.rclosed = True
        self.pipe.sched.yield_point("pipe.close_read")

    def fileno(self):
        raise OSError("no fileno")


class _PipeWriter:
    def __init__(self, pipe):
        self.pipe = pipe

    def write(self, data):
        p = self.pipe
        if p.wclosed:
            raise ValueError("write to closed file")
        if p.rclosed:
            raise BrokenPipeError(32, "Broken pipe")
        data = bytes(data)
        name = p.sched.current.name if p.sched.in_logical_thread() else "ext"
        if p.split_writes and p.rng is not None and len(data) > 1:
            pos = 0
            while pos < len(data):
                k = p.rng.randint(1, len(data) - pos)
                p._deliver(data[pos:pos + k])
                p.write_log.append((name, k))
                pos += k
                if pos < len(data):
                    p.sched.yield_point("pipe.partial-write")
        else:
            p.sched.yield_point("pipe.write")
            if p.wclosed:
                raise ValueError("write to closed file")
            p._deliver(data)
            p.write_log.append((name, len(data)))
        return len(data)

    def flush(self):
        pass

    def close(self):
        self.pipe.wclosed = True
        self.pipe.sched.yield_point("pipe.close_write")

    def fileno(self):
        raise OSError("no fileno")


class OsProxy:
    """stand-in for the `os` module inside gateway_base during in-process runs of worker code:
    `kill(getpid(), SIGINT)` and `_exit` are recorded instead of performed."""

    def __init__(self, real_os, sched, on_kill=None, on_exit=None):
        self._os = real_os
        self._sched = sched
        self.events = []
        self._on_kill = on_kill
        self._on_exit = on_exit

    def __getattr__(self, name):
        return getattr(self._os, name)

    def kill(self, pid, sig):
        self.events.append(("kill", sig, self._sched.now))
        if self._on_kill:
            self._on_kill(pid, sig)

    def _exit(self, code):
        self.events.append(("_exit", code, self._sched.now))
        if self._on_exit:
            self._on_exit(code)
        raise SchedAbort()


class GatewayPair:
    """A complete gateway pair in one process: a real `Gateway` (initiator, side A) and a real
    `WorkerGateway.serve()` (side B) joined by two in-memory pipes, every thread under the scheduler."""

    def __init__(self, execnet, sched, backend="thread", rng=None, max_chunk=None, split_writes=False,
                 cut_b2a_at=None, cut_a2b_at=None):
        gb = execnet.gateway_base
        self.execnet = execnet
        self.sched = sched
        self.em = make_execmodel(gb, sched, backend)
        self.a2b = Pipe(sched, rng, max_chunk, split_writes, cut_a2b_at)
        self.b2a = Pipe(sched, rng, max_chunk, split_writes, cut_b2a_at)
        pair = self

        class MasterIO(gb.Popen2IO):
            """initiator-side IO of the in-process pair: `wait` = until the worker's serve() returned,
            `kill` = the worker 'process' dies (both streams end)"""

            def wait(self):
                sched.block_until(lambda: pair.worker_done, None, "io.wait")
                return 0

            def kill(self):
                pair.killed = True
                pair.a2b.wclosed = True
                pair.b2a.wclosed = True
                pair.worker_done = True

        self.worker_done = False
        self.killed = False
        self.io_a = MasterIO(self.a2b.writer, self.b2a.reader, self.em)
        self.io_b = gb.Popen2IO(self.b2a.writer, self.a2b.reader, self.em)
        self.os_proxy = OsProxy(gb.os, sched)
        self.group = None
        self.gw = None
        self.worker = None

    def start(self):
        """must be called from inside a logical thread (sched.run)"""
        execnet = self.execnet
        gb = execnet.gateway_base
        self._real_os = gb.os
        gb.os = self.os_proxy
        # RemoteError.warn() only prints to stderr ("unhandled RemoteError"); keep the check's output readable
        self._real_warn = gb.RemoteError.warn
        self.warnings = []
        gb.RemoteError.warn = lambda err, _w=self.warnings: _w.append(err.formatted[-80:])
        self.group = execnet.Group(execmodel=self.em)
        spec = execnet.XSpec("popen//id=gwA")
        self.worker = gb.WorkerGateway(io=self.io_b, id="gwA-worker", _startcount=2)
        def worker_main():
            try:
                self.worker.serve()
            finally:
                self.worker_done = True

        self.sched.spawn(worker_main, name="worker-main")
        self.gw = execnet.Gateway(self.io_a, spec)
        self.gw.spec = spec
        self.group._register(self.gw)
        return self.gw

    def restore(self):
        if getattr(self, "_real_os", None) is not None:
            self.execnet.gateway_base.os = self._real_os
            self._real_os = None
        if getattr(self, "_real_warn", None) is not None:
            self.execnet.gateway_base.RemoteError.warn = self._real_warn
            self._real_warn = None
        # the Group registered an atexit hook; make it a no-op for our fake members
        if self.group is not None:
            try:
                self.group._gateways[:] = []
                self.group._gateways_to_join[:] = []
            except Exception:
                pass
