/-
Micro-step model of `Group.makegateway` for C05's "a failed makegateway leaves no process behind"
(`multi.py`: `makegateway`, `allocate_id`, `_register`; `gateway_io.create_io`; `gateway_bootstrap.bootstrap`).

Steps: allocate (auto id: counter, checked at once under the lock; explicit id: taken as is) → the id check →
spawn (the child process exists from here on) → bootstrap → register.  The *pinned* tree performs the id check
inside `_register` (`assert gateway.id not in self`), i.e. after spawn and bootstrap; the repaired order
checks / reserves the id before any IO is created.  A failure is possible at every step:
the id is taken, `Popen` raises (no process was created), the child dies before answering the bootstrap
(`EOFError` out of `io.read(1)` — the only way `bootstrap_*` raises for a popen child — so the process is gone).
-/
namespace ExecnetVerif.MakeGateway

structure World where
  ids : List Nat        -- ids of the registered members
  procs : List Nat      -- live child processes (newest first)
  counter : Nat         -- `_autoidcounter`
  nextPid : Nat
  deriving Repr, DecidableEq

inductive Err
  | idTaken | spawnFailed | bootstrapFailed
  deriving Repr, DecidableEq

/-- the environment's choice of what goes wrong -/
inductive Fault
  | none | spawn | bootstrap
  deriving Repr, DecidableEq

inductive Order
  | pinned | checkFirst
  deriving Repr, DecidableEq

inductive Step
  | check | spawn | bootstrap | register
  deriving Repr, DecidableEq

def stepsOf : Order → List Step
  | .pinned => [.spawn, .bootstrap, .check, .register]
  | .checkFirst => [.check, .spawn, .bootstrap, .register]

/-- `allocate_id`: an automatic id is `counter` (checked against the members at once), an explicit id is used as is -/
def allocate (w : World) : Option Nat → Option Err × World × Nat
  | some i => (none, w, i)
  | none =>
    let w' := { w with counter := w.counter + 1 }
    if w.ids.contains w.counter then (some .idTaken, w', w.counter) else (none, w', w.counter)

def doStep (id : Nat) (f : Fault) (w : World) : Step → Option Err × World
  | .check => if w.ids.contains id then (some .idTaken, w) else (none, w)
  | .spawn =>
    if f = .spawn then (some .spawnFailed, w)
    else (none, { w with procs := w.nextPid :: w.procs, nextPid := w.nextPid + 1 })
  | .bootstrap =>
    -- the child died before answering: it is no process any more
    if f = .bootstrap then (some .bootstrapFailed, { w with procs := w.procs.tail }) else (none, w)
  | .register => (none, { w with ids := w.ids ++ [id] })

def runSteps (id : Nat) (f : Fault) : World → List Step → Option Err × World
  | w, [] => (none, w)
  | w, s :: ss =>
    match doStep id f w s with
    | (some e, w') => (some e, w')
    | (none, w') => runSteps id f w' ss

/-- one `makegateway` call: the error it raises (if any) and the world afterwards -/
def makegateway (o : Order) (w : World) (req : Option Nat) (f : Fault) : Option Err × World :=
  match allocate w req with
  | (some e, w', _) => (some e, w')
  | (none, w', id) => runSteps id f w' (stepsOf o)

end ExecnetVerif.MakeGateway
