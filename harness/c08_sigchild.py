"""Child of harness/c08.py (run with PYTHONPATH=<repo>/src): large frames written while signals with a Python-level handler
arrive — the kernel then returns short counts from write(2); a frame must still reach the peer whole.  Prints one JSON line."""
import json
import signal
import sys
import zlib

import execnet

nitems, size = int(sys.argv[1]), int(sys.argv[2])
hits = [0]


def on_alarm(signum, frame):
    hits[0] += 1


signal.signal(signal.SIGALRM, on_alarm)
gw = execnet.makegateway("popen")
ch = gw.remote_exec("import zlib\nwhile True:\n    x = channel.receive()\n    if x is None:\n        break\n    channel.send((len(x), zlib.crc32(x)))\n")
out = {"ok": True, "problems": []}
try:
    signal.setitimer(signal.ITIMER_REAL, 0.002, 0.002)
    for i in range(nitems):
        data = bytes([i % 251]) * size
        try:
            ch.send(data)
            got = ch.receive(30)
        except BaseException as e:  # noqa: BLE001
            out["ok"] = False
            out["problems"].append("item %d of %d bytes: %r" % (i, size, e))
            break
        if got != (len(data), zlib.crc32(data)):
            out["ok"] = False
            out["problems"].append("item %d: peer decoded %r" % (i, got))
            break
finally:
    signal.setitimer(signal.ITIMER_REAL, 0, 0)
out["signals"] = hits[0]
try:
    ch.send(None)
    execnet.default_group.terminate(1.0)
except Exception:  # noqa: BLE001
    pass
print(json.dumps(out))
