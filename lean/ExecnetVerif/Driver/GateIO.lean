/-
Driver command `gate.accepts` — trace inclusion against the `main_thread_only` gate model (`Model/ExecGate.lean`).

  gate.accepts T=<0|1> O=<0|1> ; <event> ...

T: the schedule respected `Timely` (time-outs fired only when nothing else could run), O: the pinned tree's
`executetask`.  Logical events recorded by the harness around a real `WorkerGateway.serve()`:
  sub:k          the initiator issues its k-th `remote_exec` (k = 0, 1, …)
  st:k           body k begins (the harness separately checks it is on the main thread)
  en:k:o         body k ends, o ∈ ret | raise | sysexit | kbd
  obs:k:ok|err|dead   the initiator sees channel k closed: normally / with a RemoteError / with the deadlock text
Unobserved steps (receiver: take, wake, clear, time-out, spawn; main thread: close, set) are searched
(depth-first with memoisation, fewest unobserved steps first).  Answer `accept <states expanded>`,
`reject <index of the furthest event reached>` or `unknown <index>`.
Not part of any theorem (exercised by the correspondence runs).
-/
import ExecnetVerif.Model.ExecGate
import Std.Data.HashSet
namespace ExecnetVerif
open Gate

inductive GKind where
  | ok | err | dead
  deriving DecidableEq, Repr, Inhabited

inductive GEvent where
  | sub (k : Nat) | st (k : Nat) | en (k : Nat) (o : Outcome) | obs (k : Nat) (kind : GKind)
  deriving Repr, Inhabited

def parseOutcome : String → Option Outcome
  | "ret" => some .ret | "raise" => some .raise | "sysexit" => some .sysexit | "kbd" => some .kbd | _ => none

def parseGEvent (tok : String) : Option GEvent :=
  match tok.splitOn ":" with
  | ["sub", k] => do pure (.sub (← k.toNat?))
  | ["st", k] => do pure (.st (← k.toNat?))
  | ["en", k, o] => do pure (.en (← k.toNat?) (← parseOutcome o))
  | ["obs", k, "ok"] => do pure (.obs (← k.toNat?) .ok)
  | ["obs", k, "err"] => do pure (.obs (← k.toNat?) .err)
  | ["obs", k, "dead"] => do pure (.obs (← k.toNat?) .dead)
  | _ => none

def outcomeCode : Outcome → Nat
  | .ret => 0 | .raise => 1 | .sysexit => 2 | .kbd => 3

def ephaseCode : EPhase → List Nat
  | .unsent => [0, 0] | .sent => [1, 0] | .atGate => [2, 0] | .rejected => [3, 0] | .queued => [4, 0] | .running => [5, 0]
  | .bodyDone o => [6, outcomeCode o] | .closed o => [7, outcomeCode o] | .finished o => [8, outcomeCode o]

def rphaseCode : RPhase → List Nat
  | .idle => [0, 0] | .waiting k => [1, k] | .woke k => [2, k] | .cleared k => [3, k]

def mphaseCode : MPhase → List Nat
  | .idle => [0, 0, 0] | .running k => [1, k, 0] | .bodyDone k o => [2, k, outcomeCode o] | .closedSt k o => [3, k, outcomeCode o]

def gateKey (n : Nat) (s : State) : List Nat :=
  [s.complete.toNat, s.submitted] ++ rphaseCode s.r ++ mphaseCode s.m ++ s.rq ++ [999] ++ s.queue ++ [999] ++
  (List.range n).flatMap (fun k => ephaseCode (s.ph k) ++ [(s.closeObs k).toNat])

def gateNormalize (n : Nat) (s : State) : State :=
  let ph := (Array.range n).map s.ph
  let co := (Array.range n).map s.closeObs
  let sq := (Array.range n).map s.seqOk
  { s with ph := fun k => ph[k]?.getD .unsent, closeObs := fun k => co[k]?.getD false, seqOk := fun k => sq[k]?.getD false }

structure GCtx where
  c : Config
  n : Nat
  evs : Array GEvent

def GCtx.tryStep (x : GCtx) (s : State) (a : Action) : Option State :=
  (step x.c s a).map (gateNormalize x.n)

def GCtx.internal (x : GCtx) (s : State) : List State :=
  [Action.rTake, .rWake, .rClear, .rTimeout, .rSpawn, .mClose, .mSet].filterMap (x.tryStep s)

def kindOf : EPhase → Option GKind
  | .rejected => some .dead
  | .closed .ret | .finished .ret => some .ok
  | .closed _ | .finished _ => some .err
  | _ => none

def GCtx.observe (x : GCtx) (s : State) : GEvent → Option State
  | .sub k => if s.submitted == k then x.tryStep s .submit else none
  | .st k => if s.queue.head? == some k then x.tryStep s .mStart else none
  | .en k o => if s.m == .running k then x.tryStep s (.mFinish o) else none
  | .obs k kind => if kindOf (s.ph k) == some kind then x.tryStep s (.observe k) else none

structure GSearch where
  failed : Std.HashSet (List Nat) := {}
  expanded : Nat := 0
  deepest : Nat := 0

partial def GCtx.search (x : GCtx) (cap : Nat) (k : Nat) (root : State) (st : GSearch) : Option Bool × GSearch :=
  if k ≥ x.evs.size then (some true, st) else
  let rk := k :: gateKey x.n root
  if st.failed.contains rk then (some false, st) else
  let e := x.evs[k]!
  let rec bfs (queue : List State) (later : List State) (seen : Std.HashSet (List Nat)) (st : GSearch) : Option Bool × GSearch :=
    match queue with
    | [] => match later with
      | [] => (some false, st)
      | _ => bfs later.reverse [] seen st
    | s :: rest =>
      let key := gateKey x.n s
      if seen.contains key then bfs rest later seen st else
      if st.expanded ≥ cap then (none, st) else
      let st := { st with expanded := st.expanded + 1, deepest := max st.deepest k }
      let seen := seen.insert key
      let (r, st) := match x.observe s e with
        | some s' => x.search cap (k + 1) s' st
        | none => (some false, st)
      match r with
      | some true => (some true, st)
      | none => (none, st)
      | some false => bfs rest (x.internal s ++ later) seen st
  let (r, st) := bfs [root] [] {} st
  match r with
  | some false => (some false, { st with failed := st.failed.insert rk })
  | _ => (r, st)

def parseFlagG (name : String) (tok : String) : Option Bool :=
  match tok.splitOn "=" with
  | [n, "1"] => if n == name then some true else none
  | [n, "0"] => if n == name then some false else none
  | _ => none

def gateHandle : List String → Option String
  | "gate.accepts" :: t :: o :: ";" :: evs =>
    match parseFlagG "T" t, parseFlagG "O" o, evs.mapM parseGEvent with
    | some t, some o, some evs =>
      let evs := evs.toArray
      let n := evs.foldl (fun acc e => match e with | .sub k | .st k | .en k _ | .obs k _ => max acc (k + 1)) 0
      if n > 64 then some "bad-op" else
      let x : GCtx := { c := { timely := t, old := o }, n := n, evs := evs }
      let (r, st) := x.search 400000 0 (gateNormalize n init) {}
      match r with
      | some true => some s!"accept {st.expanded}"
      | some false => some s!"reject {st.deepest}"
      | none => some s!"unknown {st.deepest}"
    | _, _, _ => some "bad-op"
  | "gate.accepts" :: _ => some "bad-op"
  | _ => none

end ExecnetVerif
