/-
Driver command for the finer `receive` model (Model/NetFine.lean), used to sanity-test the refinement
STATEMENT on random fine histories before proving it:
  fine.run <fop> ; <fop> ; ...    → outputs | digest A | digest B | hands=<n>   (the fine model, for the correspondence)
  fine.sim <fop> ; <fop> ; ...    fop = any coarse op (syntax of net.run) | rget S id | rfin S id
→ "ok" if, skipping the ops that violate `respectsHands`, the abstraction of the fine run equals the coarse run
  of the projected ops (full state rendering over the ids in use) and the outputs agree; else a diagnostic.
-/
import ExecnetVerif.Driver.NetIO
import ExecnetVerif.Model.NetFine
namespace ExecnetVerif.Net

def parseFOp : List String → Option FOp
  | ["rget", s, id] => do pure (.recvGet (← parseSide s) (← id.toNat?))
  | ["rfin", s, id] => do pure (.recvFin (← parseSide s) (← id.toNat?))
  | toks => (parseOp toks).map .coarse

def QItem.render : QItem → String
  | .item v => s!"i{v.render}"
  | .endmarker => "E"

def chanRender (c : Chan) : String :=
  let q := match c.queue with
    | none => "none"
    | some l => "[" ++ ",".intercalate (l.map QItem.render) ++ "]"
  s!"cr={c.created} rg={c.registered} al={c.alive} q={q} cl={c.closed} rc={c.rclosed} re={c.rerrs} ex={c.executing}"

def fullSide (x : SideSt) (maxId : Nat) : String :=
  let ids := List.range (maxId + 1)
  let per := ids.map fun i =>
    s!"{i}:{chanRender (x.chans i)} cb={x.cbs i} got={(x.got i).map Item.render} kept={(x.kept i).map Item.render} " ++
    s!"dl={(x.delivered i).map Item.render} log={(x.cbLog i).map CbEvent.render} dr={x.dropped i} br={x.broken i} " ++
    s!"cw={x.cbWants i} en={x.ended i} cs={x.closeSeen i} ct={x.closeSent i} sent={(x.sent i).map Item.render}"
  s!"count={x.count} fin={x.finished} gw={x.gwerr} io={x.ioOpen} out={x.out.map Frame.render} " ++ " | ".intercalate per

def fullState (st : State) : String :=
  let m := max st.a.count st.b.count + 2
  "A: " ++ fullSide st.a m ++ " || B: " ++ fullSide st.b m

def fineSim (guarded : Bool) (fops : List FOp) : String :=
  let rec go (f : FState) (st : State) (ops : List FOp) (n : Nat) : String :=
    match ops with
    | [] => if fullState f.abs == fullState st then s!"ok" else s!"FAIL final-state after {n}"
    | op :: rest =>
      if guarded && !op.respectsHands f then go f st rest (n + 1) else
      let (o, f') := fstep failsDefault f op
      match FOp.coarseOf f op with
      | none =>
        -- silent step: the abstraction must not move
        if fullState f'.abs == fullState st then go f' st rest (n + 1) else s!"FAIL silent-step-moved at {n}"
      | some cop =>
        let (o', st') := step failsDefault st cop
        if o.render != o'.render then s!"FAIL output at {n}: fine {o.render} coarse {o'.render}"
        else if fullState f'.abs != fullState st' then s!"FAIL state at {n}"
        else go f' st' rest (n + 1)
  go finit init fops 0

def netFineHandle : List String → Option String
  | "fine.run" :: toks =>
    -- the fine model itself, in the rendering of `net.run` (outputs, digest of the raw state, hands still open)
    let groups := (splitSemi toks [] []).filter (· ≠ [])
    match groups.mapM parseFOp with
    | none => some "bad-op"
    | some fops =>
      let (outs, f) := frun failsDefault finit fops
      let maxId := max f.st.a.count f.st.b.count
      some (" ; ".intercalate (outs.map Out.render) ++ " | " ++ sideDigest "A" f.st.a maxId ++ " | " ++
        sideDigest "B" f.st.b maxId ++ s!" | hands={f.hand.length}")
  | "fine.sim" :: toks =>
    let groups := (splitSemi toks [] []).filter (· ≠ [])
    match groups.mapM parseFOp with
    | none => some "bad-op"
    | some fops => some (fineSim true fops)
  | "fine.sim0" :: toks =>
    let groups := (splitSemi toks [] []).filter (· ≠ [])
    match groups.mapM parseFOp with
    | none => some "bad-op"
    | some fops => some (fineSim false fops)
  | _ => none

end ExecnetVerif.Net
