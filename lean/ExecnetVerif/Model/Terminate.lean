/-
L5 `Terminate` — `Group.terminate(timeout)` / `safe_terminate` over abstract remotes in virtual time (C05).

Transcribed from `multi.py` (`Group.terminate`, `Group._unregister`, `safe_terminate`), `gateway.py`
(`Gateway.exit`) and `gateway_io.py` (`Popen2IOMaster.wait/kill`, `ProxyIO.wait/kill`, `SocketIO.wait/kill`):

    while self or self._gateways_to_join:          # members or exited-but-not-joined members remain
        vias = {gw.spec.via for gw in self if gw.spec.via}
        for gw in self:
            if gw.id not in vias: gw.exit()        # unregister → _gateways_to_join; GATEWAY_TERMINATE + close_write
        safe_terminate(execmodel, timeout, [(join_wait gw, kill gw) for gw in self._gateways_to_join])
        self._gateways_to_join[:] = []

    safe_terminate: per pair a pool task `termkill` = spawn(termfunc); termreply.get(timeout) → on time-out killfunc();
        for reply in replies: reply.waitfinish(timeout*2) (time-out: continue); workerpool.waitall(timeout*2)

The pool runs all pairs in parallel: every pair starts at the beginning of the round; the reply waits are
sequential.  Time is a `Nat` of abstract ticks relative to the start of the round; `none` = never.
-/
namespace ExecnetVerif.Terminate

/-- what the remote process does once it got GATEWAY_TERMINATE / EOF -/
inductive RemoteClass
  /-- receiver thread ends and the process exits `d` ticks after `exit()` (≤ 15 s by C11) -/
  | exitsAfter (d : Nat)
  /-- stopped / hung: never exits by itself -/
  | stuck
  deriving Repr, DecidableEq

/-- what `gw._io.kill()` does -/
inductive KillClass
  /-- returns after the kill cost; the process is dead then and `join`/`wait` return (`Popen.kill`, a
  proxied kill through a responsive forwarder) — "killable" -/
  | effective
  /-- returns at once and changes nothing (`SocketIO.kill` is `pass`) -/
  | noop
  /-- never returns (a proxied kill whose forwarder does not answer) -/
  | blocks
  deriving Repr, DecidableEq

structure Member where
  id : Nat
  via : Option Nat
  remote : RemoteClass
  kill : KillClass
  deriving Repr, DecidableEq

/-- `_gateways` and `_gateways_to_join` -/
structure Group where
  members : List Member
  toJoin : List Member
  deriving Repr, DecidableEq

/-- `timeout * 2` in `safe_terminate` -/
def waitFactor : Nat := 2

/-! ### who is exited in a round -/

def vias (ms : List Member) : List Nat := ms.filterMap (·.via)

/-- `gw.id not in vias` -/
def isLeaf (ms : List Member) (m : Member) : Bool := !(vias ms).contains m.id

def leaves (ms : List Member) : List Member := ms.filter (isLeaf ms)
def rest (ms : List Member) : List Member := ms.filter (fun m => !isLeaf ms m)

/-! ### one `safe_terminate` call -/

def natural : RemoteClass → Option Nat
  | .exitsAfter d => some d
  | .stuck => none

/-- the term function (`join(); _io.wait()`) has not returned when `termreply.get(timeout)` gives up -/
def killCalled (T : Option Nat) (m : Member) : Bool :=
  match T, natural m.remote with
  | none, _ => false
  | some _, none => true
  | some t, some d => decide (t < d)

def optMin : Option Nat → Option Nat → Option Nat
  | some a, some b => some (min a b)
  | some a, none => some a
  | none, b => b

/-- when the `termkill` task of the member is over (relative to the start of the round) -/
def termkillFinish (T : Option Nat) (c : Nat) (m : Member) : Option Nat :=
  if killCalled T m then
    match m.kill with
    | .effective => T.map (· + c)
    | .noop => T
    | .blocks => none
  else natural m.remote

/-- when the term function (`join` + `wait`) of the member is over = the child is known to be gone -/
def termFinish (T : Option Nat) (c : Nat) (m : Member) : Option Nat :=
  if killCalled T m then
    match m.kill with
    | .effective => optMin (natural m.remote) (T.map (· + c))
    | _ => natural m.remote
  else natural m.remote

def optMax : Option Nat → Option Nat → Option Nat
  | some a, some b => some (max a b)
  | _, _ => none

/-- both pool tasks of the member are over -/
def memberFinish (T : Option Nat) (c : Nat) (m : Member) : Option Nat :=
  optMax (termkillFinish T c m) (termFinish T c m)

/-- the latest of a list of finishing times (`none` if one never finishes) -/
def allFinish : List (Option Nat) → Option Nat
  | [] => some 0
  | f :: fs => optMax f (allFinish fs)

/-- a bounded wait started at `cur` for something that is over at `f`: the time it returns (`none`: never) -/
def waitStep (w : Option Nat) (cur : Nat) (f : Option Nat) : Option Nat :=
  match f, w with
  | some f, some w => if f ≤ cur + w then some (max cur f) else some (cur + w)
  | some f, none => some (max cur f)
  | none, some w => some (cur + w)
  | none, none => none

/-- `for reply in replylist: reply.waitfinish(wait_timeout)` -/
def waitReplies (w : Option Nat) : Nat → List (Option Nat) → Option Nat
  | cur, [] => some cur
  | cur, f :: fs =>
    match waitStep w cur f with
    | some cur' => waitReplies w cur' fs
    | none => none

/-- duration of `safe_terminate(execmodel, T, pairs of js)` with kill cost `c` -/
def roundElapsed (T : Option Nat) (c : Nat) (js : List Member) : Option Nat :=
  let w := T.map (· * waitFactor)
  match waitReplies w 0 (js.map (termkillFinish T c)) with
  | none => none
  | some cur => waitStep w cur (allFinish (js.map (memberFinish T c)))

def optLe (a : Option Nat) (b : Nat) : Bool :=
  match a with
  | some x => decide (x ≤ b)
  | none => false

/-! ### the loop -/

/-- what one round did -/
structure RoundRec where
  exited : List Member      -- `exit()` calls of the round, in order
  joined : List Member      -- members handed to `safe_terminate`, in order
  killed : List Nat         -- ids whose kill function was called
  reaped : List Nat         -- ids whose child is known to be gone when `safe_terminate` returned
  elapsed : Option Nat
  deriving Repr, DecidableEq

structure Run where
  g : Group
  clock : Option Nat        -- `none`: a `safe_terminate` call never returned
  rounds : List RoundRec    -- oldest first
  deriving Repr, DecidableEq

def loopTest (g : Group) : Bool := !g.members.isEmpty || !g.toJoin.isEmpty

/-- the loop test of the pinned tree (`while self:`), kept for the counterexample only -/
def loopTestPinned (g : Group) : Bool := !g.members.isEmpty

def mkRound (T : Option Nat) (c : Nat) (g : Group) : RoundRec :=
  let ex := leaves g.members
  let js := g.toJoin ++ ex
  let el := roundElapsed T c js
  { exited := ex, joined := js, killed := (js.filter (killCalled T)).map (·.id),
    reaped := match el with
      | some e => (js.filter (fun m => optLe (termFinish T c m) e)).map (·.id)
      | none => [],
    elapsed := el }

/-- one iteration of the `while` loop (nothing happens when the loop is over or hangs) -/
def roundStep (T : Option Nat) (c : Nat) (r : Run) : Run :=
  match r.clock with
  | none => r
  | some now =>
    if !loopTest r.g then r else
    let rr := mkRound T c r.g
    match rr.elapsed with
    | some e => { g := { members := rest r.g.members, toJoin := [] }, clock := some (now + e), rounds := r.rounds ++ [rr] }
    | none => { g := { members := rest r.g.members, toJoin := rr.joined }, clock := none, rounds := r.rounds ++ [rr] }

def terminateRounds (T : Option Nat) (c : Nat) : Nat → Run → Run
  | 0, r => r
  | n + 1, r => terminateRounds T c n (roundStep T c r)

def start (g : Group) : Run := { g := g, clock := some 0, rounds := [] }

/-- `Group.terminate(T)`: `members.length + 1` iterations always suffice when the via relation is acyclic -/
def terminate (T : Option Nat) (c : Nat) (g : Group) : Run :=
  terminateRounds T c (g.members.length + 1) (start g)

def finished (r : Run) : Bool := r.clock.isSome && !loopTest r.g

/-- the via relation has no cycle: ids can be ranked so that every member ranks above the member it is
proxied through (holds for every group built by `makegateway`: `via` must name an existing member) -/
def AcyclicVia (ms : List Member) : Prop :=
  ∃ rank : Nat → Nat, ∀ m ∈ ms, ∀ v, m.via = some v → v ∈ ms.map (·.id) → rank v < rank m.id

/-- exit sets per round (the member lists of the successive rounds), used for the ordering theorem -/
def exitRounds : Nat → List Member → List (List Member)
  | 0, _ => []
  | n + 1, ms => if ms.isEmpty then [] else leaves ms :: exitRounds n (rest ms)

end ExecnetVerif.Terminate
