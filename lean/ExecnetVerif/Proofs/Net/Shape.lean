/-
G3 `ShapeInv`: the shape of one channel record is preserved by every step of the `Net` model.
-/
import ExecnetVerif.Proofs.Net.ShapePlumbing
namespace ExecnetVerif.Net
open SP

/-! ### queues: items followed by ENDMARKERs -/

/-- `q` is items followed by `k` ENDMARKERs, `k = 0` iff `rc = false` -/
def QShape (q : List QItem) (rc : Bool) : Prop :=
  ∃ (items : List Item) (k : Nat),
    q = items.map QItem.item ++ List.replicate k QItem.endmarker ∧ (k = 0 ↔ rc = false)

theorem Chan.queueShape_iff (c : Chan) :
    c.QueueShape ↔ ∀ q, c.queue = some q → QShape q c.rclosed := Iff.rfl

theorem QShape.nil : QShape [] false := ⟨[], 0, rfl, by simp⟩

theorem QShape.pushEnd {q : List QItem} {rc : Bool} (h : QShape q rc) :
    QShape (q ++ [.endmarker]) true := by
  obtain ⟨items, k, rfl, _⟩ := h
  exact ⟨items, k + 1, by simp [List.replicate_succ'], by simp⟩

theorem QShape.pushItem {q : List QItem} (v : Item) (h : QShape q false) :
    QShape (q ++ [.item v]) false := by
  obtain ⟨items, k, rfl, hk⟩ := h
  have : k = 0 := hk.2 rfl
  subst this
  exact ⟨items ++ [v], 0, by simp, by simp⟩

theorem QShape.tail_item {v : Item} {q : List QItem} {rc : Bool} (h : QShape (.item v :: q) rc) :
    QShape q rc := by
  obtain ⟨items, k, he, hk⟩ := h
  cases items with
  | nil =>
    cases k with
    | zero => simp at he
    | succ k => simp [List.replicate_succ] at he
  | cons a t =>
    simp only [List.map_cons, List.cons_append, List.cons.injEq] at he
    exact ⟨t, k, he.2, hk⟩

/-- a queue whose head is an ENDMARKER consists of ENDMARKERs only -/
theorem QShape.head_end {q : List QItem} {rc : Bool} (h : QShape (.endmarker :: q) rc) :
    rc = true ∧ ∃ k, q = List.replicate k QItem.endmarker := by
  obtain ⟨items, k, he, hk⟩ := h
  cases items with
  | nil =>
    cases k with
    | zero => simp at he
    | succ k =>
      simp only [List.map_nil, List.nil_append, List.replicate_succ, List.cons.injEq, true_and] at he
      refine ⟨?_, k, he⟩
      cases rc <;> simp at hk ⊢
  | cons a t => simp at he

theorem QShape.rotate_end {q : List QItem} {rc : Bool} (h : QShape (.endmarker :: q) rc) :
    QShape (q ++ [.endmarker]) rc := by
  obtain ⟨hrc, k, rfl⟩ := h.head_end
  subst hrc
  exact ⟨[], k + 1, by simp [List.replicate_succ'], by simp⟩

theorem qItems_append (a b : List QItem) : qItems (a ++ b) = qItems a ++ qItems b := by
  induction a with
  | nil => rfl
  | cons x t ih => cases x <;> simp [qItems, ih]

@[simp] theorem qItems_map_item (items : List Item) : qItems (items.map QItem.item) = items := by
  induction items with
  | nil => rfl
  | cons x t ih => simp [qItems, ih]

@[simp] theorem qItems_replicate_end (k : Nat) : qItems (List.replicate k QItem.endmarker) = [] := by
  induction k with
  | zero => rfl
  | succ k ih => simp [List.replicate_succ, qItems, ih]

@[simp] theorem queueItems_none : queueItems none = [] := rfl
@[simp] theorem queueItems_some (q : List QItem) : queueItems (some q) = qItems q := rfl

@[simp] theorem queueItems_pushEnd (q : Option (List QItem)) :
    queueItems (pushEnd q) = queueItems q := by
  cases q <;> simp [pushEnd, qItems_append, qItems]

theorem QShape.qItems_head_end {q : List QItem} {rc : Bool} (h : QShape (.endmarker :: q) rc) :
    qItems (.endmarker :: q) = [] := by
  obtain ⟨_, k, rfl⟩ := h.head_end
  simp [qItems]

/-! ### one channel record -/

/-- the body of `ShapeInv` for one record -/
def Chan.Shape (c : Chan) : Prop :=
  c.QueueShape ∧
  (c.closed = true → c.rclosed = true) ∧
  (c.registered = true → c.created = true ∧ c.alive = true ∧ c.closed = false ∧ c.rclosed = false) ∧
  (c.alive = true → c.created = true) ∧
  (c.created = true → c.alive = true → c.registered = false → c.rclosed = true) ∧
  (c.executing = true → c.alive = true) ∧
  (c.created = false → c.queue = some [] ∧ c.closed = false ∧ c.rclosed = false ∧ c.rerrs = [] ∧ c.executing = false)

/-- all records of one side are well-shaped -/
def SideShape (x : SideSt) : Prop := ∀ id, (x.chans id).Shape

theorem ShapeInv_iff (st : State) : ShapeInv st ↔ ∀ p, SideShape (st.side p) := Iff.rfl

theorem sideShape_congr {x y : SideSt} (h : y.chans = x.chans) (hx : SideShape x) : SideShape y := by
  intro id; rw [h]; exact hx id

theorem sideShape_upd {x y : SideSt} {id : Nat} {c : Chan} (h : y.chans = upd x.chans id c)
    (hx : SideShape x) (hc : c.Shape) : SideShape y := by
  intro i; rw [h, upd_apply]; split
  · exact hc
  · exact hx i

theorem ShapeInv.set {st : State} (h : ShapeInv st) (s : Side) {x : SideSt} (hx : SideShape x) :
    ShapeInv (st.set s x) := by
  intro p; rw [State.side_set]; split
  · exact hx
  · exact h p

theorem shape_default : ({} : Chan).Shape := by
  refine ⟨?_, by simp, by simp, by simp, by simp, by simp, by simp⟩
  intro q hq; cases hq; exact QShape.nil

theorem shape_fresh : ({ created := true, registered := true, alive := true } : Chan).Shape := by
  refine ⟨?_, by simp, by simp, by simp, by simp, by simp, by simp⟩
  intro q hq; cases hq; exact QShape.nil

theorem shape_createChan {c : Chan} (h : c.Shape) : (createChan c).Shape := by
  unfold createChan; split
  · exact h
  · exact shape_fresh

theorem queueShape_pushEnd {c c' : Chan} (h : c.QueueShape) (hq : c'.queue = pushEnd c.queue)
    (hr : c'.rclosed = true) : c'.QueueShape := by
  intro q hq'
  rw [hq] at hq'
  cases hc : c.queue with
  | none => simp [hc, pushEnd] at hq'
  | some q0 =>
    simp only [hc, pushEnd, Option.map_some, Option.some.injEq] at hq'
    subst hq'; rw [hr]; exact QShape.pushEnd (h q0 hc)

/-- the generic "closing" transformation: ENDMARKER pushed, `rclosed`, unregistered -/
theorem shape_closing {c c' : Chan} (h : c.Shape) (hcr : c.created = true)
    (hq : c'.queue = pushEnd c.queue) (hr : c'.rclosed = true) (hreg : c'.registered = false)
    (h1 : c'.created = c.created) (h2 : c'.alive = c.alive) (h3 : c'.executing = c.executing) :
    c'.Shape := by
  obtain ⟨s1, s2, s3, s4, s5, s6, s7⟩ := h
  refine ⟨queueShape_pushEnd s1 hq hr, fun _ => hr, ?_, ?_, fun _ _ _ => hr, ?_, ?_⟩
  · simp [hreg]
  · rw [h1, h2]; exact s4
  · rw [h2, h3]; exact s6
  · rw [h1, hcr]; simp

theorem shape_closedRec {c : Chan} (h : c.Shape) (hcr : c.created = true) (err : Option Nat)
    (so : Bool) : (closedRec c err so).Shape :=
  shape_closing h hcr rfl rfl rfl rfl rfl rfl

theorem shape_userClosedRec {c : Chan} (h : c.Shape) (hcr : c.created = true) :
    (userClosedRec c).Shape :=
  shape_closing h hcr rfl rfl rfl rfl rfl rfl

theorem shape_eofRec {c : Chan} (h : c.Shape) (hcr : c.created = true) : (eofRec c).Shape :=
  shape_closing h hcr rfl rfl rfl rfl rfl rfl

/-- re-setting `registered := false` on a record that is not registered is the identity -/
theorem Chan.unregister_of_not_registered {c : Chan} (h : c.registered = false) :
    { c with registered := false } = c := by
  cases c; simp_all

/-! ### helpers preserve `SideShape` -/

theorem sideShape_createAt {x : SideSt} (h : SideShape x) (id : Nat) : SideShape (createAt x id) := by
  intro i; rw [createAt_chans]; split
  · exact shape_createChan (h id)
  · exact h i

theorem sideShape_registerAll {x : SideSt} (h : SideShape x) (ids : List Nat) :
    SideShape (registerAll x ids) :=
  registerAll_induction (P := SideShape) (fun _ id hx => sideShape_createAt hx id) x ids h

theorem sideShape_localClose {x : SideSt} (h : SideShape x) (id : Nat) (err : Option Nat) (so : Bool) :
    SideShape (localClose x id err so) := by
  intro i; rw [localClose_chans]; split
  · split
    · next hr => exact shape_closedRec (h id) ((h id).2.2.1 hr).1 err so
    · next hr =>
      rw [Chan.unregister_of_not_registered (by simpa using hr)]; exact h id
  · exact h i

theorem sideShape_chanClose {x : SideSt} (h : SideShape x) (id : Nat) (err : Option Nat)
    (ha : (x.chans id).alive = true) : SideShape (chanClose x id err).2 := by
  intro i
  rcases chanClose_chans x id err i with h1 | ⟨_, h1⟩ <;> rw [h1]
  · exact h i
  · exact shape_userClosedRec (h id) ((h id).2.2.2.1 ha)

theorem sideShape_epilogue {x : SideSt} (h : SideShape x) (b : Bool) : SideShape (epilogue x b) := by
  intro i; rw [epilogue_chans]; split
  · next hr => exact shape_eofRec (h i) ((h i).2.2.1 hr).1
  · exact h i

/-- a transformation that keeps the flags and leaves a well-shaped queue -/
theorem shape_modify {c c' : Chan} (h : c.Shape) (hcr : c.created = true) (hq : c'.QueueShape)
    (h1 : c'.created = c.created) (h2 : c'.alive = c.alive) (h3 : c'.registered = c.registered)
    (h4 : c'.closed = c.closed) (h5 : c'.rclosed = c.rclosed)
    (h6 : c'.executing = true → c'.alive = true) : c'.Shape := by
  obtain ⟨s1, s2, s3, s4, s5, s6, s7⟩ := h
  refine ⟨hq, ?_, ?_, ?_, ?_, h6, ?_⟩
  · rw [h4, h5]; exact s2
  · rw [h1, h2, h3, h4, h5]; exact s3
  · rw [h1, h2]; exact s4
  · rw [h1, h2, h3, h5]; exact s5
  · rw [h1, hcr]; simp

theorem shape_pushItem {c : Chan} (h : c.Shape) (hr : c.registered = true) (v : Item) :
    ({ c with queue := c.queue.map (· ++ [.item v]) } : Chan).Shape := by
  have h3 := h.2.2.1 hr
  refine shape_modify h h3.1 ?_ rfl rfl rfl rfl rfl h.2.2.2.2.2.1
  intro q hq
  cases hc : c.queue with
  | none => simp [hc] at hq
  | some q0 =>
    simp only [hc, Option.map_some, Option.some.injEq] at hq
    subst hq
    have := h.1 q0 hc
    rw [h3.2.2.2] at this
    show QShape _ c.rclosed
    rw [h3.2.2.2]
    exact QShape.pushItem v this

/-! ### the receiver -/

theorem sideShape_handle {x : SideSt} (h : SideShape x) (fails : Item → Bool) (w : Bool) (f : Frame) :
    SideShape (handle fails x w f) := by
  cases f with
  | data id v =>
    simp only [handle]
    split
    · have h1 : SideShape (registerAll { x with delivered := upd x.delivered id (x.delivered id ++ [v]) } v.chans) :=
        sideShape_registerAll (by exact sideShape_congr rfl h) _
      split
      · split
        · exact sideShape_localClose (by exact sideShape_congr rfl h1) _ _ _
        · exact sideShape_epilogue (by exact sideShape_congr rfl h1) false
      · exact sideShape_congr rfl h1
    · split
      · next hr hq =>
        have h0 : SideShape { x with delivered := upd x.delivered id (x.delivered id ++ [v]) } := sideShape_congr rfl h
        have h1 := sideShape_registerAll h0 v.chans
        have h2 := (registerAll_of_registered { x with delivered := upd x.delivered id (x.delivered id ++ [v]) } v.chans id hr).1
        refine sideShape_upd rfl h1 ?_
        apply shape_pushItem (h1 id)
        rw [h2]; exact hr
      · exact sideShape_congr rfl h
  | close id => exact sideShape_localClose (by exact sideShape_congr rfl h) _ _ _
  | closeErr id e => exact sideShape_localClose (by exact sideShape_congr rfl h) _ _ _
  | lastMsg id => exact sideShape_localClose (by exact sideShape_congr rfl h) _ _ _
  | exec id =>
    simp only [handle]
    split
    · have h1 := sideShape_createAt h id
      refine sideShape_upd rfl h1 ?_
      have hreg : ((createAt x id).chans id).registered = true := by
        rw [createAt_chans, if_pos rfl, createChan]; split <;> simp_all
      exact shape_modify (h1 id) ((h1 id).2.2.1 hreg).1 (h1 id).1 rfl rfl rfl rfl rfl
        (fun _ => ((h1 id).2.2.1 hreg).2.1)
    · exact h
  | terminate => exact sideShape_epilogue h false

/-! ### every step preserves `ShapeInv` -/

theorem ShapeInv.set_congr {st : State} (h : ShapeInv st) (s : Side) {x : SideSt}
    (hx : x.chans = (st.side s).chans) : ShapeInv (st.set s x) :=
  h.set s (sideShape_congr hx (h s))

theorem ShapeInv.set_upd {st : State} (h : ShapeInv st) (s : Side) {x : SideSt} {id : Nat} {c : Chan}
    (hx : x.chans = upd (st.side s).chans id c) (hc : c.Shape) : ShapeInv (st.set s x) :=
  h.set s (sideShape_upd hx (h s) hc)

theorem ShapeInv_newchannel (fails : Item → Bool) (st : State) (s : Side) (h : ShapeInv st) :
    ShapeInv (step fails st (.newchannel s)).2 := by
  simp only [step]; split
  · exact h
  · exact h.set s (sideShape_congr rfl (sideShape_createAt (h s) _))

theorem ShapeInv_remoteExec (fails : Item → Bool) (st : State) (h : ShapeInv st) :
    ShapeInv (step fails st .remoteExec).2 := by
  simp only [step]; split
  · exact h
  · split
    · exact h.set_congr .A rfl
    · exact h.set .A (sideShape_congr rfl (sideShape_createAt (h .A) _))

theorem ShapeInv_send (fails : Item → Bool) (st : State) (s : Side) (id : Nat) (v : Item)
    (h : ShapeInv st) : ShapeInv (step fails st (.send s id v)).2 := by
  simp only [step]
  split; · exact h
  split; · exact h
  split; · exact h
  exact h.set_congr s rfl

theorem ShapeInv_close (fails : Item → Bool) (st : State) (s : Side) (id : Nat) (err : Option Nat)
    (h : ShapeInv st) : ShapeInv (step fails st (.close s id err)).2 := by
  simp only [step]
  split; · exact h
  next ha => exact h.set s (sideShape_chanClose (h s) id err (by simpa using ha))

theorem ShapeInv_receive (fails : Item → Bool) (st : State) (s : Side) (id : Nat)
    (h : ShapeInv st) : ShapeInv (step fails st (.receive s id)).2 := by
  simp only [step]
  split; · exact h
  next ha =>
  have ha : ((st.side s).chans id).alive = true := by simpa using ha
  have hc := h s id
  have hcr := hc.2.2.2.1 ha
  split
  · exact h
  · exact h
  · next v q hq =>
    refine h.set_upd s rfl (shape_modify hc hcr ?_ rfl rfl rfl rfl rfl hc.2.2.2.2.2.1)
    intro q' hq'; cases hq'; exact QShape.tail_item (hc.1 _ hq)
  · next q hq =>
    have hrot : ∀ r, ({ (st.side s).chans id with queue := some (q ++ [.endmarker]), rerrs := r } : Chan).Shape := by
      intro r
      refine shape_modify hc hcr ?_ rfl rfl rfl rfl rfl hc.2.2.2.2.2.1
      intro q' hq'; cases hq'; exact QShape.rotate_end (hc.1 _ hq)
    split
    · exact h.set_upd s rfl (hrot _)
    · next hr =>
      refine h.set_upd s rfl ?_
      have := hrot []
      rw [← hr] at this
      exact this

theorem ShapeInv_waitclose (fails : Item → Bool) (st : State) (s : Side) (id : Nat)
    (h : ShapeInv st) : ShapeInv (step fails st (.waitclose s id)).2 := by
  simp only [step]
  split; · exact h
  next ha =>
  have ha : ((st.side s).chans id).alive = true := by simpa using ha
  have hc := h s id
  split; · exact h
  split
  · exact h.set_upd s rfl (shape_modify hc (hc.2.2.2.1 ha) hc.1 rfl rfl rfl rfl rfl hc.2.2.2.2.2.1)
  · split <;> exact h

theorem ShapeInv_setcallback (fails : Item → Bool) (st : State) (s : Side) (id : Nat) (w : Bool)
    (h : ShapeInv st) : ShapeInv (step fails st (.setcallback s id w)).2 := by
  simp only [step]
  split; · exact h
  next ha =>
  have ha : ((st.side s).chans id).alive = true := by simpa using ha
  have hc := h s id
  have hn : ({ (st.side s).chans id with queue := none } : Chan).Shape :=
    shape_modify hc (hc.2.2.2.1 ha) (fun q hq => by cases hq) rfl rfl rfl rfl rfl hc.2.2.2.2.2.1
  split
  · exact h
  · split <;> first | exact h.set_upd s rfl hn | (split <;> first | exact h.set_upd s rfl hn | (split <;> exact h.set_upd s rfl hn))

theorem ShapeInv_drop (fails : Item → Bool) (st : State) (s : Side) (id : Nat)
    (h : ShapeInv st) : ShapeInv (step fails st (.drop s id)).2 := by
  simp only [step]
  split; · exact h
  next ha =>
  have hc := h s id
  have hn : ({ (st.side s).chans id with alive := false, registered := false } : Chan).Shape := by
    obtain ⟨s1, s2, s3, s4, s5, s6, s7⟩ := hc
    refine ⟨s1, s2, by simp, by simp, by simp, ?_, s7⟩
    intro he
    have he : ((st.side s).chans id).executing = true := he
    simp [he] at ha
  split
  · exact h.set_upd s rfl hn
  · exact h.set_upd s rfl hn

theorem ShapeInv_isclosed (fails : Item → Bool) (st : State) (s : Side) (id : Nat)
    (h : ShapeInv st) : ShapeInv (step fails st (.isclosed s id)).2 := by
  simp only [step]; split <;> exact h

theorem ShapeInv_deliver (fails : Item → Bool) (st : State) (p : Side)
    (h : ShapeInv st) : ShapeInv (step fails st (.deliver p)).2 := by
  simp only [step]
  split; · exact h
  split; · exact h
  next f rest hout =>
  have h1 : ShapeInv (st.set p.peer { st.side p.peer with out := rest }) := h.set_congr p.peer rfl
  have h2 := h1.set p (sideShape_handle (h1 p) fails (p == .B) f)
  split
  · exact h2.set_congr p.peer rfl
  · exact h2

theorem ShapeInv_execFinish (fails : Item → Bool) (st : State) (id : Nat) (o : Outcome)
    (h : ShapeInv st) : ShapeInv (step fails st (.execFinish id o)).2 := by
  simp only [step]
  split; · exact h
  next he =>
  have he : (st.b.chans id).executing = true := by simpa using he
  have hc := h .B id
  have ha := hc.2.2.2.2.2.1 he
  have hx : SideShape { st.b with chans := upd st.b.chans id { st.b.chans id with executing := false } } :=
    sideShape_upd rfl (h .B)
      (shape_modify hc (hc.2.2.2.1 ha) hc.1 rfl rfl rfl rfl rfl (fun h => by simp at h))
  exact h.set .B (sideShape_chanClose hx id _ (by simpa using ha))

theorem ShapeInv_cut (fails : Item → Bool) (st : State) (p : Side)
    (h : ShapeInv st) : ShapeInv (step fails st (.cut p)).2 := by
  simp only [step]
  split; · exact h
  exact (h.set p (sideShape_epilogue (h p) true)).set_congr p.peer rfl

/-- every step preserves the record shape -/
theorem ShapeInv_step (fails : Item → Bool) (st : State) (op : Op) :
    ShapeInv st → ShapeInv (step fails st op).2 := by
  intro h
  cases op with
  | newchannel s => exact ShapeInv_newchannel fails st s h
  | remoteExec => exact ShapeInv_remoteExec fails st h
  | send s id v => exact ShapeInv_send fails st s id v h
  | close s id err => exact ShapeInv_close fails st s id err h
  | receive s id => exact ShapeInv_receive fails st s id h
  | waitclose s id => exact ShapeInv_waitclose fails st s id h
  | setcallback s id w => exact ShapeInv_setcallback fails st s id w h
  | drop s id => exact ShapeInv_drop fails st s id h
  | isclosed s id => exact ShapeInv_isclosed fails st s id h
  | deliver p => exact ShapeInv_deliver fails st p h
  | execFinish id o => exact ShapeInv_execFinish fails st id o h
  | cut p => exact ShapeInv_cut fails st p h

theorem ShapeInv_init : ShapeInv init := by
  intro p id
  cases p <;> exact shape_default

theorem ShapeInv_reachable {fails : Item → Bool} {st : State} (h : Reachable fails st) : ShapeInv st :=
  Reachable.induction (P := ShapeInv) ShapeInv_init (fun st op _ hs => ShapeInv_step fails st op hs) st h

end ExecnetVerif.Net
