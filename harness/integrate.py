"""Integrate a work package built in /var/tmp/wp-<x>/verif into /verif (new files + merged registries)."""
import json
import os
import subprocess
import sys

wp = sys.argv[1]
src = f"/var/tmp/{wp}/verif"
dst = "/verif"


def sh(cmd, cwd=dst, check=True):
    print("$", cmd)
    return subprocess.run(cmd, shell=True, cwd=cwd, check=check)


base = subprocess.run("git merge-base HEAD FETCH_HEAD", shell=True, cwd=dst, stdout=subprocess.PIPE).stdout.decode().strip() if False else None
sh(f"git fetch -q {src} HEAD")
changed = subprocess.run("git diff --name-status $(git merge-base HEAD FETCH_HEAD) FETCH_HEAD", shell=True, cwd=dst, stdout=subprocess.PIPE).stdout.decode().split("\n")
shared = {"harness/obligations.json", "harness/registry.json", "known_findings.json", "lean/ExecnetVerif.lean", "lean/Driver/Main.lean", "MANIFEST.json"}
for line in changed:
    if not line.strip():
        continue
    st, _, path = line.partition("\t")
    if path in shared:
        continue
    if st.startswith("D"):
        continue
    # new or modified non-shared file: take theirs (warn if we also modified it)
    ours_changed = subprocess.run(f"git diff --quiet $(git merge-base HEAD FETCH_HEAD) HEAD -- '{path}'", shell=True, cwd=dst).returncode != 0
    if ours_changed and st.startswith("M") and "Generated/" in path:
        continue
    if ours_changed and st.startswith("M"):
        # three-way merge
        import tempfile
        b = tempfile.NamedTemporaryFile(delete=False); b.write(subprocess.run(f"git show $(git merge-base HEAD FETCH_HEAD):'{path}'", shell=True, cwd=dst, stdout=subprocess.PIPE).stdout); b.close()
        t = tempfile.NamedTemporaryFile(delete=False); t.write(subprocess.run(f"git show FETCH_HEAD:'{path}'", shell=True, cwd=dst, stdout=subprocess.PIPE).stdout); t.close()
        rc = subprocess.run(["git", "merge-file", os.path.join(dst, path), b.name, t.name]).returncode
        print("three-way merged", path, "conflicts:" if rc else "clean", rc)
        continue
        print("!! both modified:", path, "-> keeping ours, theirs saved as", path + "." + wp)
        os.makedirs(os.path.dirname(os.path.join(dst, path)), exist_ok=True)
        with open(os.path.join(dst, path + "." + wp), "wb") as f:
            f.write(subprocess.run(f"git show FETCH_HEAD:'{path}'", shell=True, cwd=dst, stdout=subprocess.PIPE).stdout)
        continue
    os.makedirs(os.path.dirname(os.path.join(dst, path)) or dst, exist_ok=True)
    with open(os.path.join(dst, path), "wb") as f:
        f.write(subprocess.run(f"git show FETCH_HEAD:'{path}'", shell=True, cwd=dst, stdout=subprocess.PIPE).stdout)
    if path in ("check", "setup.sh"):
        os.chmod(os.path.join(dst, path), 0o755)
    print("took", path)


def theirs(path):
    return subprocess.run(f"git show FETCH_HEAD:{path}", shell=True, cwd=dst, stdout=subprocess.PIPE).stdout.decode()


for jf in ("harness/obligations.json", "harness/registry.json"):
    a = json.load(open(os.path.join(dst, jf)))
    b = json.loads(theirs(jf))
    for k, v in b.items():
        if k not in a:
            a[k] = v
            print("added", jf, k)
    json.dump(a, open(os.path.join(dst, jf), "w"), indent=1)
a = json.load(open(os.path.join(dst, "known_findings.json")))
b = json.loads(theirs("known_findings.json"))
ids = {(e["property"], e["id"]) for e in a["findings"]}
for e in b["findings"]:
    if (e["property"], e["id"]) not in ids:
        a["findings"].append(e)
        print("added finding", e["property"], e["id"])
json.dump(a, open(os.path.join(dst, "known_findings.json"), "w"), indent=1)
# imports
ours = open(os.path.join(dst, "lean/ExecnetVerif.lean")).read().split("\n")
for line in theirs("lean/ExecnetVerif.lean").split("\n"):
    if line.startswith("import ") and line not in ours:
        ours.insert(len([l for l in ours if l.strip()]), line)
        print("added", line)
open(os.path.join(dst, "lean/ExecnetVerif.lean"), "w").write("\n".join([l for l in ours if l.strip()]) + "\n")
print("NOTE: merge lean/Driver/Main.lean by hand:")
print(theirs("lean/Driver/Main.lean")[:800])
