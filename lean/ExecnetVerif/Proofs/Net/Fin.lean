/-
G6 `FinInv`: once the receiver of a side has finished (connection loss `cut`, GATEWAY_TERMINATE, or a
callback failing after the IO was closed), its IO is closed, nothing is registered any more and every channel object that is still alive is
`rclosed`.  Corollaries C04: operations are refused / never block after the receiver finished.
-/
import ExecnetVerif.Proofs.Net.ClosePlumbing
namespace ExecnetVerif.Net
open CP

/-- `FinInv` for one side -/
def FinSide (x : SideSt) : Prop :=
  x.finished = true →
    x.ioOpen = false ∧ ∀ id, (x.chans id).registered = false ∧ x.cbs id = none ∧
      ((x.chans id).alive = true → (x.chans id).rclosed = true)

theorem FinInv_iff (st : State) : FinInv st ↔ ∀ p, FinSide (st.side p) := Iff.rfl

theorem FinSide_of_not_finished {x : SideSt} (h : x.finished = false) : FinSide x := by
  intro h'; simp [h] at h'

theorem FinInv_set {st : State} (s : Side) {x' : SideSt} (hF : FinInv st) (hx : FinSide x') :
    FinInv (st.set s x') := by
  intro q
  show FinSide _
  rcases eq_or_peer s q with rfl | rfl
  · rw [side_set_same]; exact hx
  · rw [side_set_peer]; exact hF _

theorem FinInv_set2 {st : State} (s : Side) {x' y' : SideSt} (hx : FinSide x') (hy : FinSide y') :
    FinInv ((st.set s x').set s.peer y') := by
  intro q
  show FinSide _
  rcases eq_or_peer s q with rfl | rfl
  · rw [side_peer_set, side_set_same]; exact hx
  · rw [side_set_same]; exact hy

theorem FinSide_ioOpen_false {y : SideSt} (h : FinSide y) : FinSide { y with ioOpen := false } := by
  intro hf
  exact ⟨rfl, (h hf).2⟩

theorem FinSide_out {y : SideSt} (h : FinSide y) (o : List Frame) : FinSide { y with out := o } := h

theorem FinInv_init : FinInv init := by
  intro p; cases p <;> intro _ h <;> exact absurd h (by decide)

/-- the record-shape facts used below -/
theorem shape_alive_rclosed {st : State} (hS : ShapeInv st) (p : Side) (id : Nat)
    (ha : ((st.side p).chans id).alive = true) (hr : ((st.side p).chans id).registered = false) :
    ((st.side p).chans id).rclosed = true := by
  have h := hS p id
  exact h.2.2.2.2.1 (h.2.2.2.1 ha) ha hr

/-- the epilogue establishes `FinSide` -/
theorem FinSide_epilogue {x : SideSt} (isCut : Bool)
    (hS : ∀ id, (x.chans id).alive = true → (x.chans id).registered = false → (x.chans id).rclosed = true) :
    FinSide (epilogue x isCut) := by
  intro _
  refine ⟨rfl, fun id => ?_⟩
  rw [epilogue_chans]
  by_cases hr : (x.chans id).registered = true
  · simp [hr]
  · simp only [Bool.not_eq_true] at hr
    simp only [hr, Bool.false_eq_true, if_false, epilogue_cbs, true_and]
    exact fun ha => hS id ha hr

theorem FinSide_chanClose {x : SideSt} (id : Nat) (err : Option Nat) (h : FinSide x) :
    FinSide (chanClose x id err).2 := by
  intro hf
  rw [chanClose_finished] at hf
  obtain ⟨hio, hall⟩ := h hf
  refine ⟨by simpa using hio, fun j => ?_⟩
  by_cases hj : j = id
  · subst hj
    rw [chanClose_eq]
    split
    · exact hall j
    · split
      · exact hall j
      · rw [doClose_eq]
        split
        · exact hall j
        · split <;> simp
  · rw [chanClose_chans_ne _ _ _ hj, chanClose_cbs_ne _ _ _ hj]; exact hall j

theorem FinSide_handle (fails : Item → Bool) {x : SideSt} (w : Bool) (f : Frame) (hf : x.finished = false)
    (hS : ∀ id, (x.chans id).alive = true → (x.chans id).registered = false → (x.chans id).rclosed = true) :
    FinSide (handle fails x w f) := by
  cases he : endsReceiver fails x f
  · exact FinSide_of_not_finished (by rw [handle_finished fails x w f he]; exact hf)
  · rcases handle_of_endsReceiver fails x w f he with h | ⟨id, v, _, h⟩ <;> rw [h]
    · exact FinSide_epilogue false hS
    · -- a failing callback after the IO was closed: the epilogue runs on the state in which the
      -- channels contained in the item have been registered
      refine FinSide_epilogue false (fun j ha hr => ?_)
      rw [cbAccept_chans] at ha hr ⊢
      rcases registerAll_chans_cases (dataPre x id v) v.chans j with h1 | h1
      · rw [h1] at ha hr ⊢; exact hS j ha hr
      · rw [h1] at hr; cases hr

theorem FinInv_step (fails : Item → Bool) (st : State) (op : Op) :
    ShapeInv st → FinInv st → FinInv (step fails st op).2 := by
  intro hS hF
  cases op with
  | newchannel s =>
    simp only [step]
    split
    · exact hF
    · rename_i hfin
      exact FinInv_set s hF (FinSide_of_not_finished (by simpa using hfin))
  | remoteExec =>
    simp only [step]
    split
    · exact hF
    · rename_i hfin
      split
      · exact FinInv_set .A hF (FinSide_of_not_finished (by simpa using hfin))
      · exact FinInv_set .A hF (FinSide_of_not_finished (by simpa using hfin))
  | send s id v =>
    simp only [step]
    split
    · exact hF
    · split
      · exact hF
      · split
        · exact hF
        · exact FinInv_set s hF (hF s)
  | close s id err =>
    simp only [step]
    split
    · exact hF
    · exact FinInv_set s hF (FinSide_chanClose id err (hF s))
  | receive s id =>
    simp only [step]
    split
    · exact hF
    · split
      · exact hF
      · exact hF
      · refine FinInv_set s hF ?_
        intro hf
        obtain ⟨hio, hall⟩ := hF s hf
        refine ⟨hio, fun j => ?_⟩
        by_cases hj : j = id
        · subst hj; simpa using hall j
        · simpa [upd_ne, hj] using hall j
      · split
        all_goals
          refine FinInv_set s hF ?_
          intro hf
          obtain ⟨hio, hall⟩ := hF s hf
          refine ⟨hio, fun j => ?_⟩
          by_cases hj : j = id
          · subst hj; simpa using hall j
          · simpa [upd_ne, hj] using hall j
  | waitclose s id =>
    simp only [step]
    split
    · exact hF
    · split
      · exact hF
      · split
        · refine FinInv_set s hF ?_
          intro hf
          obtain ⟨hio, hall⟩ := hF s hf
          refine ⟨hio, fun j => ?_⟩
          by_cases hj : j = id
          · subst hj; simpa using hall j
          · simpa [upd_ne, hj] using hall j
        · split <;> exact hF
  | setcallback s id w =>
    simp only [step]
    split
    · exact hF
    · rename_i halive
      split
      · exact hF
      · split
        all_goals (try split)
        all_goals (try split)
        all_goals
          refine FinInv_set s hF ?_
          intro hf
          obtain ⟨hio, hall⟩ := hF s hf
          refine ⟨hio, fun j => ?_⟩
          by_cases hj : j = id
          · subst hj
            have := hall j
            simp_all
          · simpa [upd_ne, hj] using hall j
  | drop s id =>
    simp only [step]
    split
    · exact hF
    · split
      all_goals
        refine FinInv_set s hF ?_
        intro hf
        obtain ⟨hio, hall⟩ := hF s hf
        refine ⟨hio, fun j => ?_⟩
        by_cases hj : j = id
        · subst hj; simpa using (hall j).2.1
        · simpa [upd_ne, hj] using hall j
  | isclosed s id =>
    simp only [step]
    split <;> exact hF
  | deliver p =>
    simp only [step]
    split
    · exact hF
    · rename_i hfin
      split
      · exact hF
      · rename_i f rest hout
        have hx : FinSide (handle fails (st.side p) (p == .B) f) :=
          FinSide_handle fails _ f (by simpa using hfin)
            (fun id ha hr => shape_alive_rclosed hS p id ha hr)
        have hy : FinSide { st.side p.peer with out := rest } := FinSide_out (hF p.peer) rest
        split
        · have := FinInv_set2 (st := st.set p.peer { st.side p.peer with out := rest }) p hx
            (FinSide_ioOpen_false hy)
          simpa using this
        · have := FinInv_set (st := st.set p.peer { st.side p.peer with out := rest }) p
            (FinInv_set p.peer hF hy) hx
          simpa using this
  | execFinish id o =>
    simp only [step]
    split
    · exact hF
    · refine FinInv_set .B hF (FinSide_chanClose id _ ?_)
      intro hf
      obtain ⟨hio, hall⟩ := hF .B hf
      refine ⟨hio, fun j => ?_⟩
      by_cases hj : j = id
      · subst hj; simpa using hall j
      · simpa [upd_ne, hj] using hall j
  | cut p =>
    simp only [step]
    split
    · exact hF
    · have hx : FinSide (epilogue (st.side p) true) :=
        FinSide_epilogue true (fun id ha hr => shape_alive_rclosed hS p id ha hr)
      have := FinInv_set2 (st := st) p hx (FinSide_ioOpen_false (hF p.peer))
      simpa using this

theorem FinInv_reachable (fails : Item → Bool) (hShape : ∀ st, Reachable fails st → ShapeInv st) :
    ∀ st, Reachable fails st → FinInv st :=
  Reachable.induction FinInv_init (fun st op hr h => FinInv_step fails st op (hShape st hr) h)

/-! ### C04 -/

/-- C04: after the receiver finished, new channels, remote execs and sends are refused -/
theorem C04_refuse (fails : Item → Bool) (st : State) (p : Side) :
    FinInv st → (st.side p).finished = true →
      (step fails st (.newchannel p)).1 = .osError ∧
      (p = .A → (step fails st .remoteExec).1 = .osError) ∧
      (∀ id v, (step fails st (.send p id v)).1 = .osError ∨ (step fails st (.send p id v)).1 = .notEnabled) := by
  intro hF hf
  have hio := (hF p hf).1
  refine ⟨by simp [step, hf], ?_, ?_⟩
  · rintro rfl
    have : st.a.finished = true := hf
    simp [step, hf]
  · intro id v
    simp only [step]
    split
    · exact Or.inr rfl
    · split
      · exact Or.inl rfl
      · simp [hio]

/-- C04: after the receiver finished, `receive` and `waitclose` never block -/
theorem C04_no_block (fails : Item → Bool) (st : State) (p : Side) (id : Nat) :
    ShapeInv st → FinInv st → (st.side p).finished = true → ((st.side p).chans id).alive = true →
      (step fails st (.receive p id)).1 ≠ .wouldBlock ∧ (step fails st (.waitclose p id)).1 ≠ .wouldBlock := by
  intro hS hF hf ha
  have hrc := ((hF p hf).2 id).2.2 ha
  have hq := (hS p id).1
  constructor
  · simp only [step, ha]
    cases hqq : ((st.side p).chans id).queue with
    | none => simp
    | some q =>
      cases q with
      | nil =>
        obtain ⟨items, k, h1, h2⟩ := hq [] hqq
        exfalso
        have hk : k ≠ 0 := fun h0 => by simp [h2.1 h0] at hrc
        cases k with
        | zero => exact hk rfl
        | succ k => simp [List.replicate_succ] at h1
      | cons a q =>
        cases a with
        | item v => simp
        | endmarker =>
          simp only [Bool.not_true, Bool.false_eq_true, if_false]
          split <;> simp
  · simp only [step, ha, hrc]
    simp only [Bool.not_true, Bool.false_eq_true, if_false]
    split
    · simp
    · split <;> simp

/-- C04: with the gateway error set (connection lost), `waitclose` on a remotely closed channel with no
pending remote error raises EOFError -/
theorem C04_eof_after_cut (fails : Item → Bool) (st : State) (p : Side) (id : Nat) :
    (st.side p).gwerr = true → ((st.side p).chans id).alive = true →
    ((st.side p).chans id).rclosed = true → ((st.side p).chans id).rerrs = [] →
      (step fails st (.waitclose p id)).1 = .eofError := by
  intro hg ha hr he
  simp [step, ha, hr, he, hg]

/-- `cut p` (when enabled) sets the gateway error of `p` -/
theorem gwerr_of_cut (fails : Item → Bool) (st : State) (p : Side) :
    (st.side p).finished = false → ((step fails st (.cut p)).2.side p).gwerr = true := by
  intro hf
  simp [step, hf]

/-- after `cut p` the receiver of `p` is finished, so `FinInv` applies to `p` from then on -/
theorem finished_of_cut (fails : Item → Bool) (st : State) (p : Side) :
    (st.side p).finished = false → ((step fails st (.cut p)).2.side p).finished = true := by
  intro hf
  simp [step, hf]

/-- `finished` is never reset -/
theorem finished_mono (fails : Item → Bool) (st : State) (op : Op) (p : Side) :
    (st.side p).finished = true → ((step fails st op).2.side p).finished = true := by
  intro hf
  have key : ∀ (s : Side) (x' : SideSt), ((st.side s).finished = true → x'.finished = true) →
      ((st.set s x').side p).finished = true := by
    intro s x' h
    rcases eq_or_peer s p with rfl | rfl
    · rw [side_set_same]; exact h hf
    · rw [side_set_peer]; exact hf
  cases op with
  | newchannel s => simp only [step]; split <;> first | exact hf | exact key _ _ (by simp_all)
  | remoteExec => simp only [step]; split <;> (try split) <;> first | exact hf | exact key .A _ (by simp_all)
  | send s id v => simp only [step]; split <;> (try split) <;> (try split) <;> first | exact hf | exact key _ _ (fun h => h)
  | close s id err => simp only [step]; split <;> first | exact hf | exact key _ _ (by simp)
  | receive s id =>
    simp only [step]; split <;> (try split) <;> (try split) <;> first | exact hf | exact key _ _ (fun h => h)
  | waitclose s id =>
    simp only [step]; split <;> (try split) <;> (try split) <;> (try split) <;> first | exact hf | exact key _ _ (fun h => h)
  | setcallback s id w =>
    simp only [step]; split <;> (try split) <;> (try split) <;> (try split) <;> (try split) <;>
      first | exact hf | exact key _ _ (fun h => h)
  | drop s id => simp only [step]; split <;> (try split) <;> first | exact hf | exact key _ _ (fun h => h)
  | isclosed s id => simp only [step]; split <;> exact hf
  | deliver q =>
    simp only [step]
    split
    · exact hf
    · split
      · exact hf
      · rename_i hq f rest hout
        split
        · rcases eq_or_peer q p with rfl | rfl
          · simp_all
          · simpa using hf
        · rcases eq_or_peer q p with rfl | rfl
          · simp_all
          · simpa using hf
  | execFinish id o => simp only [step]; split <;> first | exact hf | exact key .B _ (by simp)
  | cut q =>
    simp only [step]
    split
    · exact hf
    · rcases eq_or_peer q p with rfl | rfl
      · simp
      · simpa using hf

end ExecnetVerif.Net
