"""Regenerate MANIFEST.json from harness/registry.json (kept valid at all times)."""
import json
import os

HERE = os.path.dirname(os.path.dirname(os.path.abspath(__file__)))
reg = json.load(open(os.path.join(HERE, "harness", "registry.json")))
props = [json.loads(l)["id"] for l in open(os.path.join(HERE, "properties.jsonl"))]
baseline = json.load(open("/root/.vp/BASELINE.json"))["cmd"] if os.path.exists("/root/.vp/BASELINE.json") else \
    "cd /repo && /venv/bin/python -m pytest -ra -q -p no:cacheprovider --timeout=900 --continue-on-collection-errors --junitxml=<file>"
checks = []
na = []
for pid in props:
    e = reg.get(pid)
    if not e or not e.get("claimed"):
        na.append({"property_id": pid, "reason": (e or {}).get("reason", "check not built yet (work in progress; see DESIGN.md §7)")})
        continue
    checks.append({
        "property_id": pid,
        "quick_cmd": f"./check {pid} --tier quick",
        "thorough_cmd": f"./check {pid} --tier thorough",
        "evidence_file": f"evidence/{pid}.json",
        "replay_cmd_template": f"./check {pid} --replay {{path}}",
        "engine": "lean-proof+correspondence",
        "level_claimed": {"category": "proof", "text": e["text"], "design_ref": f"DESIGN.md §4 {pid}"},
        "level_note": e["note"],
        "technique": e["technique"],
    })
m = {
    "version": 1,
    "setup_cmd": "./setup.sh",
    "hooks": {
        "guard": "EXECNET_VERIF",
        "enable": "no source hook exists: the harness substitutes execnet's own ExecModel/IO seams from outside (DESIGN.md §1.3); checks export EXECNET_VERIF=1 and PYTHONPATH=/repo/src",
        "baseline_off_cmd": baseline,
        "source_commits": [],
        "add_only": True,
    },
    "engines": [
        {"name": "lean-proof", "path": "lean/", "serves_properties": [c["property_id"] for c in checks],
         "kind_free_text": "Lean 4 library: executable models (Model/), helper lemmas (Proofs/), property theorems (Props/), audited with #print axioms"},
        {"name": "translator", "path": "translator/extract.py", "serves_properties": [c["property_id"] for c in checks],
         "kind_free_text": "regenerates Generated/*.lean (constants, tables) from /repo's working tree on every run"},
        {"name": "correspondence", "path": "harness/", "serves_properties": [c["property_id"] for c in checks],
         "kind_free_text": "differential execution of the real code against the native model driver + model-free property oracles"},
    ],
    "checks": checks,
    "notes": "Machine-checked proof in Lean 4 over hand-written models tied to /repo by correspondence checks and regenerated tables. See DESIGN.md.",
    "not_applicable": na,
}
json.dump(m, open(os.path.join(HERE, "MANIFEST.json"), "w"), indent=1)
print("claimed:", [c["property_id"] for c in checks], "unclaimed:", len(na))
