/-
C17 helpers: facts about `expect` (look-ups, idempotence, soundness of the quick check on a synced
tree, nothing to send), delete / no-delete readings, independence of targets.
-/
import ExecnetVerif.Proofs.RsyncExpect
namespace ExecnetVerif.Rsync
open ExecnetVerif.Path

theorem names_expectL (sd dest : RawPath) (del : Bool) (tes : Entries) : ∀ (es : List (Name × Tree)),
    names (expectL sd dest del es tes) = es.map Prod.fst
  | [] => rfl
  | (n, s) :: r => by simp [expectL, names, ← names_expectL sd dest del tes r]

/-- looking a name up in the listed part of an expected directory (first binding on both sides) -/
theorem lookup_expectL (sd dest : RawPath) (del : Bool) (tes : Entries) (n : Name) : ∀ (es : List (Name × Tree)),
    lookup n (expectL sd dest del es tes) =
      if n ∈ es.map Prod.fst then expect sd dest del (lookup n es) (lookup n tes) else .absent
  | [] => by simp [expectL, lookup]
  | (k, s) :: r => by
    by_cases hk : k = n
    · subst hk; simp [expectL, lookup]
    · have hk' : ¬ n = k := fun e => hk e.symm
      simp only [expectL, lookup, hk, if_false, List.map_cons, List.mem_cons, hk', false_or]
      exact lookup_expectL sd dest del tes n r

theorem getPath_absent : ∀ (p : List Name), getPath p .absent = .absent
  | [] => rfl
  | _ :: _ => rfl

theorem getPath_cons (n : Name) (q : List Name) (t : Tree) :
    getPath (n :: q) t = getPath q (lookup n (entriesOf t)) := by
  cases t <;> simp [getPath, entriesOf, lookup, getPath_absent]

/-- look-up in an expected directory -/
theorem lookup_expect_dir (sd dest : RawPath) (del : Bool) (m : Nat) (es : List (Name × Tree)) (tgt : Tree) (n : Name) :
    lookup n (entriesOf (expect sd dest del (.dir m es) tgt)) =
      if n ∈ es.map Prod.fst then expect sd dest del (lookup n es) (lookup n (entriesOf tgt))
      else if del then .absent else lookup n (entriesOf tgt) := by
  simp only [expect, entriesOf]
  by_cases hn : n ∈ es.map Prod.fst
  · rw [lookup_append_left (by rw [names_expectL]; exact hn), lookup_expectL]
    simp [hn]
  · rw [lookup_append_right (by rw [names_expectL]; exact hn)]
    simp only [hn, if_false]
    cases del with
    | true => simp [lookup]
    | false => simp only [Bool.false_eq_true, if_false]; exact lookup_filter_notin hn _

/-! ### a synced tree against its source: quick check sound, nothing to send, `expect` is idempotent -/

theorem others_expect (del : Bool) (sd dest : RawPath) (es : List (Name × Tree)) (tes : Entries) :
    others del (es.map Prod.fst)
      (expectL sd dest del es tes ++ others del (es.map Prod.fst) tes) = others del (es.map Prod.fst) tes := by
  cases del with
  | true => simp [others]
  | false =>
    simp only [others, Bool.false_eq_true, if_false, List.filter_append, List.filter_filter, Bool.and_self]
    have : (expectL sd dest false es tes).filter (fun e => decide (e.1 ∉ es.map Prod.fst)) = [] := by
      rw [List.filter_eq_nil_iff]
      intro e he
      have : e.1 ∈ names (expectL sd dest false es tes) := List.mem_map.mpr ⟨e, he, rfl⟩
      rw [names_expectL] at this
      simp [this]
    rw [this]; simp

theorem expect_fixed (sd dest : RawPath) (del : Bool) (src : Tree) :
    wfTree src → ∀ tgt,
      quickCheckSound src (expect sd dest del src tgt) ∧
      expectSent src (expect sd dest del src tgt) = [] ∧
      expect sd dest del src (expect sd dest del src tgt) = expect sd dest del src tgt := by
  refine Tree.rec
    (motive_1 := fun src => wfTree src → ∀ tgt,
      quickCheckSound src (expect sd dest del src tgt) ∧
      expectSent src (expect sd dest del src tgt) = [] ∧
      expect sd dest del src (expect sd dest del src tgt) = expect sd dest del src tgt)
    (motive_2 := fun es => ∀ e ∈ es, wfTree e.2 → ∀ tgt,
      quickCheckSound e.2 (expect sd dest del e.2 tgt) ∧
      expectSent e.2 (expect sd dest del e.2 tgt) = [] ∧
      expect sd dest del e.2 (expect sd dest del e.2 tgt) = expect sd dest del e.2 tgt)
    (motive_3 := fun e => wfTree e.2 → ∀ tgt,
      quickCheckSound e.2 (expect sd dest del e.2 tgt) ∧
      expectSent e.2 (expect sd dest del e.2 tgt) = [] ∧
      expect sd dest del e.2 (expect sd dest del e.2 tgt) = expect sd dest del e.2 tgt)
    ?_ ?_ ?_ ?_ ?_ ?_ ?_ src
  · intro b m t _ tgt
    simp [expect, quickCheckSound, expectSent]
  · intro m es ih hw tgt
    simp only [wfTree] at hw
    -- the entries of the synced directory
    let T := expect sd dest del (.dir m es) tgt
    have hT : entriesOf T = expectL sd dest del es (entriesOf tgt) ++ others del (es.map Prod.fst) (entriesOf tgt) := by
      simp [T, expect, entriesOf, others]
    have hlook : ∀ e ∈ es, lookup e.1 (entriesOf T) = expect sd dest del e.2 (lookup e.1 (entriesOf tgt)) := by
      intro e he
      have hmem : e.1 ∈ es.map Prod.fst := List.mem_map.mpr ⟨e, he, rfl⟩
      have hl : lookup e.1 es = e.2 := lookup_of_mem_nodup (by simpa [names] using hw.1) (by cases e; exact he)
      rw [lookup_expect_dir]; simp [hmem, hl]
    have aux : ∀ (r : List (Name × Tree)), (∀ e ∈ r, e ∈ es) →
        quickCheckSoundL r (entriesOf T) ∧ expectSentL r (entriesOf T) = [] ∧
        expectL sd dest del r (entriesOf T) = expectL sd dest del r (entriesOf tgt) := by
      intro r
      induction r with
      | nil => intro _; simp [quickCheckSoundL, expectSentL, expectL]
      | cons e r ihr =>
        intro hsub
        obtain ⟨n, s⟩ := e
        have hmem : (n, s) ∈ es := hsub (n, s) (by simp)
        have h := ih (n, s) hmem (wfTreeL_mem hw.2 (n, s) hmem) (lookup n (entriesOf tgt))
        have hr := ihr (fun e he => hsub e (by simp [he]))
        have hl := hlook (n, s) hmem
        simp only at hl h
        simp only [quickCheckSoundL, expectSentL, expectL, hl]
        refine ⟨⟨h.1, hr.1⟩, ?_, ?_⟩
        · rw [h.2.1, hr.2.1]; simp
        · rw [h.2.2, hr.2.2]
    have ha := aux es (fun e he => he)
    refine ⟨?_, ?_, ?_⟩
    · show quickCheckSound (.dir m es) T
      simp only [quickCheckSound]; exact ha.1
    · show expectSent (.dir m es) T = []
      simp only [expectSent]; exact ha.2.1
    · show expect sd dest del (.dir m es) T = T
      have h1 : expect sd dest del (.dir m es) T = .dir (m ||| 0o700)
          (expectL sd dest del es (entriesOf T) ++ others del (es.map Prod.fst) (entriesOf T)) := by
        simp [expect, others]
      rw [h1, ha.2.2, hT, others_expect]
      simp [T, expect, others]
  · intro tg _ tgt
    simp [expect, quickCheckSound, expectSent]
  · intro hw; simp [wfTree] at hw
  · intro e he; simp at he
  · intro head tail ihh iht e he
    simp only [List.mem_cons] at he
    cases he with
    | inl h => subst h; exact ihh
    | inr h => exact iht e h
  · intro n t ih; exact ih

/-! ### delete / no delete -/

theorem wfTree_lookup {n : Name} : ∀ {es : List (Name × Tree)}, wfTreeL es → n ∈ es.map Prod.fst → wfTree (lookup n es)
  | [], _, h => by simp at h
  | (k, s) :: r, hw, h => by
    simp only [wfTreeL] at hw
    by_cases hk : k = n
    · subst hk; simpa [lookup] using hw.1
    · have : n ∈ r.map Prod.fst := by
        simp only [List.map_cons, List.mem_cons] at h
        cases h with
        | inl h => exact absurd h.symm hk
        | inr h => exact h
      simpa [lookup, hk] using wfTree_lookup hw.2 this

/-- with `delete`, whatever exists in the expected tree exists in the source -/
theorem expect_delete_subset (sd dest : RawPath) : ∀ (p : List Name) (src tgt : Tree), wfTree src →
    getPath p (expect sd dest true src tgt) ≠ .absent → getPath p src ≠ .absent
  | [], src, tgt, hw, _ => by
    cases src <;> simp_all [getPath, wfTree]
  | n :: q, src, tgt, hw, h => by
    cases src with
    | file b m t => simp [expect, getPath] at h
    | link tg => simp [expect, getPath] at h
    | absent => simp [wfTree] at hw
    | dir m es =>
      simp only [wfTree] at hw
      rw [getPath_cons, lookup_expect_dir] at h
      by_cases hn : n ∈ es.map Prod.fst
      · simp only [hn, if_true] at h
        rw [getPath_cons]
        exact expect_delete_subset sd dest q (lookup n es) _ (wfTree_lookup hw.2 hn) h
      · simp [hn, getPath_absent] at h

/-- without `delete`, below a source directory that does not list `n` the prior entry `n` is untouched -/
theorem expect_nodelete_untouched (sd dest : RawPath) (n : Name) : ∀ (q : List Name) (src tgt : Tree) (m : Nat)
    (es : List (Name × Tree)), getPath q src = .dir m es → n ∉ es.map Prod.fst →
    getPath (q ++ [n]) (expect sd dest false src tgt) = getPath (q ++ [n]) tgt
  | [], src, tgt, m, es, hsrc, hn => by
    simp only [getPath] at hsrc
    subst hsrc
    simp only [List.nil_append, getPath_cons, lookup_expect_dir, hn, if_false, Bool.false_eq_true]
  | k :: q, src, tgt, m, es, hsrc, hn => by
    cases src with
    | file b m t => simp [getPath] at hsrc
    | link tg => simp [getPath] at hsrc
    | absent => simp [getPath] at hsrc
    | dir m0 es0 =>
      simp only [getPath] at hsrc
      by_cases hk : k ∈ es0.map Prod.fst
      · simp only [List.cons_append, getPath_cons, lookup_expect_dir, hk, if_true]
        exact expect_nodelete_untouched sd dest n q (lookup k es0) _ m es hsrc hn
      · rw [lookup_of_not_mem (by simpa [names] using hk), getPath_absent] at hsrc
        cases hsrc

/-! ### several targets -/

theorem finishT_stepT (links : List LinkMsg) (src : Tree) (st : TState) :
    finishT links src (stepT links src st) = finishT links src st := by
  obtain ⟨dest, tree, sent, pending⟩ := st
  cases pending with
  | none => rfl
  | some reqs =>
    cases reqs with
    | nil => rfl
    | cons r rs => rfl

theorem map_finishT_modifyAt (links : List LinkMsg) (src : Tree) : ∀ (i : Nat) (sts : List TState),
    (modifyAt (stepT links src) i sts).map (finishT links src) = sts.map (finishT links src)
  | i, [] => by cases i <;> rfl
  | 0, s :: r => by simp [modifyAt, finishT_stepT]
  | i + 1, s :: r => by simp [modifyAt, map_finishT_modifyAt links src i r]

theorem map_finishT_sched (links : List LinkMsg) (src : Tree) : ∀ (sched : List Nat) (sts : List TState),
    (sched.foldl (fun sts i => modifyAt (stepT links src) i sts) sts).map (finishT links src) =
      sts.map (finishT links src)
  | [], _ => rfl
  | i :: sched, sts => by
    simp only [List.foldl_cons]
    rw [map_finishT_sched links src sched, map_finishT_modifyAt]

end ExecnetVerif.Rsync
