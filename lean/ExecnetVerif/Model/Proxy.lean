/-
L6: the proxy transport (`popen//via=`) as functions on frame lists (C16, proxy part of C08).

  master   : Gateway over `ProxyIO`;  ProxyIO.write(data) = iochan.send(data)      (one item per frame)
                                      ProxyIO.read(n)     = iochan.makefile("r").read(n)
  forwarder: `serve_proxy_io` on the via-gateway:
               iochan.setcallback(lambda data: sub_io.write(data))                 (down)
               initial = sub_io.read(1); assert initial == b"1"; file.write(initial)
               while True: message = Message.from_io(sub_io)  -- EOFError: break   (up)
                           message.to_io(iochan.makefile("w"))                     (one item per frame)
  sub      : an ordinary popen worker on `Popen2IO`.

The channel that carries the items is an ordinary execnet channel: items arrive in order,
unmodified, each one completely or not at all (C02) — that is the only thing assumed of it here.

The reader below is the part of `ChannelFileRead` the proxy uses (`read(n)` over a list of byte
items); the full channel-file model (`readline`, str items) belongs to C19.  Names carry the prefix
`px` so that they cannot collide with it.

No Mathlib import: linked into the native driver.
-/
import ExecnetVerif.Model.Chunk
namespace ExecnetVerif

/-- `ChannelFileRead` over the carrying channel: `_buffer` (None before the first receive) and the
items still to be received; after them `channel.receive()` raises EOFError (sticky). -/
structure PxReader where
  buffer : Option Bytes
  items : List Bytes
deriving DecidableEq, Repr

/-- `while len(self._buffer) < n: self._buffer += self.channel.receive()`, left by EOFError -/
def pxFill (n : Int) : Bytes → List Bytes → Bytes × List Bytes
  | buf, [] => (buf, [])
  | buf, it :: rest => if (buf.length : Int) < n then pxFill n (buf ++ it) rest else (buf, it :: rest)

/-- the index at which Python cuts `buf[:n]` / `buf[n:]` for a buffer of length `len` -/
def pySliceIdx (n : Int) (len : Nat) : Nat :=
  if 0 ≤ n then min n.toNat len else len - (-n).toNat

/-- `ChannelFileRead.read(n)`: returns up to `n` bytes — fewer only when the items are exhausted —
and the reader afterwards.  (The `""` returned when there never was an item is the empty list.) -/
def pxRead (n : Int) (st : PxReader) : Bytes × PxReader :=
  match st.buffer, st.items with
  | none, [] => ([], st)
  | none, it :: rest =>
    let r := pxFill n it rest
    let i := pySliceIdx n r.1.length
    (r.1.take i, ⟨some (r.1.drop i), r.2⟩)
  | some buf, items =>
    let r := pxFill n buf items
    let i := pySliceIdx n r.1.length
    (r.1.take i, ⟨some (r.1.drop i), r.2⟩)

def PxReader.total (st : PxReader) : Nat := (st.buffer.getD []).length + totalLen st.items

/-- the master's receiver `while 1: Message.from_io(ProxyIO)`.  `read(9)` returning nothing is
"empty read" (EOFError); a non-empty short header goes to `struct.unpack` (struct.error); a short
payload is NOT detected — the message is built from what was there (this reader never raises). -/
def decodeItemsFuel : Nat → PxReader → List Msg × Ending
  | 0, _ => ([], .eof)
  | fuel + 1, st =>
    let (h, st1) := pxRead 9 st
    if h.length = 0 then ([], .eof)
    else
      match unpackHeader h with
      | none => ([], .badHeader)
      | some (t, cid, len) =>
        let (p, st2) := pxRead len st1
        let r := decodeItemsFuel fuel st2
        (⟨t, cid, p⟩ :: r.1, r.2)

def decodeItems (st : PxReader) : List Msg × Ending := decodeItemsFuel (st.total + 1) st

/-- the ASCII "1" every worker writes once it is up -/
def bootByte : UInt8 := 49

/-- upstream half of `serve_proxy_io`: the items the forwarder sends for what the sub wrote -/
def forwarderItems (subOut : Bytes) : List Bytes :=
  match subOut with
  | [] => []
  | b :: rest => if b = bootByte then [bootByte] :: (decodeStream rest).1.map encodeMsg else []

/-- the same with the forwarder's `Popen2IO` reading the sub's stdout in arbitrary chunks -/
def forwarderItemsChunked (chunks : List Bytes) : List Bytes :=
  match readExact chunks 1 [] with
  | .error _ => []
  | .ok (b, chunks1) =>
    if b = [bootByte] then [bootByte] :: (decodeStreamChunked chunks1).1.map encodeMsg else []

/-- sub → forwarder → master: what the master reads as boot byte, then decodes, for a sub that wrote
`subOut` (and then closed its stdout or died) -/
def proxyUpStream (subOut : Bytes) : Bytes × List Msg × Ending :=
  let r := pxRead 1 ⟨none, forwarderItems subOut⟩
  (r.1, decodeItems r.2)

/-- sub → master for a sub that wrote its boot byte and the frames `ms` -/
def proxyUp (ms : List Msg) : Bytes × List Msg × Ending := proxyUpStream (bootByte :: encodeAll ms)

/-- master → forwarder: the items `Message.to_io(ProxyIO)` sends, one per frame -/
def masterItems (ms : List Msg) : List Bytes := ms.map encodeMsg

/-- master → forwarder → sub: the forwarder's callback writes every item to the sub's stdin; the
sub decodes that byte stream with the ordinary `Popen2IO` reader -/
def proxyDown (ms : List Msg) : List Msg × Ending := decodeStream (masterItems ms).flatten

/-! ### the direct transports (for `C16_popen` / `C16_socket`) -/

/-- what a peer on `Popen2IO` decodes from the chunks its pipe hands over -/
def popenTransport (chunks : List Bytes) : List Msg × Ending := decodeStreamChunked chunks
/-- what a peer on `SocketIO` decodes from the pieces `recv` hands over (same loop as `Popen2IO`) -/
def socketTransport (chunks : List Bytes) : List Msg × Ending := decodeStreamChunked chunks

/-! ### control requests -/

inductive RioOp where
  | kill | wait | remoteaddress | closeWrite
deriving DecidableEq, Repr

def RioOp.all : List RioOp := [.kill, .wait, .remoteaddress, .closeWrite]

/-- the `RIO_*` code `ProxyIO.<method>` sends -/
def RioOp.code : RioOp → Int
  | .kill => 1 | .wait => 2 | .remoteaddress => 3 | .closeWrite => 4

/-- whether the forwarder replies with the result of the `sub_io` call or with `None` -/
inductive RioReply where
  | result | none
deriving DecidableEq, Repr

/-- `serve_proxy_io.control(data)`: the `sub_io` operation performed and the reply sent; an unknown
code does nothing and sends no reply -/
def rioControl (code : Int) : Option (RioOp × RioReply) :=
  if code = 2 then some (.wait, .result)
  else if code = 1 then some (.kill, .none)
  else if code = 3 then some (.remoteaddress, .result)
  else if code = 4 then some (.closeWrite, .none)
  else none

def RioOp.name : RioOp → String
  | .kill => "kill" | .wait => "wait" | .remoteaddress => "remoteaddress" | .closeWrite => "close_write"

end ExecnetVerif
