/-
Line-protocol syntax for `PyVal` (prefix notation, space separated tokens):
  N | T | F | I <dec> | D <hex16> | C <hex16> <hex16> | B <hex|-> | S <hex|-> (utf-8 of the str)
  | U (non-encodable str) | X (foreign) | H <dec> (channel) | L <n> item* | P <n> item* (tuple)
  | M <n> (key value)* | E <n> item* (set) | Z <n> item* (frozenset)
Not part of any theorem: the driver's parser/printer (exercised by the correspondence runs).
-/
import ExecnetVerif.Model.Serializer
namespace ExecnetVerif

def hex16 (n : Nat) : String := toHex (be8 n)

def parseHex16 (s : String) : Option Nat := do
  let bs ← ofHex s
  if bs.length = 8 then
    pure (bs.foldl (fun acc b => acc * 256 + b.toNat) 0)
  else none

partial def PyVal.toTokens : PyVal → List String
  | .none => ["N"]
  | .bool true => ["T"]
  | .bool false => ["F"]
  | .int i => ["I", toString i]
  | .float b => ["D", hex16 b]
  | .complex r i => ["C", hex16 r, hex16 i]
  | .bytes b => ["B", toHex b]
  | .str s => ["S", toHex (utf8Encode s)]
  | .badstr => ["U"]
  | .foreign => ["X"]
  | .channel id => ["H", toString id]
  | .list xs => ["L", toString xs.length] ++ xs.flatMap PyVal.toTokens
  | .tuple xs => ["P", toString xs.length] ++ xs.flatMap PyVal.toTokens
  | .set xs => ["E", toString xs.length] ++ xs.flatMap PyVal.toTokens
  | .frozenset xs => ["Z", toString xs.length] ++ xs.flatMap PyVal.toTokens
  | .dict kvs => ["M", toString kvs.length] ++ kvs.flatMap fun (k, v) => k.toTokens ++ v.toTokens

def PyVal.render (v : PyVal) : String := " ".intercalate v.toTokens

mutual
partial def parseVal : List String → Option (PyVal × List String)
  | "N" :: r => some (.none, r)
  | "T" :: r => some (.bool true, r)
  | "F" :: r => some (.bool false, r)
  | "I" :: d :: r => do let i ← d.toInt?; pure (.int i, r)
  | "D" :: h :: r => do let b ← parseHex16 h; pure (.float b, r)
  | "C" :: h1 :: h2 :: r => do let a ← parseHex16 h1; let b ← parseHex16 h2; pure (.complex a b, r)
  | "B" :: h :: r => do let b ← ofHex h; pure (.bytes b, r)
  | "S" :: h :: r => do let b ← ofHex h; let s ← utf8Decode b; pure (.str s, r)
  | "U" :: r => some (.badstr, r)
  | "X" :: r => some (.foreign, r)
  | "H" :: d :: r => do let i ← d.toInt?; pure (.channel i, r)
  | "L" :: n :: r => do let k ← n.toNat?; let (xs, r') ← parseVals k r; pure (.list xs, r')
  | "P" :: n :: r => do let k ← n.toNat?; let (xs, r') ← parseVals k r; pure (.tuple xs, r')
  | "E" :: n :: r => do let k ← n.toNat?; let (xs, r') ← parseVals k r; pure (.set xs, r')
  | "Z" :: n :: r => do let k ← n.toNat?; let (xs, r') ← parseVals k r; pure (.frozenset xs, r')
  | "M" :: n :: r => do let k ← n.toNat?; let (xs, r') ← parsePairs k r; pure (.dict xs, r')
  | _ => none
partial def parseVals : Nat → List String → Option (List PyVal × List String)
  | 0, r => some ([], r)
  | k + 1, r => do
    let (x, r1) ← parseVal r
    let (xs, r2) ← parseVals k r1
    pure (x :: xs, r2)
partial def parsePairs : Nat → List String → Option (List (PyVal × PyVal) × List String)
  | 0, r => some ([], r)
  | k + 1, r => do
    let (a, r1) ← parseVal r
    let (b, r2) ← parseVal r1
    let (xs, r3) ← parsePairs k r2
    pure ((a, b) :: xs, r3)
end

def parseValAll (toks : List String) : Option PyVal :=
  match parseVal toks with
  | some (v, []) => some v
  | _ => none

def DumpErr.render : DumpErr → String
  | .cantSerialize => "DumpError"
  | .notUtf8 => "DumpError"
  | .tooLong => "DumpError"
  | .digitLimit => "ValueError"

def LoadErr.render : LoadErr → String
  | .eof => "EOFError"
  | .dataFormat => "DataFormatError"
  | .memory => "MemoryError"

def parseCfg (s : String) : Option Cfg :=
  match s.toList with
  | [a, b, c] => some ⟨a == '1', b == '1', c == '1', some 4096⟩
  | _ => none

/-- serializer commands of the driver -/
def serHandle : List String → Option String
  | "ser.dumps" :: toks =>
    match parseValAll toks with
    | some v => match dumps v with
      | .ok b => some s!"ok {toHex b}"
      | .error e => some s!"err {e.render}"
    | none => some "bad-op"
  | "ser.dumpsi" :: toks =>
    match parseValAll toks with
    | some v => match encodeInternal v with
      | .ok b => some s!"ok {toHex b}"
      | .error e => some s!"err {e.render}"
    | none => some "bad-op"
  | ["ser.loads", cfg, h] =>
    match parseCfg cfg, ofHex h with
    | some c, some b => match loads c b with
      | .ok v => some s!"ok {v.render}"
      | .error e => some s!"err {e.render}"
    | _, _ => some "bad-op"
  | ["ser.loadsi", cfg, h] =>
    match parseCfg cfg, ofHex h with
    | some c, some b => match loadsInternal c b with
      | .ok v => some s!"ok {v.render}"
      | .error e => some s!"err {e.render}"
    | _, _ => some "bad-op"
  | ["ser.parseint", h] =>
    match ofHex h with
    | some b => match parseInt b with
      | some i => some s!"ok {i}"
      | none => some "err"
    | none => some "bad-op"
  | _ => none

end ExecnetVerif
