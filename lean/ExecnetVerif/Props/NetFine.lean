/-
Two-step `Channel.receive` (Model/NetFine.lean) refines the atomic receive of the L3 `Net` model.

Property theorems only; helper lemmas in Proofs/Net/Fine*.lean.
-/
import ExecnetVerif.Model.NetFine
import ExecnetVerif.Proofs.Net.Defs
import ExecnetVerif.Proofs.Net.FineRefine
namespace ExecnetVerif.Net

/-- Every fine history that respects the hands is, after putting the in-hand ENDMARKERs back, exactly the coarse
history `project` of it: same final state, same visible outputs. -/
theorem fine_refines (fails : Item → Bool) (fops : List FOp) (h : guardedRun fails finit fops = true) :
    run fails init (project fails finit fops)
      = (visibleOuts fails finit fops, (frun fails finit fops).2.abs) :=
  Fine.refines_gen fails fops finit Fine.FInv_finit (Reachable.init fails) h

/-- Hence every state property proved for all reachable coarse states (all `Net` invariant groups) holds, modulo
`abs`, in every state reachable at the finer granularity. -/
theorem fine_inv_transfer (fails : Item → Bool) (P : State → Prop)
    (hP : ∀ st, Reachable fails st → P st) (fops : List FOp) (h : guardedRun fails finit fops = true) :
    P (frun fails finit fops).2.abs :=
  hP _ ⟨project fails finit fops, by rw [fine_refines fails fops h]⟩

/-- The hypothesis is necessary (defect D22, still in the code): `setcallback` while a receiver holds the ENDMARKER
loses the end-of-stream notification of the callback. -/
def d22 : List FOp :=
  [.coarse .remoteExec, .coarse (.close .A 1 none), .coarse (.deliver .B), .coarse (.deliver .B), .recvGet .B 1,
   .coarse (.setcallback .B 1 true), .recvFin .B 1]

theorem fine_guard_needed :
    guardedRun (fun _ => false) finit d22 = false ∧
    (run (fun _ => false) init (project (fun _ => false) finit d22)).2 ≠ (frun (fun _ => false) finit d22).2.abs := by
  refine ⟨by decide, fun h => ?_⟩
  have h2 := congrArg (fun st => st.b.cbLog 1) h
  revert h2
  decide

/-- The `deliver` clause of the guard is necessary as well.  The model identifies channel objects by id: B closes
channel 3, a receiver of B takes its ENDMARKER in hand, and then a DATA item carrying channel 3 re-creates the id at
B.  The put-back now lands in the NEW record, so the abstraction has an ENDMARKER in a fresh open channel — not a
reachable coarse state at all (it breaks `ShapeInv`).  The history passes the guard without the `deliver` clause
(`respectsHands₀`: only `setcallback`/`drop` are restricted). -/
def reopen : List FOp :=
  [.coarse .remoteExec, .coarse (.deliver .B), .coarse (.newchannel .A), .coarse (.send .A 1 ⟨7, [3]⟩),
   .coarse (.deliver .B), .coarse (.close .B 3 none), .coarse (.send .A 1 ⟨8, [3]⟩), .recvGet .B 3,
   .coarse (.deliver .B)]

/-- the guard without the `deliver` clause -/
def FOp.respectsHands₀ (f : FState) : FOp → Bool
  | .coarse (.setcallback s id _) => !(f.hand.contains (s, id))
  | .coarse (.drop s id) => !(f.hand.contains (s, id))
  | _ => true

def guardedRun₀ (fails : Item → Bool) : FState → List FOp → Bool
  | _, [] => true
  | f, op :: ops => op.respectsHands₀ f && guardedRun₀ fails (fstep fails f op).2 ops

theorem fine_deliver_guard_needed :
    guardedRun₀ (fun _ => false) finit reopen = true ∧
    guardedRun (fun _ => false) finit reopen = false ∧
    run (fun _ => false) init (project (fun _ => false) finit reopen)
      ≠ (visibleOuts (fun _ => false) finit reopen, (frun (fun _ => false) finit reopen).2.abs) ∧
    ((frun (fun _ => false) finit reopen).2.abs.b.chans 3).queue = some [.endmarker] ∧
    ((frun (fun _ => false) finit reopen).2.abs.b.chans 3).rclosed = false := by
  refine ⟨by decide, by decide, fun h => ?_, by decide, by decide⟩
  have h2 := congrArg (fun p => (p.2.b.chans 3).queue) h
  revert h2
  decide

end ExecnetVerif.Net
