/-
Step simulation, part 1: the atomic operations (`FOp.coarse`).
-/
import ExecnetVerif.Proofs.Net.FineInv
namespace ExecnetVerif.Net.Fine
open ExecnetVerif.Net
set_option linter.unusedSimpArgs false

theorem fstep_coarse (fails : Item → Bool) (f : FState) (op : Op) :
    fstep fails f (.coarse op) = ((step fails f.st op).1, { f with st := (step fails f.st op).2 }) := rfl

theorem contains_iff {hand : List (Side × Nat)} {k : Side × Nat} : hand.contains k = true ↔ k ∈ hand := by
  simp

/-- the guard gives what `HandOK` needs to survive the step -/
theorem keep_of_guard (fails : Item → Bool) (f : FState) (op : Op) (hinv : FInv f) (hr : Reachable fails f.abs)
    (hg : (FOp.coarse op).respectsHands f = true) : ∀ k ∈ f.hand, Keep f.st k op := by
  intro k hk
  have hok := hinv k hk
  cases op with
  | deliver p =>
    intro hp fr rest hout
    subst hp
    simp only [FOp.respectsHands, hout] at hg
    cases fr with
    | data i v =>
      simp only [List.all_eq_true, Bool.not_eq_true', ] at hg
      intro hmem
      have := hg k.2 hmem
      have hc : f.hand.contains (k.1, k.2) = true := contains_iff.mpr hk
      rw [hc] at this; cases this
    | exec i =>
      simp only [Bool.not_eq_true'] at hg
      intro hi
      subst hi
      have hc : f.hand.contains (k.1, k.2) = true := contains_iff.mpr hk
      rw [hc] at hg; cases hg
    | close i => trivial
    | closeErr i e => trivial
    | lastMsg i => trivial
    | terminate => trivial
  | cut p => trivial
  | newchannel s => intro hs; exact ne_count_of_alive fails f hr k.1 k.2 hok.1
  | remoteExec => intro hs; exact ne_count_of_alive fails f hr k.1 k.2 hok.1
  | setcallback s id w =>
    intro hs hid
    have hs' : s = k.1 := hs
    subst hs' hid
    simp only [FOp.respectsHands, Bool.not_eq_true'] at hg
    have hc : f.hand.contains (k.1, k.2) = true := contains_iff.mpr hk
    rw [hc] at hg; cases hg
  | drop s id =>
    intro hs hid
    have hs' : s = k.1 := hs
    subst hs' hid
    simp only [FOp.respectsHands, Bool.not_eq_true'] at hg
    have hc : f.hand.contains (k.1, k.2) = true := contains_iff.mpr hk
    rw [hc] at hg; cases hg
  | send s id v => intro _; trivial
  | close s id err => intro _; trivial
  | receive s id => intro _; trivial
  | waitclose s id => intro _; trivial
  | isclosed s id => intro _; trivial
  | execFinish id o => intro _; trivial

/-- `FInv` survives every guarded atomic operation -/
theorem FInv_coarse (fails : Item → Bool) (f : FState) (op : Op) (hinv : FInv f) (hr : Reachable fails f.abs)
    (hg : (FOp.coarse op).respectsHands f = true) : FInv (fstep fails f (.coarse op)).2 := by
  intro k hk
  exact step_handOK fails f.st k op (keep_of_guard fails f op hinv hr hg k hk) (hinv k hk)

/-- the guard (and, for `receive`, not being the silent case) gives what the put-backs need to commute -/
theorem comm_of_guard (fails : Item → Bool) (f : FState) (op : Op) (hinv : FInv f) (hr : Reachable fails f.abs)
    (hg : (FOp.coarse op).respectsHands f = true) (hns : (FOp.coarse op).coarseOf f = some op) :
    ∀ k ∈ f.hand, Comm f.st k op := by
  intro k hk
  have hok := hinv k hk
  have hkeep := keep_of_guard fails f op hinv hr hg k hk
  cases op with
  | deliver p => intro hp; exact ⟨hp ▸ hok.2.1, hkeep hp⟩
  | cut p => trivial
  | newchannel s => exact hkeep
  | remoteExec => exact hkeep
  | setcallback s id w => exact hkeep
  | drop s id => intro _; trivial
  | send s id v => intro _; trivial
  | close s id err => intro _; trivial
  | receive s id =>
    intro hs hid hq
    have hs' : s = k.1 := hs
    subst hs' hid
    have hc : f.hand.contains (k.1, k.2) = true := contains_iff.mpr hk
    simp only [FOp.coarseOf, hq, hok.1, hc, Bool.and_self, if_true] at hns
    cases hns
  | waitclose s id => intro _; trivial
  | isclosed s id => intro _; trivial
  | execFinish id o => intro _; trivial

/-- a non-silent atomic operation is simulated by the same coarse operation on the abstraction -/
theorem sim_coarse (fails : Item → Bool) (f : FState) (op : Op) (hinv : FInv f) (hr : Reachable fails f.abs)
    (hg : (FOp.coarse op).respectsHands f = true) (hns : (FOp.coarse op).coarseOf f = some op) :
    step fails f.abs op = ((fstep fails f (.coarse op)).1, (fstep fails f (.coarse op)).2.abs) := by
  rw [abs_eq, step_foldl_putBack fails f.hand f.st op (comm_of_guard fails f op hinv hr hg hns)]
  rfl

/-- what `coarseOf` can be for an atomic operation -/
theorem coarseOf_coarse (f : FState) (op : Op) :
    (FOp.coarse op).coarseOf f = some op ∨
    ((FOp.coarse op).coarseOf f = none ∧ ∃ s id, op = .receive s id ∧
      ((f.st.side s).chans id).queue = some [] ∧ ((f.st.side s).chans id).alive = true) := by
  cases op with
  | receive s id =>
    simp only [FOp.coarseOf]
    split
    · next hq =>
      split
      · next h =>
        right
        simp only [Bool.and_eq_true] at h
        exact ⟨rfl, s, id, rfl, hq, h.1⟩
      · left; rfl
    · left; rfl
  | _ => left; rfl

/-- the silent atomic `receive` (another receiver holds the ENDMARKER, the queue is empty) changes nothing -/
theorem fstep_receive_silent (fails : Item → Bool) (f : FState) (s : Side) (id : Nat)
    (hq : ((f.st.side s).chans id).queue = some []) (ha : ((f.st.side s).chans id).alive = true) :
    fstep fails f (.coarse (.receive s id)) = (.wouldBlock, f) := by
  rw [fstep_coarse]
  have : step fails f.st (.receive s id) = (.wouldBlock, f.st) := by
    simp only [step, ha, hq, Bool.not_true, Bool.false_eq_true, if_false]
  rw [this]

end ExecnetVerif.Net.Fine
