/-
G5 (callbacks): `CbInv` together with the auxiliary clauses `CbAux` holds initially and is preserved
by every step, given the record-shape invariant `ShapeInv` (used by `setcallback` only); corollaries
for the C10 property statements.  The proof works on the "view" of one (side, id) (`CbPlumbing.lean`):
every helper of the model acts on the view by `View.create`, `View.close`, `View.cbItem`, ... and each
of these preserves `View.OK`.
-/
import ExecnetVerif.Proofs.Net.CbPlumbing
namespace ExecnetVerif.Net

/-! ### auxiliary clauses -/

/-- what `CbInv` needs in addition to be inductive (per side and id):
queue mode means `setcallback` was never called; `setcallback` was only ever called on a created
object; a record that is closed for receiving means the conversation ended at this side -/
def CbAux (st : State) : Prop :=
  ∀ (p : Side) (id : Nat),
    let x := st.side p
    let c := x.chans id
    (x.broken id = false → ∀ q, c.queue = some q → x.cbWants id = none) ∧
    (c.created = false → x.cbWants id = none) ∧
    (x.broken id = false → c.rclosed = true → x.ended id = true)

def CbAll (st : State) : Prop := CbAux st ∧ CbInv st

/-! ### the invariant on one view -/

def EndLast (l : List CbEvent) : Prop := ∀ pre post, l = pre ++ CbEvent.endmarker :: post → post = []

structure View.OK (v : View) : Prop where
  c1 : ∀ w, v.cbs = some w → v.broken = false → v.queue = none ∧ v.cbWants = some w ∧ v.ended = false
  c2 : v.broken = false → EndLast v.cbLog
  c3 : v.broken = false → CbEvent.endmarker ∈ v.cbLog → v.cbs = none
  c4 : v.cbWants = none → v.cbLog = [] ∧ v.cbs = none
  c5 : ∀ w, v.cbWants = some w → v.ended = false → v.broken = false → v.cbs = some w
  c6 : v.cbWants = some true → v.ended = true → v.broken = false → CbEvent.endmarker ∈ v.cbLog
  c7 : v.broken = false → CbEvent.endmarker ∈ v.cbLog → v.cbWants = some true
  c8 : v.broken = false → ∃ pre, v.got = pre ++ cbItems v.cbLog
  c9 : v.ended = true → v.broken = false → v.registered = false
  a1 : v.broken = false → ∀ q, v.queue = some q → v.cbWants = none
  a2 : v.created = false → v.cbWants = none
  a3 : v.broken = false → v.rclosed = true → v.ended = true

def SideOK (x : SideSt) : Prop := ∀ id, (view x id).OK

theorem CbAll_iff (st : State) : CbAll st ↔ ∀ p, SideOK (st.side p) := by
  constructor
  · intro ⟨ha, hi⟩ p id
    obtain ⟨a1, a2, a3⟩ := ha p id
    obtain ⟨c1, c2, c3, c4, c5, c6, c7, c8, c9⟩ := hi p id
    exact ⟨c1, c2, c3, c4, c5, c6, c7, c8, c9, a1, a2, a3⟩
  · intro h
    exact ⟨fun p id => ⟨(h p id).a1, (h p id).a2, (h p id).a3⟩,
      fun p id => ⟨(h p id).c1, (h p id).c2, (h p id).c3, (h p id).c4, (h p id).c5, (h p id).c6,
        (h p id).c7, (h p id).c8, (h p id).c9⟩⟩

/-! ### lists of callback events -/

theorem cbItems_append (l1 l2 : List CbEvent) : cbItems (l1 ++ l2) = cbItems l1 ++ cbItems l2 := by
  induction l1 with
  | nil => rfl
  | cons e t ih => cases e <;> simp [cbItems, ih]

@[simp] theorem cbItems_map_item (vs : List Item) : cbItems (vs.map CbEvent.item) = vs := by
  induction vs with
  | nil => rfl
  | cons v t ih => simp [cbItems, ih]

theorem EndLast_of_not_mem {l : List CbEvent} (h : CbEvent.endmarker ∉ l) : EndLast l := by
  intro pre post e
  exact absurd (by rw [e]; simp) h

theorem EndLast_append_end {l : List CbEvent} (h : CbEvent.endmarker ∉ l) :
    EndLast (l ++ [CbEvent.endmarker]) := by
  intro pre post e
  rcases List.eq_nil_or_concat post with rfl | ⟨post', z, rfl⟩
  · rfl
  · exfalso
    have e' : l ++ [CbEvent.endmarker] = (pre ++ CbEvent.endmarker :: post') ++ [z] := by
      rw [e]; simp
    have := List.append_inj_left' e' rfl
    exact h (by rw [this]; simp)

theorem not_mem_map_item (vs : List Item) : CbEvent.endmarker ∉ vs.map CbEvent.item := by
  simp

/-! ### the view transitions preserve the invariant -/

theorem View.OK.create {v : View} (h : v.OK) : v.create.OK := by
  unfold View.create
  by_cases hr : v.registered = true
  · simpa [hr] using h
  · obtain ⟨c1, c2, c3, c4, c5, c6, c7, c8, c9, a1, a2, a3⟩ := h
    simp only [hr, Bool.false_eq_true, ↓reduceIte]
    constructor <;> simp only [Bool.or_eq_false_iff] <;> grind

theorem View.OK.close {v : View} (h : v.OK) (b e : Bool)
    (h2 : ∀ w, v.cbs = some w → e = true) (h3 : b = true → e = true) : (v.close b e).OK := by
  obtain ⟨c1, c2, c3, c4, c5, c6, c7, c8, c9, a1, a2, a3⟩ := h
  have hlog : v.endLog = v.cbLog ∨ (v.cbs = some true ∧ v.endLog = v.cbLog ++ [CbEvent.endmarker]) := by
    unfold View.endLog; split <;> simp_all
  have hq : ∀ q, (if b = true then pushEnd v.queue else v.queue) = some q → ∃ q', v.queue = some q' := by
    intro q; cases hv : v.queue <;> cases b <;> simp [pushEnd]
  constructor <;> simp only [View.close, Bool.or_eq_true, Bool.or_eq_false_iff]
  · grind
  · intro hb
    rcases hlog with h | ⟨h, h'⟩
    · rw [h]; exact c2 hb
    · rw [h']; exact EndLast_append_end (fun hm => by have := c3 hb hm; simp_all)
  · grind
  · grind
  · grind
  · intro hw he hb
    rcases hlog with h | ⟨h, h'⟩
    · rw [h]
      cases hev : v.ended
      · have := c5 true hw hev hb
        simp [View.endLog, this] at h
      · exact c6 hw hev hb
    · rw [h']; simp
  · intro hb hm
    rcases hlog with h | ⟨h, h'⟩
    · rw [h] at hm; exact c7 hb hm
    · exact (c1 true h hb).2.1
  · intro hb
    obtain ⟨pre, hp⟩ := c8 hb
    refine ⟨pre, ?_⟩
    rcases hlog with h | ⟨h, h'⟩
    · rw [h]; exact hp
    · rw [h', cbItems_append]; simpa [cbItems] using hp
  · grind
  · intro hb q hq'
    obtain ⟨q', hq''⟩ := hq q hq'
    exact a1 hb q' hq''
  · grind
  · grind

theorem View.OK.cbItem {v : View} (h : v.OK) (w : Bool) (hw : v.cbs = some w) (i : Item) :
    (v.cbItem i).OK := by
  obtain ⟨c1, c2, c3, c4, c5, c6, c7, c8, c9, a1, a2, a3⟩ := h
  constructor <;> simp only [View.cbItem]
  · grind
  · intro hb
    have hn : CbEvent.endmarker ∉ v.cbLog := fun hm => by have := c3 hb hm; simp_all
    exact EndLast_of_not_mem (by simp [hn])
  · grind
  · grind
  · grind
  · grind
  · grind
  · intro hb
    obtain ⟨pre, hp⟩ := c8 hb
    exact ⟨pre, by rw [cbItems_append, hp]; simp [cbItems]⟩
  · grind
  · grind
  · grind
  · grind

/-- changes of the queue that keep its mode; `registered` may be cleared (`drop`) -/
theorem View.OK.setQueue {v : View} (h : v.OK) (q' : Option (List QItem)) (r : Bool)
    (hq : q' = none ↔ v.queue = none) (hr : r = true → v.registered = true) :
    ({ v with queue := q', registered := r } : View).OK := by
  obtain ⟨c1, c2, c3, c4, c5, c6, c7, c8, c9, a1, a2, a3⟩ := h
  constructor <;> simp only
  case a1 =>
    intro hb q hq'
    cases hv : v.queue with
    | none => have := hq.2 hv; simp_all
    | some q0 => exact a1 hb q0 hv
  all_goals grind

/-- `receive` hands over one item from the queue -/
theorem View.OK.receive {v : View} (h : v.OK) (q q' : List QItem) (hq : v.queue = some q) (i : Item) :
    ({ v with queue := some q', got := v.got ++ [i] } : View).OK := by
  obtain ⟨c1, c2, c3, c4, c5, c6, c7, c8, c9, a1, a2, a3⟩ := h
  constructor <;> simp only
  case c8 =>
    intro hb
    have := (c4 (a1 hb q hq)).1
    exact ⟨v.got ++ [i], by simp [this, cbItems]⟩
  all_goals grind

/-! ### `setcallback` -/

theorem drain_spec (fails : Item → Bool) (q : List QItem) :
    ((drain fails q).2.1 = true → (drain fails q).2.2 = false) ∧
    ((drain fails q).2.1 = false → (drain fails q).2.2 = false → q = (drain fails q).1.map QItem.item) ∧
    ((drain fails q).2.2 = true → QItem.endmarker ∈ q) := by
  induction q with
  | nil => simp [drain]
  | cons a t ih =>
    cases a with
    | endmarker => simp [drain]
    | item v =>
      by_cases hf : fails v = true
      · simp [drain, hf]
      · simp only [drain, hf, Bool.false_eq_true, ↓reduceIte]
        obtain ⟨i1, i2, i3⟩ := ih
        refine ⟨i1, ?_, ?_⟩
        · intro h1 h2; simp [← i2 h1 h2]
        · intro h; simp [i3 h]

theorem View.OK.setcb {v : View} (h : v.OK) (q : List QItem) (hq : v.queue = some q) (vs : List Item)
    (raised sawEnd w : Bool) (hcr : v.created = true)
    (hend : sawEnd = true → v.rclosed = true)
    (hreg : raised = false → sawEnd = false → v.registered = true ∧ v.rclosed = false) :
    ({ v with queue := none, cbWants := some w, got := v.got ++ vs,
              cbLog := v.cbLog ++ vs.map CbEvent.item ++ (if (sawEnd && w) = true then [CbEvent.endmarker] else []),
              broken := v.broken || raised,
              cbs := if (!raised && !sawEnd) = true then some w else v.cbs } : View).OK := by
  obtain ⟨c1, c2, c3, c4, c5, c6, c7, c8, c9, a1, a2, a3⟩ := h
  cases hb : (v.broken || raised)
  · simp only [Bool.or_eq_false_iff] at hb
    obtain ⟨hb, hr⟩ := hb
    have hw := a1 hb q hq
    obtain ⟨hlog, hcbs⟩ := c4 hw
    subst hr
    simp only [hlog, hcbs, List.nil_append, Bool.not_false, Bool.true_and]
    cases sawEnd
    · obtain ⟨hreg', hrc⟩ := hreg rfl rfl
      have hne : v.ended = false := by
        cases he : v.ended
        · rfl
        · have := c9 he hb; simp_all
      constructor <;> simp [hne, hcr, hrc, EndLast_of_not_mem]
    · have he := a3 hb (hend rfl)
      cases w
      · constructor <;> simp [he, hcr, EndLast_of_not_mem] <;> grind
      · constructor <;> simp [he, hcr, cbItems_append, cbItems]
        · exact EndLast_append_end (not_mem_map_item vs)
        · grind
  · constructor <;> simp [hcr]

/-! ### one side -/

theorem SideOK.congr {x x' : SideSt} (h : SideOK x) (hv : ∀ id, view x' id = view x id) : SideOK x' := by
  intro id; rw [hv]; exact h id

theorem SideOK.of_createAt {x : SideSt} (h : SideOK x) (j : Nat) : SideOK (createAt x j) := by
  intro id; rw [view_createAt]; split
  · exact (h id).create
  · exact h id

theorem SideOK.of_registerAll {x : SideSt} (h : SideOK x) (ids : List Nat) : SideOK (registerAll x ids) := by
  intro id; rw [view_registerAll]; split
  · exact (h id).create
  · exact h id

theorem SideOK.of_localClose {x : SideSt} (h : SideOK x) (j : Nat) (err : Option Nat) (so : Bool) :
    SideOK (localClose x j err so) := by
  intro id; rw [view_localClose]; split
  · exact (h id).close _ true (fun _ _ => rfl) (fun _ => rfl)
  · exact h id

theorem SideOK.of_chanClose {x : SideSt} (h : SideOK x) (j : Nat) (err : Option Nat) :
    SideOK (chanClose x j err).2 := by
  intro id
  rcases view_chanClose x j err id with e | e <;> rw [e]
  · exact h id
  · split
    · exact (h id).close _ true (fun _ _ => rfl) (fun _ => rfl)
    · exact h id

theorem SideOK.of_epilogue {x : SideSt} (h : SideOK x) (isCut : Bool) : SideOK (epilogue x isCut) := by
  intro id; rw [view_epilogue]
  refine (h id).close _ _ (fun w hw => ?_) (fun hr => ?_)
  · have : x.cbs id = some w := hw
    simp [this]
  · simp [hr]

theorem SideOK.updateAt {x x' : SideSt} (h : SideOK x) (id : Nat)
    (hv : ∀ j, j ≠ id → view x' j = view x j) (hid : (view x' id).OK) : SideOK x' := by
  intro j
  by_cases hj : j = id
  · subst hj; exact hid
  · rw [hv j hj]; exact h j

theorem SideOK.of_handle {x : SideSt} (h : SideOK x) (fails : Item → Bool) (isWorker : Bool) (f : Frame) :
    SideOK (handle fails x isWorker f) := by
  cases f with
  | data id v =>
    simp only [handle]
    split
    · rename_i w hw
      -- callback mode
      have h2 : SideOK (registerAll { x with delivered := upd x.delivered id (x.delivered id ++ [v]) } v.chans) :=
        (h.congr (x' := { x with delivered := upd x.delivered id (x.delivered id ++ [v]) }) (fun _ => rfl)).of_registerAll _
      have hcbs := (registerAll_frame { x with delivered := upd x.delivered id (x.delivered id ++ [v]) } v.chans).1
      generalize registerAll { x with delivered := upd x.delivered id (x.delivered id ++ [v]) } v.chans = x2 at h2 hcbs ⊢
      have hw2 : x2.cbs id = some w := by rw [hcbs]; exact hw
      have h3 : SideOK { x2 with cbLog := upd x2.cbLog id (x2.cbLog id ++ [.item v]),
                                 got := upd x2.got id (x2.got id ++ [v]),
                                 kept := upd x2.kept id (x2.kept id ++ [v]) } := by
        refine h2.updateAt id (fun j hj => by simp [view, upd_other _ _ hj]) ?_
        have := (h2 id).cbItem w hw2 v
        simpa [view, View.cbItem] using this
      split
      · split
        · refine SideOK.of_localClose ?_ _ _ _
          exact h3.congr (fun _ => rfl)
        · exact h3.of_epilogue false
      · exact h3
    · split
      · rename_i hreg hq
        have h2 : SideOK (registerAll { x with delivered := upd x.delivered id (x.delivered id ++ [v]) } v.chans) :=
          (h.congr (x' := { x with delivered := upd x.delivered id (x.delivered id ++ [v]) }) (fun _ => rfl)).of_registerAll _
        generalize registerAll { x with delivered := upd x.delivered id (x.delivered id ++ [v]) } v.chans = x2 at h2 ⊢
        refine h2.updateAt id (fun j hj => by simp [view, upd_other _ _ hj]) ?_
        have := (h2 id).setQueue ((x2.chans id).queue.map (· ++ [.item v])) (x2.chans id).registered
          (by cases hq2 : (x2.chans id).queue <;> simp [view, hq2]) (fun hr => hr)
        simpa [view] using this
      · exact h.congr (fun _ => rfl)
  | close id => simp only [handle]; exact SideOK.of_localClose (x := { x with closeSeen := upd x.closeSeen id true }) (h.congr (fun _ => rfl)) _ _ _
  | closeErr id e => simp only [handle]; exact SideOK.of_localClose (x := { x with closeSeen := upd x.closeSeen id true }) (h.congr (fun _ => rfl)) _ _ _
  | lastMsg id => simp only [handle]; exact SideOK.of_localClose (x := { x with closeSeen := upd x.closeSeen id true }) (h.congr (fun _ => rfl)) _ _ _
  | exec id =>
    simp only [handle]
    split
    · refine (h.of_createAt id).updateAt id (fun j hj => by simp [view, upd_other _ _ hj]) ?_
      have := (h.of_createAt id) id
      simpa [view] using this
    · exact h
  | terminate => simp only [handle]; exact h.of_epilogue false

/-! ### steps -/

def AllOK (st : State) : Prop := ∀ p, SideOK (st.side p)

theorem AllOK.set {st : State} (h : AllOK st) (s : Side) {x' : SideSt} (hx : SideOK x') :
    AllOK (st.set s x') := by
  intro p
  rw [State.side_set_cb]
  split
  · exact hx
  · exact h p

theorem AllOK_init : AllOK init := by
  intro p id
  cases p <;> constructor <;> simp [init, initSide, view, EndLast, cbItems]

theorem AllOK_newchannel (fails : Item → Bool) (st : State) (s : Side) (h : AllOK st) :
    AllOK (step fails st (.newchannel s)).2 := by
  simp only [step]
  split
  · exact h
  · exact h.set s (((h s).of_createAt _).congr (fun _ => rfl))

theorem AllOK_remoteExec (fails : Item → Bool) (st : State) (h : AllOK st) :
    AllOK (step fails st .remoteExec).2 := by
  simp only [step]
  split
  · exact h
  · split
    · exact h.set .A ((h .A).congr (fun _ => rfl))
    · exact h.set .A (((h .A).of_createAt _).congr (fun _ => rfl))

theorem AllOK_send (fails : Item → Bool) (st : State) (s : Side) (id : Nat) (v : Item) (h : AllOK st) :
    AllOK (step fails st (.send s id v)).2 := by
  simp only [step]
  split
  · exact h
  · split
    · exact h
    · split
      · exact h
      · exact h.set s ((h s).congr (fun _ => rfl))

theorem AllOK_close (fails : Item → Bool) (st : State) (s : Side) (id : Nat) (err : Option Nat)
    (h : AllOK st) : AllOK (step fails st (.close s id err)).2 := by
  simp only [step]
  split
  · exact h
  · exact h.set s ((h s).of_chanClose id err)

/-- replacing the record of `id` by one with the same `created`/`rclosed`, a queue in the same mode and
`registered` only cleared -/
theorem SideOK.setChan {x : SideSt} (h : SideOK x) (id : Nat) (c' : Chan)
    (hq : c'.queue = none ↔ (x.chans id).queue = none)
    (hr : c'.registered = true → (x.chans id).registered = true)
    (hc : c'.created = (x.chans id).created) (hrc : c'.rclosed = (x.chans id).rclosed) :
    SideOK { x with chans := upd x.chans id c' } := by
  refine h.updateAt id (fun j hj => by simp [view, upd_other _ _ hj]) ?_
  have := (h id).setQueue c'.queue c'.registered hq hr
  simpa [view, hc, hrc] using this

theorem AllOK_receive (fails : Item → Bool) (st : State) (s : Side) (id : Nat) (h : AllOK st) :
    AllOK (step fails st (.receive s id)).2 := by
  simp only [step]
  split
  · exact h
  · split
    · exact h
    · exact h
    · rename_i v q hq
      refine h.set s ?_
      refine (h s).updateAt id (fun j hj => by simp [view, upd_other _ _ hj]) ?_
      have := (h s id).receive _ q hq v
      simpa [view] using this
    · rename_i q hq
      split
      · exact h.set s ((h s).setChan id _ (by simp [hq]) (fun hr => hr) rfl rfl)
      · exact h.set s ((h s).setChan id _ (by simp [hq]) (fun hr => hr) rfl rfl)

theorem AllOK_waitclose (fails : Item → Bool) (st : State) (s : Side) (id : Nat) (h : AllOK st) :
    AllOK (step fails st (.waitclose s id)).2 := by
  simp only [step]
  split
  · exact h
  · split
    · exact h
    · split
      · exact h.set s ((h s).setChan id _ (by simp) (fun hr => hr) rfl rfl)
      · split <;> exact h

theorem AllOK_drop (fails : Item → Bool) (st : State) (s : Side) (id : Nat) (h : AllOK st) :
    AllOK (step fails st (.drop s id)).2 := by
  simp only [step]
  have hx1 := (h s).setChan id { ((st.side s).chans id) with alive := false, registered := false }
    (by simp) (by simp) rfl rfl
  split
  · exact h
  · split
    · exact h.set s hx1
    · exact h.set s (hx1.congr (fun _ => rfl))

theorem AllOK_isclosed (fails : Item → Bool) (st : State) (s : Side) (id : Nat) (h : AllOK st) :
    AllOK (step fails st (.isclosed s id)).2 := by
  simp only [step]
  split <;> exact h

theorem AllOK_deliver (fails : Item → Bool) (st : State) (p : Side) (h : AllOK st) :
    AllOK (step fails st (.deliver p)).2 := by
  simp only [step]
  split
  · exact h
  · split
    · exact h
    · rename_i f rest hout
      have h1 : AllOK (st.set p.peer { st.side p.peer with out := rest }) :=
        h.set p.peer ((h p.peer).congr (fun _ => rfl))
      have h2 := h1.set p ((h1 p).of_handle fails (p == .B) f)
      split
      · exact h2.set p.peer ((h2 p.peer).congr (fun _ => rfl))
      · exact h2

theorem AllOK_execFinish (fails : Item → Bool) (st : State) (id : Nat) (o : Outcome) (h : AllOK st) :
    AllOK (step fails st (.execFinish id o)).2 := by
  simp only [step]
  split
  · exact h
  · exact h.set .B (SideOK.of_chanClose
      ((h .B).setChan id { (st.b.chans id) with executing := false } (by simp) (fun hr => hr) rfl rfl) id _)

theorem AllOK_cut (fails : Item → Bool) (st : State) (p : Side) (h : AllOK st) :
    AllOK (step fails st (.cut p)).2 := by
  simp only [step]
  split
  · exact h
  · have h1 := h.set p ((h p).of_epilogue true)
    exact h1.set p.peer ((h1 p.peer).congr (fun _ => rfl))

theorem AllOK_setcallback (fails : Item → Bool) (st : State) (s : Side) (id : Nat) (w : Bool)
    (hS : ShapeInv st) (h : AllOK st) : AllOK (step fails st (.setcallback s id w)).2 := by
  simp only [step]
  split
  · exact h
  · rename_i halive
    split
    · exact h
    · rename_i q hq
      obtain ⟨hshape, hcl, hreg, hal, hunreg, -, -⟩ := hS s id
      simp only [Bool.not_eq_true', Bool.not_eq_false] at halive
      have hcr := hal (by simpa using halive)
      obtain ⟨items, k, hqk, hk⟩ := hshape q hq
      have spec := drain_spec fails q
      generalize drain fails q = r at spec ⊢
      obtain ⟨vs, raised, sawEnd⟩ := r
      simp only at spec ⊢
      obtain ⟨s1, s2, s3⟩ := spec
      have hend : sawEnd = true → ((st.side s).chans id).rclosed = true := by
        intro he
        have hm := s3 he
        cases hrc : ((st.side s).chans id).rclosed
        · have : k = 0 := hk.2 hrc
          subst this
          simp [hqk] at hm
        · rfl
      have hrg : raised = false → sawEnd = false →
          ((st.side s).chans id).registered = true ∧ ((st.side s).chans id).rclosed = false := by
        intro h1 h2
        have hq2 := s2 h1 h2
        have hrc : ((st.side s).chans id).rclosed = false := by
          apply hk.1
          cases k with
          | zero => rfl
          | succ k =>
            have : QItem.endmarker ∈ q := by rw [hqk]; simp [List.replicate_succ]
            rw [hq2] at this
            simp at this
        refine ⟨?_, hrc⟩
        cases hr : ((st.side s).chans id).registered
        · have := hunreg hcr (by simpa using halive) hr
          simp [hrc] at this
        · rfl
      have key := (h s id).setcb q hq vs raised sawEnd w hcr hend hrg
      split
      · rename_i hr
        subst hr
        refine h.set s ((h s).updateAt id (fun j hj => by simp [view, upd_other _ _ hj]) ?_)
        simpa [view] using key
      · rename_i hr
        simp only [Bool.not_eq_true] at hr
        subst hr
        split
        · rename_i he
          subst he
          refine h.set s ((h s).updateAt id (fun j hj => by simp [view, upd_other _ _ hj]) ?_)
          simpa [view] using key
        · rename_i he
          simp only [Bool.not_eq_true] at he
          subst he
          obtain ⟨hr1, hr2⟩ := hrg rfl rfl
          split
          · rename_i hc
            exfalso
            rcases Bool.or_eq_true_iff.mp hc with hc | hc
            · have := hcl hc; simp [hr2] at this
            · simp [hr2] at hc
          · refine h.set s ((h s).updateAt id (fun j hj => by simp [view, upd_other _ _ hj]) ?_)
            simpa [view] using key

theorem AllOK_step (fails : Item → Bool) (st : State) (op : Op) (hS : ShapeInv st) (h : AllOK st) :
    AllOK (step fails st op).2 := by
  cases op with
  | newchannel s => exact AllOK_newchannel fails st s h
  | remoteExec => exact AllOK_remoteExec fails st h
  | send s id v => exact AllOK_send fails st s id v h
  | close s id err => exact AllOK_close fails st s id err h
  | receive s id => exact AllOK_receive fails st s id h
  | waitclose s id => exact AllOK_waitclose fails st s id h
  | setcallback s id w => exact AllOK_setcallback fails st s id w hS h
  | drop s id => exact AllOK_drop fails st s id h
  | isclosed s id => exact AllOK_isclosed fails st s id h
  | deliver p => exact AllOK_deliver fails st p h
  | execFinish id o => exact AllOK_execFinish fails st id o h
  | cut p => exact AllOK_cut fails st p h

/-! ### the exported theorems -/

theorem CbAll_init : CbAll init := (CbAll_iff init).2 AllOK_init

theorem CbAll_step (fails : Item → Bool) (st : State) (op : Op) :
    ShapeInv st → CbAll st → CbAll (step fails st op).2 :=
  fun hS h => (CbAll_iff _).2 (AllOK_step fails st op hS ((CbAll_iff st).1 h))

theorem CbInv_init : CbInv init := CbAll_init.2

theorem CbAux_init : CbAux init := CbAll_init.1

theorem CbAux_step (fails : Item → Bool) (st : State) (op : Op) :
    ShapeInv st → CbAux st → CbInv st → CbAux (step fails st op).2 :=
  fun hS ha hi => (CbAll_step fails st op hS ⟨ha, hi⟩).1

/-- `CbInv` is inductive relative to `ShapeInv` and the auxiliary clauses `CbAux` -/
theorem CbInv_step (fails : Item → Bool) (st : State) (op : Op) :
    ShapeInv st → CbAux st → CbInv st → CbInv (step fails st op).2 :=
  fun hS ha hi => (CbAll_step fails st op hS ⟨ha, hi⟩).2

/-- every reachable state satisfies `CbInv` and `CbAux`, provided every reachable state has the record
shape (`ShapeInv_reachable`, proved elsewhere) -/
theorem CbAll_reachable (fails : Item → Bool)
    (hShape : ∀ st, Reachable fails st → ShapeInv st) :
    ∀ st, Reachable fails st → CbAll st :=
  Reachable.induction CbAll_init (fun st op hr h => CbAll_step fails st op (hShape st hr) h)

/-! ### corollaries for the property statements (C10) -/

theorem count_endmarker_le_one {l : List CbEvent} (h : EndLast l) : l.count CbEvent.endmarker ≤ 1 := by
  induction l with
  | nil => simp
  | cons a t ih =>
    cases a with
    | item v =>
      have : EndLast t := fun pre post e => h (CbEvent.item v :: pre) post (by simp [e])
      simpa [List.count_cons] using ih this
    | endmarker =>
      have : t = [] := h [] t rfl
      simp [this]

theorem getLast_of_EndLast {l : List CbEvent} (h : EndLast l) (hm : CbEvent.endmarker ∈ l) :
    l.getLast? = some CbEvent.endmarker := by
  obtain ⟨pre, post, e⟩ := List.append_of_mem hm
  have := h pre post e
  subst this
  simp [e]

/-- the endmarker is delivered at most once, and it is the last callback event -/
theorem C10_endmarker_once {st : State} (p : Side) (id : Nat) (h : CbInv st)
    (hb : (st.side p).broken id = false) :
    ((st.side p).cbLog id).count .endmarker ≤ 1 ∧
    (.endmarker ∈ (st.side p).cbLog id → ((st.side p).cbLog id).getLast? = some .endmarker) := by
  have h2 : EndLast ((st.side p).cbLog id) := (h p id).2.1 hb
  exact ⟨count_endmarker_le_one h2, getLast_of_EndLast h2⟩

/-- a requested endmarker has been delivered once the conversation ended at this side — by the
peer's close / error / last-message frame, by a local close, or by the receiver epilogue (connection loss / termination / a callback raising after
the IO was closed);
also when the local channel object was dropped -/
theorem C10_endmarker_eventually {st : State} (p : Side) (id : Nat) (h : CbInv st)
    (hw : (st.side p).cbWants id = some true) (he : (st.side p).ended id = true)
    (hb : (st.side p).broken id = false) : CbEvent.endmarker ∈ (st.side p).cbLog id :=
  (h p id).2.2.2.2.2.1 hw he hb

/-- in callback mode `receive` and a second `setcallback` are refused -/
theorem C10_receive_refused (fails : Item → Bool) (st : State) (p : Side) (id : Nat) (w : Bool)
    (ha : ((st.side p).chans id).alive = true) (hq : ((st.side p).chans id).queue = none) :
    (step fails st (.receive p id)).1 = .osError ∧ (step fails st (.setcallback p id w)).1 = .osError := by
  simp [step, ha, hq]

end ExecnetVerif.Net
