/-
C17 helper: the receiver's structure phase parses the sender's pre-order stream back into the
source's shape — `recv` on `structMsgs src` yields the skeleton with the decision-table leaves and the
requests of the leaves in pre-order.
-/
import ExecnetVerif.Proofs.RsyncBasic
namespace ExecnetVerif.Rsync
open ExecnetVerif.Path

/-- the entry a file / link position is left with by the structure phase -/
def leaf1 : Tree → Tree → Tree
  | .file b m t, tgt => (decideFile (some m) t b.size tgt).1
  | .absent, tgt => (decideFile none 0 0 tgt).1
  | .link _, tgt => tgt
  | .dir _ _, tgt => tgt

/-- the request a file position issues (relative path `[]`) -/
def leafReq : Tree → Tree → List Req
  | .file b m t, tgt => match (decideFile (some m) t b.size tgt).2 with
    | none => []
    | some ck => [⟨[], some m, t, b.size, ck⟩]
  | .absent, tgt => match (decideFile none 0 0 tgt).2 with
    | none => []
    | some ck => [⟨[], none, 0, 0, ck⟩]
  | .link _, _ => []
  | .dir _ _, _ => []

def Req.pre (n : Name) (r : Req) : Req := { r with path := n :: r.path }
def Req.addPre (p : List Name) (r : Req) : Req := { r with path := p ++ r.path }

theorem Req.addPre_snoc (p : List Name) (n : Name) (r : Req) :
    Req.addPre (p ++ [n]) r = Req.addPre p (Req.pre n r) := by
  simp [Req.addPre, Req.pre]

theorem Req.addPre_nil (r : Req) : Req.addPre [] r = r := by
  simp [Req.addPre]

/-- the requests of a sync in the order they are issued, paths relative to the root -/
def reqsOf (src tgt : Tree) : List Req := collect Req.pre leafReq src tgt

theorem recv_stream (del : Bool) (src : Tree) :
    ∀ fuel rel tgt rest, fuelOf src ≤ fuel →
      recv del fuel rel tgt (structMsgs src ++ rest) =
        (skel leaf1 del src tgt, (reqsOf src tgt).map (Req.addPre rel), rest) := by
  refine Tree.rec
    (motive_1 := fun src => ∀ fuel rel tgt rest, fuelOf src ≤ fuel →
      recv del fuel rel tgt (structMsgs src ++ rest) =
        (skel leaf1 del src tgt, (collect Req.pre leafReq src tgt).map (Req.addPre rel), rest))
    (motive_2 := fun es => ∀ fuel rel tes rest, fuelOfL es ≤ fuel →
      recvEntries del fuel rel tes (es.map Prod.fst) (structMsgsL es ++ rest) =
        (skelL leaf1 del es tes, (collectL Req.pre leafReq es tes).map (Req.addPre rel), rest))
    (motive_3 := fun e => ∀ fuel rel tgt rest, fuelOf e.2 ≤ fuel →
      recv del fuel rel tgt (structMsgs e.2 ++ rest) =
        (skel leaf1 del e.2 tgt, (collect Req.pre leafReq e.2 tgt).map (Req.addPre rel), rest))
    ?_ ?_ ?_ ?_ ?_ ?_ ?_ src
  · -- file
    intro b m t fuel rel tgt rest hf
    cases fuel with
    | zero => simp [fuelOf] at hf
    | succ f =>
      simp only [structMsgs, List.cons_append, List.nil_append, recv, collect, leafReq, skel, leaf1]
      cases h : (decideFile (some m) t b.size tgt).2 with
      | none => simp
      | some ck => simp [Req.addPre]
  · -- dir
    intro m es ih fuel rel tgt rest hf
    cases fuel with
    | zero => simp [fuelOf] at hf
    | succ f =>
      have hf' : fuelOfL es ≤ f := by simp only [fuelOf] at hf; omega
      simp only [structMsgs, List.cons_append, recv, collect, skel]
      rw [ih f rel (entriesOf tgt) rest hf']
      simp [others]
  · -- link
    intro tg fuel rel tgt rest hf
    cases fuel with
    | zero => simp [fuelOf] at hf
    | succ f => simp [structMsgs, recv, collect, leafReq, skel, leaf1]
  · -- absent
    intro fuel rel tgt rest hf
    cases fuel with
    | zero => simp [fuelOf] at hf
    | succ f =>
      simp only [structMsgs, List.cons_append, List.nil_append, recv, collect, leafReq, skel, leaf1]
      cases h : (decideFile none 0 0 tgt).2 with
      | none => simp
      | some ck => simp [Req.addPre]
  · -- nil
    intro fuel rel tes rest _
    cases fuel <;> simp [recvEntries, structMsgsL, skelL, collectL]
  · -- cons
    intro head tail ihh iht fuel rel tes rest hf
    obtain ⟨n, s⟩ := head
    cases fuel with
    | zero => simp [fuelOfL] at hf
    | succ f =>
      simp only [fuelOfL] at hf
      have h1 : fuelOf s ≤ f := by omega
      have h2 : fuelOfL tail ≤ f := by omega
      simp only [List.map_cons, structMsgsL, List.append_assoc, recvEntries]
      rw [ihh f (rel ++ [n]) (lookup n tes) (structMsgsL tail ++ rest) h1]
      simp only []
      rw [iht f rel tes rest h2]
      simp [skelL, collectL, Req.addPre_snoc]
  · intro n t ih; exact ih

end ExecnetVerif.Rsync
