/-
Line-protocol syntax for the rsync model (space separated tokens; every string is the hex of its
UTF-8 bytes, `-` for the empty string; numbers are decimal):

  tree   ::= F <size> <id> <mode> <mtime> | D <mode> <n> (<name> tree)^n | L <target> | A
  target ::= <destdir> <delete 0|1> tree

  rsync.sync    <sourcedir> <cwd> tree | target (| target)*     (fixed tree)
  rsync.syncold <sourcedir> <cwd> tree | target (| target)*     (pinned pre-D14 link classification)
  rsync.multi   <sched i,j,…|-> <sourcedir> <cwd> tree | target (| target)*   (explicit serving order)
  rsync.expect  <sourcedir> <cwd> tree | target (| target)*     (the tree the property demands)

answer: per target `tree ; sent`, joined by ` | `; the tree is printed canonically (entries sorted by
the hex of their name, absent entries dropped), `sent` is the sorted list of `name/name/…` paths
(hex components) or `-`.
Not part of any theorem: parser/printer (exercised by the correspondence runs).
-/
import ExecnetVerif.Model.Bytes
import ExecnetVerif.Model.Rsync
namespace ExecnetVerif
open ExecnetVerif.Rsync ExecnetVerif.Path

namespace RsyncIO

def strHex (s : String) : String := toHex (utf8Encode s)

def hexStr (h : String) : Option String := do
  let b ← ofHex h
  utf8Decode b

def rawOfString (s : String) : RawPath := s.splitOn "/"
def stringOfRaw (p : RawPath) : String := "/".intercalate p

def insertSorted (e : String × List String) : List (String × List String) → List (String × List String)
  | [] => [e]
  | x :: r => if e.1 ≤ x.1 then e :: x :: r else x :: insertSorted e r

def sortStrings : List String → List String
  | [] => []
  | x :: r => (insertSorted (x, []) ((sortStrings r).map (fun s => (s, [])))).map Prod.fst

/-- first binding of a name wins -/
def dedup : List (Name × Tree) → List Name → List (Name × Tree)
  | [], _ => []
  | (n, t) :: r, seen => if n ∈ seen then dedup r seen else (n, t) :: dedup r (n :: seen)

partial def treeTokens : Tree → List String
  | .file b m t => ["F", toString b.size, toString b.id, toString m, toString t]
  | .link t => ["L", strHex (stringOfRaw t)]
  | .absent => ["A"]
  | .dir m es =>
    let uniq := (dedup es []).filter (fun e => match e.2 with | .absent => false | _ => true)
    let rendered := uniq.map (fun e => (strHex e.1, treeTokens e.2))
    let sorted := rendered.foldl (fun acc e => insertSorted e acc) []
    ["D", toString m, toString sorted.length] ++ sorted.flatMap (fun e => e.1 :: e.2)

mutual
partial def parseTree : List String → Option (Tree × List String)
  | "F" :: s :: i :: m :: t :: r => do
    let s ← s.toNat?; let i ← i.toNat?; let m ← m.toNat?; let t ← t.toNat?
    pure (.file ⟨s, i⟩ m t, r)
  | "L" :: h :: r => do
    let s ← hexStr h
    pure (.link (rawOfString s), r)
  | "A" :: r => some (.absent, r)
  | "D" :: m :: n :: r => do
    let m ← m.toNat?; let n ← n.toNat?
    let (es, r') ← parseEntries n r
    pure (.dir m es, r')
  | _ => none
partial def parseEntries : Nat → List String → Option (List (Name × Tree) × List String)
  | 0, r => some ([], r)
  | k + 1, h :: r => do
    let nm ← hexStr h
    let (t, r1) ← parseTree r
    let (es, r2) ← parseEntries k r1
    pure ((nm, t) :: es, r2)
  | _, _ => none
end

def splitBar : List String → List (List String)
  | [] => [[]]
  | "|" :: r => [] :: splitBar r
  | x :: r => match splitBar r with
    | [] => [[x]]
    | g :: gs => (x :: g) :: gs

def parseTarget : List String → Option Target
  | d :: del :: r => do
    let d ← hexStr d
    let del ← (match del with | "0" => some false | "1" => some true | _ => none)
    match parseTree r with
    | some (t, []) => some ⟨rawOfString d, del, t⟩
    | _ => none
  | _ => none

def parseTargets : List (List String) → Option (List Target)
  | [] => some []
  | g :: gs => do
    let t ← parseTarget g
    let ts ← parseTargets gs
    pure (t :: ts)

def parseHead : List String → Option (Sender × Tree)
  | s :: c :: r => do
    let s ← hexStr s
    let c ← hexStr c
    match parseTree r with
    | some (t, []) => some (⟨rawOfString s, rawOfString c⟩, t)
    | _ => none
  | _ => none

def renderResult (r : Result) : String :=
  let paths := sortStrings (r.sent.map (fun p => "/".intercalate (p.map strHex)))
  " ".intercalate (treeTokens r.tree) ++ " ; " ++ (if paths.isEmpty then "-" else " ".intercalate paths)

def parseSched (s : String) : Option (List Nat) :=
  if s = "-" then some [] else (s.splitOn ",").mapM (·.toNat?)

def run (f : Sender → Tree → List Target → List Result) (toks : List String) : String :=
  match splitBar toks with
  | head :: tgs@(_ :: _) =>
    match parseHead head, parseTargets tgs with
    | some (sd, src), some ts => " | ".intercalate ((f sd src ts).map renderResult)
    | _, _ => "bad-op"
  | _ => "bad-op"

end RsyncIO

open RsyncIO in
/-- rsync commands of the driver -/
def rsyncHandle : List String → Option String
  | "rsync.sync" :: toks => some (run (fun sd src ts => ts.map (sync sd src)) toks)
  | "rsync.syncold" :: toks => some (run (fun sd src ts => ts.map (syncOld sd src)) toks)
  | "rsync.multi" :: sched :: toks =>
    match parseSched sched with
    | some sc => some (run (fun sd src ts => syncAll sd src ts sc) toks)
    | none => some "bad-op"
  | "rsync.expect" :: toks =>
    some (run (fun sd src ts => ts.map (fun tg =>
      ⟨expect sd.sourcedir tg.destdir tg.delete src tg.tree, expectSent src tg.tree⟩)) toks)
  | _ => none

end ExecnetVerif
