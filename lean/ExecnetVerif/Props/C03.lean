/-
C03 — Close is ordered after data and observed consistently by both sides.
-/
import ExecnetVerif.Proofs.Net.Wire
import ExecnetVerif.Proofs.Net.Got
import ExecnetVerif.Proofs.Net.Close
import ExecnetVerif.Props.NetFine
namespace ExecnetVerif
open Net

/-- **C03 (data before the close).** Once side `p` has handled a closing frame of the peer for a
channel (CLOSE, CLOSE_ERROR or LAST_MESSAGE — explicit close, end of the remote_exec, or the peer
dropping its last reference), it has handled EVERY item the peer ever sent on that channel: closing
frames travel behind the data on the same FIFO, and the peer cannot send afterwards. -/
theorem C03_data_before_eof {fails : Item → Bool} {st : State} (h : Reachable fails st) (p : Side) (id : Nat)
    (hs : (st.side p).closeSeen id = true) (hb : (st.side p.peer).broken id = false) :
    (st.side p).delivered id = (st.side p.peer).sent id :=
  Net.C03_data_before_eof st p id (WireInv_reachable h)
    (CloseInv_reachable fails (fun _ hr => ShapeInv_reachable hr) st h) hs hb

/-- … and if `p` kept its end (nothing dropped, id not re-opened) those items are exactly what it has
obtained so far plus what is still queued before the ENDMARKER: nothing is lost at the end. -/
theorem C03_all_items_receivable {fails : Item → Bool} {st : State} (h : Reachable fails st) (p : Side) (id : Nat)
    (hs : (st.side p).closeSeen id = true) (hb : (st.side p.peer).broken id = false)
    (hd : (st.side p).dropped id = false) (hbp : (st.side p).broken id = false) :
    (st.side p).got id ++ queueItems ((st.side p).chans id).queue = (st.side p.peer).sent id := by
  rw [← C03_data_before_eof h p id hs hb, ← (KeptInv_reachable h p id).2 hd]
  exact (GotInv_reachable h p id).2 hbp

/-- **C03 (EOF is sticky).** Once a channel object has no more items and is at its end (its queue is
nothing but ENDMARKERs, or it is in callback mode), NO operation of anybody ever makes an item
appear on it again — whatever the other threads and the receiver thread do — unless the id is
re-opened by a channel transfer (which marks it `broken`, i.e. a new conversation). -/
theorem C03_eof_sticky {fails : Item → Bool} {st : State} (h : Reachable fails st) (p : Side) (id : Nat)
    (he : noMoreItems ((st.side p).chans id)) (op : Op) :
    noMoreItems (((step fails st op).2.side p).chans id) ∨ ((step fails st op).2.side p).broken id = true :=
  Net.C03_no_item_after_end (ShapeInv_reachable h) he op

/-- … and every `receive` in that state raises (EOFError, a pending RemoteError once, or OSError in
callback mode) — for every receiver, repeatedly. -/
theorem C03_receive_at_end {fails : Item → Bool} {st : State} (p : Side) (id : Nat)
    (he : noMoreItems ((st.side p).chans id)) (ha : ((st.side p).chans id).alive = true) :
    (step fails st (.receive p id)).1 = .osError ∨ (step fails st (.receive p id)).1 = .eofError ∨
      ∃ e, (step fails st (.receive p id)).1 = .remoteError e :=
  Net.C03_receive_at_end he ha

/-- **C03 (the closing side).** On a side whose channel object is closed — by its own `close()`, or
because it handled the peer's close — `send` raises OSError, `isclosed()` is true, `waitclose` does
not block, and a further `close()` is a no-op that writes nothing. -/
theorem C03_closer_side {fails : Item → Bool} {st : State} (h : Reachable fails st) (s : Side) (id : Nat)
    (ha : ((st.side s).chans id).alive = true) (hc : ((st.side s).chans id).closed = true) :
    (∀ v, (step fails st (.send s id v)).1 = .osError ∨ (step fails st (.send s id v)).1 = .notEnabled) ∧
    (step fails st (.isclosed s id)).1 = .bool true ∧
    (step fails st (.waitclose s id)).1 ≠ .wouldBlock ∧
    (((st.side s).chans id).executing = false → step fails st (.close s id none) = (.ok, st)) := by
  have hr : ((st.side s).chans id).rclosed = true := (ShapeInv_reachable h s id).2.1 hc
  refine ⟨?_, ?_, ?_, ?_⟩
  · intro v
    simp only [step, ha, hc]
    split <;> simp
  · simp [step, ha, hc]
  · simp only [step, ha, hr]
    simp only [Bool.not_true, Bool.false_eq_true, if_false, ne_eq]
    split
    · simp
    · split <;> simp
  · intro he
    simp only [step, ha, chanClose, he, hc]
    cases s <;> rfl

/-- the peer cannot send on a channel after it wrote a closing frame for it -/
theorem C03_no_send_after_close {fails : Item → Bool} {st : State} (h : Reachable fails st) (s : Side) (id : Nat)
    (v : Item) (hcs : (st.side s).closeSent id = true) (hb : (st.side s).broken id = false) :
    (step fails st (.send s id v)).1 = .notEnabled ∨ (step fails st (.send s id v)).1 = .osError :=
  Net.C03_no_send_after_close fails st s id v
    (CloseInv_reachable fails (fun _ hr => ShapeInv_reachable hr) st h) hcs hb

/-! non-vacuity: a conversation that ends by the end of the remote_exec; the initiator receives the item,
then EOF twice -/
example : ((run (fun _ => false) init [.remoteExec, .deliver .B, .send .B 1 ⟨7, []⟩, .execFinish 1 .ret,
    .deliver .A, .deliver .A, .receive .A 1, .receive .A 1, .receive .A 1, .waitclose .A 1]).1
    = [.chan 1, .ok, .ok, .ok, .ok, .ok, .item ⟨7, []⟩, .eofError, .eofError, .ok]) := by decide

end ExecnetVerif
