/-
The put-back `pb` commutes with `receive` (queue not empty) and `setcallback` (other channel); summary lemma
`sideStep_pb`.
-/
import ExecnetVerif.Proofs.Net.FineSideStep
namespace ExecnetVerif.Net.Fine
open ExecnetVerif.Net
set_option linter.unusedSimpArgs false

theorem chans_pb_ne (x : SideSt) {id k : Nat} (c' : Chan) (h : k ≠ id) :
    upd (pb x id).chans k c' = upd (upd x.chans k c') id (pbChan (x.chans id)) := by
  simp only [pb_chans]
  rw [upd_comm _ _ _ (Ne.symm h)]

theorem pb_of_chans_ne {x y : SideSt} {id k : Nat} {c' : Chan} (h : k ≠ id) (hy : y.chans = upd x.chans k c') :
    (pb y id).chans = upd (upd x.chans k c') id (pbChan (x.chans id)) := by
  simp only [pb_chans, hy, upd_ne _ _ (Ne.symm h)]

theorem pb_of_chans_same {x y : SideSt} {id : Nat} {c' : Chan} (hy : y.chans = upd x.chans id c') :
    (pb y id).chans = upd x.chans id (pbChan c') := by
  simp only [pb_chans, hy, upd_same, upd_upd]

theorem sideStep_pb_receive_ne (fails : Item → Bool) (x : SideSt) (id : Nat) (s : Side) (k : Nat) (h : k ≠ id) :
    sideStep fails (pb x id) (.receive s k) =
      ((sideStep fails x (.receive s k)).1, pb (sideStep fails x (.receive s k)).2 id) := by
  have hc : (pb x id).chans k = x.chans k := pb_chans_ne x h
  simp only [sideStep, hc, pb_got]
  by_cases h1 : (!(x.chans k).alive) = true
  · simp only [h1, if_true]
  · simp only [h1, if_false, Bool.false_eq_true, reduceIte]
    cases hq : (x.chans k).queue with
    | none => rfl
    | some q =>
      cases q with
      | nil => rfl
      | cons a q =>
        cases a with
        | item v =>
          simp only [Prod.mk.injEq, true_and]
          apply SideSt.ext' <;> try rfl
          exact (chans_pb_ne x _ h).trans (pb_of_chans_ne h rfl).symm
        | endmarker =>
          simp only
          cases hr : (x.chans k).rerrs with
          | nil =>
            simp only [Prod.mk.injEq, true_and]
            apply SideSt.ext' <;> try rfl
            exact (chans_pb_ne x _ h).trans (pb_of_chans_ne h rfl).symm
          | cons e es =>
            simp only [Prod.mk.injEq, true_and]
            apply SideSt.ext' <;> try rfl
            exact (chans_pb_ne x _ h).trans (pb_of_chans_ne h rfl).symm

theorem sideStep_pb_receive_same (fails : Item → Bool) (x : SideSt) (id : Nat) (s : Side)
    (h : (x.chans id).queue ≠ some []) :
    sideStep fails (pb x id) (.receive s id) =
      ((sideStep fails x (.receive s id)).1, pb (sideStep fails x (.receive s id)).2 id) := by
  simp only [sideStep, pb_chans_same, pbChan_alive, pbChan_queue, pbChan_rerrs, pb_got]
  by_cases h1 : (!(x.chans id).alive) = true
  · simp only [h1, if_true]
  · simp only [h1, if_false, Bool.false_eq_true, reduceIte]
    cases hq : (x.chans id).queue with
    | none => rfl
    | some q =>
      cases q with
      | nil => exact absurd hq h
      | cons a q =>
        cases a with
        | item v =>
          simp only [pushEnd, Option.map, List.cons_append, Prod.mk.injEq, true_and]
          apply SideSt.ext' <;> try rfl
          refine Eq.trans ?_ (pb_of_chans_same rfl).symm
          simp only [pb_chans, upd_upd]; rfl
        | endmarker =>
          simp only [pushEnd, Option.map, List.cons_append]
          cases hr : (x.chans id).rerrs with
          | nil =>
            simp only [Prod.mk.injEq, true_and]
            apply SideSt.ext' <;> try rfl
            refine Eq.trans ?_ (pb_of_chans_same rfl).symm
            simp only [pb_chans, upd_upd]; rfl
          | cons e es =>
            simp only [Prod.mk.injEq, true_and]
            apply SideSt.ext' <;> try rfl
            refine Eq.trans ?_ (pb_of_chans_same rfl).symm
            simp only [pb_chans, upd_upd]; rfl

theorem sideStep_pb_setcallback (fails : Item → Bool) (x : SideSt) (id : Nat) (s : Side) (k : Nat) (w : Bool)
    (h : k ≠ id) :
    sideStep fails (pb x id) (.setcallback s k w) =
      ((sideStep fails x (.setcallback s k w)).1, pb (sideStep fails x (.setcallback s k w)).2 id) := by
  have hc : (pb x id).chans k = x.chans k := pb_chans_ne x h
  simp only [sideStep, hc, pb_got, pb_cbWants, pb_cbLog, pb_broken, pb_cbs]
  by_cases h1 : (!(x.chans k).alive) = true
  · simp only [h1, if_true]
  · simp only [h1, if_false, Bool.false_eq_true, reduceIte]
    cases hq : (x.chans k).queue with
    | none => rfl
    | some q =>
      simp only
      rcases drain fails q with ⟨vs, raised, sawEnd⟩
      simp only
      by_cases h2 : raised = true
      · simp only [h2, if_true, Prod.mk.injEq, true_and]
        apply SideSt.ext' <;> try rfl
        exact (chans_pb_ne x _ h).trans (pb_of_chans_ne h rfl).symm
      · by_cases h3 : sawEnd = true
        · simp only [h2, h3, if_true, if_false, Bool.false_eq_true, reduceIte, Prod.mk.injEq, true_and]
          apply SideSt.ext' <;> try rfl
          exact (chans_pb_ne x _ h).trans (pb_of_chans_ne h rfl).symm
        · by_cases h4 : ((x.chans k).closed || (x.chans k).rclosed) = true
          · simp only [h2, h3, h4, if_true, if_false, Bool.false_eq_true, reduceIte, Prod.mk.injEq, true_and]
            apply SideSt.ext' <;> try rfl
            exact (chans_pb_ne x _ h).trans (pb_of_chans_ne h rfl).symm
          · simp only [h2, h3, h4, if_true, if_false, Bool.false_eq_true, reduceIte, Prod.mk.injEq, true_and]
            apply SideSt.ext' <;> try rfl
            exact (chans_pb_ne x _ h).trans (pb_of_chans_ne h rfl).symm

/-- the put-back commutes with every one-sided operation that respects the hand -/
theorem sideStep_pb (fails : Item → Bool) (x : SideSt) (id : Nat) (op : Op) (h : SideComm x id op) :
    sideStep fails (pb x id) op = ((sideStep fails x op).1, pb (sideStep fails x op).2 id) := by
  cases op with
  | newchannel s => exact sideStep_pb_newchannel fails x id s h
  | remoteExec => exact sideStep_pb_remoteExec fails x id h
  | send s k v => exact sideStep_pb_send fails x id s k v
  | close s k err => exact sideStep_pb_close fails x id s k err
  | receive s k =>
    by_cases hk : k = id
    · subst hk; exact sideStep_pb_receive_same fails x k s (h rfl)
    · exact sideStep_pb_receive_ne fails x id s k hk
  | waitclose s k => exact sideStep_pb_waitclose fails x id s k
  | setcallback s k w => exact sideStep_pb_setcallback fails x id s k w h
  | drop s k => exact sideStep_pb_drop fails x id s k
  | isclosed s k => exact sideStep_pb_isclosed fails x id s k
  | deliver p => rfl
  | execFinish k o => exact sideStep_pb_execFinish fails x id k o
  | cut p => rfl

end ExecnetVerif.Net.Fine
