/-
C01 — Serializer round-trip is total and type-exact on builtin values.
Property theorems only (helper lemmas live in Proofs/).
-/
import ExecnetVerif.Proofs.SerRoundtrip
namespace ExecnetVerif

/-- contains an unsupported leaf (other type / subclass instance / name-colliding class) or a
str that is not UTF-8 encodable, at any nesting position -/
inductive HasBad : PyVal → Prop
  | foreign : HasBad .foreign
  | badstr : HasBad .badstr
  | list {xs x} : x ∈ xs → HasBad x → HasBad (.list xs)
  | tuple {xs x} : x ∈ xs → HasBad x → HasBad (.tuple xs)
  | set {xs x} : x ∈ xs → HasBad x → HasBad (.set xs)
  | frozenset {xs x} : x ∈ xs → HasBad x → HasBad (.frozenset xs)
  | dictKey {kvs k v} : (k, v) ∈ kvs → HasBad k → HasBad (.dict kvs)
  | dictVal {kvs k v} : (k, v) ∈ kvs → HasBad v → HasBad (.dict kvs)

theorem orElse'_isSome_left {a b : Option DumpErr} (h : a.isSome) : (orElse' a b).isSome := by
  cases a <;> simp_all [orElse']

theorem orElse'_isSome_right {a b : Option DumpErr} (h : b.isSome) : (orElse' a b).isSome := by
  cases a <;> simp_all [orElse']

theorem dumpErrAll_isSome : ∀ (xs : List PyVal) (x : PyVal), x ∈ xs → (dumpErr x).isSome →
    (dumpErrAll xs).isSome := by
  intro xs
  induction xs with
  | nil => intro x hx; simp at hx
  | cons y t ih =>
    intro x hx hs
    simp only [dumpErrAll]
    simp only [List.mem_cons] at hx
    cases hx with
    | inl h => subst h; exact orElse'_isSome_left hs
    | inr h => exact orElse'_isSome_right (ih x h hs)

theorem dumpErrPairs_isSome : ∀ (kvs : List (PyVal × PyVal)) (k v : PyVal), (k, v) ∈ kvs →
    ((dumpErr k).isSome ∨ (dumpErr v).isSome) → (dumpErrPairs kvs).isSome := by
  intro kvs
  induction kvs with
  | nil => intro k v hx; simp at hx
  | cons y t ih =>
    intro k v hx hs
    obtain ⟨k', v'⟩ := y
    simp only [dumpErrPairs]
    simp only [List.mem_cons, Prod.mk.injEq] at hx
    cases hx with
    | inl h =>
      obtain ⟨rfl, rfl⟩ := h
      cases hs with
      | inl h1 => exact orElse'_isSome_left h1
      | inr h2 => exact orElse'_isSome_right (orElse'_isSome_left h2)
    | inr h => exact orElse'_isSome_right (orElse'_isSome_right (ih k v h hs))

/-- **C01 (rejection).** A value containing an unsupported leaf or a non-encodable string at any
nesting position is never serialized: the encoder reports an error instead of producing bytes, so
`Channel.send` (which encodes before it touches the connection) writes nothing. -/
theorem C01_reject (v : PyVal) (h : HasBad v) : ∃ e, dumps v = .error e ∧ encodeInternal v = .error e := by
  have key : (dumpErr v).isSome := by
    induction h with
    | foreign => simp [dumpErr]
    | badstr => simp [dumpErr]
    | list hx _ ih => simp only [dumpErr]; exact orElse'_isSome_right (dumpErrAll_isSome _ _ hx ih)
    | tuple hx _ ih => simp only [dumpErr]; exact orElse'_isSome_left (dumpErrAll_isSome _ _ hx ih)
    | set hx _ ih => simp only [dumpErr]; exact orElse'_isSome_left (dumpErrAll_isSome _ _ hx ih)
    | frozenset hx _ ih => simp only [dumpErr]; exact orElse'_isSome_left (dumpErrAll_isSome _ _ hx ih)
    | dictKey hx _ ih => simp only [dumpErr]; exact dumpErrPairs_isSome _ _ _ hx (Or.inl ih)
    | dictVal hx _ ih => simp only [dumpErr]; exact dumpErrPairs_isSome _ _ _ hx (Or.inr ih)
  cases hd : dumpErr v with
  | none => simp [hd] at key
  | some e => exact ⟨e, by simp [dumps, hd], by simp [encodeInternal, hd]⟩

theorem lenErr_none {n : Nat} (h : n < two31) : lenErr n = none := by simp [lenErr, h]

/-- every well-formed value is accepted by the encoder -/
theorem dumpErr_of_WF (v : PyVal) : WF v → dumpErr v = none := by
  refine PyVal.rec (motive_1 := fun v => WF v → dumpErr v = none)
    (motive_2 := fun xs => WFAll xs → dumpErrAll xs = none)
    (motive_3 := fun kvs => WFPairs kvs → dumpErrPairs kvs = none)
    (motive_4 := fun kv => (WF kv.1 → dumpErr kv.1 = none) ∧ (WF kv.2 → dumpErr kv.2 = none))
    ?none ?bool ?int ?float ?complex ?bytes ?str ?badstr ?list ?tuple ?dict ?set ?frozenset
    ?channel ?foreign ?nil1 ?cons1 ?nil2 ?cons2 ?mk v
  case none => intro _; simp [dumpErr]
  case bool => intro _ _; simp [dumpErr]
  case int =>
    intro i h; simp only [WF] at h; simp only [dumpErr]
    split
    · rfl
    · rename_i hi
      cases h with
      | inl h => exact absurd h hi
      | inr h => simp; omega
  case float => intro _ _; simp [dumpErr]
  case complex => intro _ _ _; simp [dumpErr]
  case bytes => intro b h; simp only [WF] at h; simp [dumpErr, lenErr_none h]
  case str => intro s h; simp only [WF] at h; simp [dumpErr, lenErr_none h]
  case badstr => intro h; simp [WF] at h
  case foreign => intro h; simp [WF] at h
  case channel => intro _ h; simp [WF] at h
  case list => intro xs ih h; simp only [WF] at h; simp [dumpErr, lenErr_none h.1, ih h.2, orElse']
  case tuple => intro xs ih h; simp only [WF] at h; simp [dumpErr, lenErr_none h.1, ih h.2, orElse']
  case dict => intro kvs ih h; simp only [WF] at h; simp [dumpErr, ih h.1]
  case set => intro xs ih h; simp only [WF] at h; simp [dumpErr, lenErr_none h.1, ih h.2.1, orElse']
  case frozenset => intro xs ih h; simp only [WF] at h; simp [dumpErr, lenErr_none h.1, ih h.2.1, orElse']
  case nil1 => intro _; simp [dumpErrAll]
  case cons1 => intro x t ih1 ih2 h; simp only [WFAll] at h; simp [dumpErrAll, ih1 h.1, ih2 h.2, orElse']
  case nil2 => intro _; simp [dumpErrPairs]
  case cons2 =>
    intro kv t ih1 ih2 h
    obtain ⟨k, v⟩ := kv
    simp only [WFPairs] at h
    simp [dumpErrPairs, ih1.1 h.1, ih1.2 h.2.1, ih2 h.2.2, orElse']
  case mk => intro a b ih1 ih2; exact ⟨ih1, ih2⟩

/-- **C01 (totality).** Every value of the supported grammar is serialized (never rejected). -/
theorem C01_total (v : PyVal) (h : WF v) :
    dumps v = .ok (dumpVersion :: (enc v ++ [opSTOP])) := by
  simp [dumps, dumpErr_of_WF v h]

/-- **C01 (round-trip, public API).** For every well-formed value, `loads(dumps(v))` is exactly
`v`: structural equality of `PyVal` is type-exactness at every position, dict insertion order,
set membership and float bit patterns. -/
theorem C01_roundtrip (v : PyVal) (h : WF v) :
    ∃ b, dumps v = .ok b ∧ loads cfgPublic b = .ok v := by
  refine ⟨_, C01_total v h, ?_⟩
  simp only [loads, if_true]
  rw [run_enc cfgPublic rfl rfl v h [opSTOP] []]
  rw [run_stop (step_STOP cfgPublic [] [v])]
  rfl

/-- **C01 (round-trip, channel path).** `Channel.send` encodes with `dumps_internal` and the peer
decodes with `loads_internal` under the channel's string configuration; with any configuration
that does not ask for py3 `str` as py2 `str` (the default) the received value is exactly `v`. -/
theorem C01_roundtrip_channel (cfg : Cfg) (hcfg : cfg.py3str_as_py2str = false)
    (hmem : cfg.memLimit = none) (v : PyVal) (h : WF v) : ∃ b, encodeInternal v = .ok b ∧ loadsInternal cfg b = .ok v := by
  refine ⟨enc v ++ [opSTOP], by simp [encodeInternal, dumpErr_of_WF v h], ?_⟩
  simp only [loadsInternal]
  rw [run_enc cfg hcfg hmem v h [opSTOP] []]
  rw [run_stop (step_STOP cfg [] [v])]
  rfl

/-- **C01 (stream form).** `dump`/`load` write and read the same byte sequence piecewise; however
the dump is cut into chunks, loading their concatenation gives the value back. -/
theorem C01_stream (v : PyVal) (h : WF v) (chunks : List Bytes) (b : Bytes)
    (hd : dumps v = .ok b) (hc : chunks.flatten = b) : loads cfgPublic chunks.flatten = .ok v := by
  obtain ⟨b', hb', hl⟩ := C01_roundtrip v h
  rw [hd] at hb'; cases hb'; rw [hc]; exact hl

/-- **C01 (dumps is injective).** Two supported values with the same dump are the same value — same type at
every position, same dict order, same float bits: the byte string determines the value, so nothing
type-distinguishing is lost on the wire (`1` / `True` / `1.0`, `[]` / `()`, `b""` / `""`, set / frozenset). -/
theorem C01_dumps_injective (v w : PyVal) (hv : WF v) (hw : WF w) (h : dumps v = dumps w) : v = w := by
  obtain ⟨b, hb, hl⟩ := C01_roundtrip v hv
  obtain ⟨b', hb', hl'⟩ := C01_roundtrip w hw
  rw [h, hb'] at hb
  cases hb
  rw [hl] at hl'
  cases hl'
  rfl

/-! ### non-vacuity: a concrete non-trivial value satisfies the hypotheses -/

def exampleValue : PyVal :=
  .dict [(.tuple [.int (-2147483649), .float 0x7ff8000000000000], .list [.bool true, .int 1]),
         (.int 1, .set [.str "é", .int 2, .frozenset [.none]]),
         (.bytes [0, 255], .complex 0x8000000000000000 0x3ff0000000000000)]

example : WF exampleValue := by
  simp [exampleValue, WF, WFAll, WFPairs, fresh, hashable, hashableAll, pyMem, pyEq, PyVal.num?,
    inI32, numDigits, maxStrDigits, two31, two64, natDigits, utf8Encode]
  decide

example : HasBad (.list [.int 1, .dict [(.str "k", .tuple [.foreign])]]) :=
  .list (x := .dict [(.str "k", .tuple [.foreign])]) (by simp)
    (.dictVal (k := .str "k") (v := .tuple [.foreign]) (by simp) (.tuple (x := .foreign) (by simp) .foreign))

end ExecnetVerif
