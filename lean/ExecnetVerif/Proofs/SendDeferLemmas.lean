import ExecnetVerif.Model.SendDefer
namespace ExecnetVerif.SendDefer
open SendTree

theorem framesList_append {α : Type} (a b : List (SendTree α)) : framesList (a ++ b) = framesList a ++ framesList b := by
  induction a with
  | nil => simp [framesList]
  | cons t ts ih => simp [framesList, ih, List.append_assoc]

/-- the wire carries exactly the frames that were attempted: each once -/
theorem drain_perm {α : Type} (q : List (SendTree α)) : (drain q).Perm (framesList q) := by
  fun_induction drain q with
  | case1 => simp [framesList]
  | case2 f ks q ih =>
    simp only [framesList, frames, framesList_append] at *
    refine List.Perm.cons f ?_
    exact ih.trans List.perm_append_comm

theorem drain_length {α : Type} (q : List (SendTree α)) : (drain q).length = (framesList q).length :=
  (drain_perm q).length_eq

end ExecnetVerif.SendDefer
