/-
L5 (id part) — `execnet.multi.Group`: id allocation, reservation, registration and the container
protocol, as they are after the `fix:` commit for D12.  Each step below is one critical section of
`Group._autoidlock` (`allocate_id`, `_reserve_id`, the release in `makegateway`'s `except`,
`_register`, `_unregister`) or the lock-free creation of the IO/gateway object between them; a
schedule is any list of (thread, step), so a statement over all schedules is a statement over all
interleavings at this granularity.
No Mathlib import: this file is linked into the native driver.
-/
namespace ExecnetVerif.Group

abbrev Id := List Char

/-- `"gw" + str(self._autoidcounter)` -/
def autoId (n : Nat) : Id := 'g' :: 'w' :: (Nat.repr n).toList

/-- where a thread is inside `makegateway` -/
inductive Pc
  | idle                  -- not inside makegateway
  | reserved (id : Id)    -- `_reserve_id` done; no IO / process created yet
  | created (id : Id)     -- IO created and bootstrapped, gateway object exists; not registered yet
  deriving DecidableEq, Repr

/-- a registered gateway: its id and its object identity (creation serial) -/
structure Gw where
  id : Id
  obj : Nat
  deriving DecidableEq, Repr

structure State where
  counter : Nat             -- `_autoidcounter`
  live : List Gw            -- `_gateways` (iteration order)
  reserved : List Id        -- `_reserved_ids`
  pcs : Nat → Pc            -- per thread
  autos : List Id           -- ghost: every automatically allocated id handed out so far
  serial : Nat              -- ghost: next object identity

def init : State :=
  { counter := 0, live := [], reserved := [], pcs := fun _ => .idle, autos := [], serial := 0 }

inductive Op
  | allocAuto                 -- `group.allocate_id(spec)` with `spec.id is None` (outside makegateway)
  | beginAuto                 -- `makegateway(spec)`, `spec.id is None`: `_reserve_id`
  | beginExplicit (id : Id)   -- `makegateway(spec)`, id given (or allocated earlier): `_reserve_id`
  | createOk                  -- `create_io` + `bootstrap` succeeded
  | createFail                -- they raised: the reservation is released, the exception propagates
  | register                  -- `_register(gw)`
  | unregister (obj : Nat)    -- `gateway.exit()` → `_unregister(gw)`, from any thread
  deriving DecidableEq, Repr

inductive Out
  | ok
  | id (i : Id)      -- the automatically allocated id
  | valueError       -- "already have gateway with id …"
  | noop             -- step not enabled in this state (wrong program counter / unknown gateway)
  deriving DecidableEq, Repr

def State.liveIds (g : State) : List Id := g.live.map (·.id)

/-- `_id_taken(id)` -/
def State.taken (g : State) (i : Id) : Bool := g.reserved.contains i || g.liveIds.contains i

def setPc (g : State) (t : Nat) (pc : Pc) : State :=
  { g with pcs := fun u => if u = t then pc else g.pcs u }

def step (g : State) (t : Nat) : Op → State × Out
  | .allocAuto =>
    match g.pcs t with
    | .idle =>
      let i := autoId g.counter
      let g1 := { g with counter := g.counter + 1 }
      if g.taken i then (g1, .valueError) else ({ g1 with autos := g1.autos ++ [i] }, .id i)
    | _ => (g, .noop)
  | .beginAuto =>
    match g.pcs t with
    | .idle =>
      let i := autoId g.counter
      let g1 := { g with counter := g.counter + 1 }
      if g.taken i then (g1, .valueError)
      else (setPc { g1 with autos := g1.autos ++ [i], reserved := g1.reserved ++ [i] } t (.reserved i), .id i)
    | _ => (g, .noop)
  | .beginExplicit i =>
    match g.pcs t with
    | .idle =>
      if g.taken i then (g, .valueError)
      else (setPc { g with reserved := g.reserved ++ [i] } t (.reserved i), .ok)
    | _ => (g, .noop)
  | .createOk =>
    match g.pcs t with
    | .reserved i => (setPc g t (.created i), .ok)
    | _ => (g, .noop)
  | .createFail =>
    match g.pcs t with
    | .reserved i => (setPc { g with reserved := g.reserved.erase i } t .idle, .ok)
    | _ => (g, .noop)
  | .register =>
    match g.pcs t with
    | .created i =>
      if g.liveIds.contains i then
        -- `_register` raises ValueError; `makegateway` releases the reservation
        (setPc { g with reserved := g.reserved.erase i } t .idle, .valueError)
      else
        (setPc { g with live := g.live ++ [⟨i, g.serial⟩], serial := g.serial + 1,
                        reserved := g.reserved.erase i } t .idle, .ok)
    | _ => (g, .noop)
  | .unregister o =>
    if g.live.any (·.obj == o) then ({ g with live := g.live.filter (·.obj != o) }, .ok)
    else (g, .noop)

/-- run a schedule; the outcomes in order -/
def run : State → List (Nat × Op) → State × List Out
  | g, [] => (g, [])
  | g, (t, op) :: rest =>
    let r := step g t op
    let rr := run r.1 rest
    (rr.1, r.2 :: rr.2)

/-- reachable = the state after some schedule from the empty group -/
def Reachable (g : State) : Prop := ∃ sched, (run init sched).1 = g

/-! ### container protocol (`__iter__`, `__len__`, `__getitem__`, `__contains__`) -/

/-- `list(group)` -/
def iter (g : State) : List Gw := g.live
/-- `group[i]` for a non-negative int -/
def getIdx (g : State) (i : Nat) : Option Gw := g.live[i]?
/-- `group[id]`: the first gateway with that id, KeyError (`none`) otherwise -/
def getId (g : State) (i : Id) : Option Gw := g.live.find? (·.id == i)
/-- `group[gw]`: the first gateway equal to the object -/
def getObj (g : State) (o : Nat) : Option Gw := g.live.find? (·.obj == o)
/-- `id in group` -/
def containsId (g : State) (i : Id) : Bool := (getId g i).isSome
/-- `gw in group` -/
def containsObj (g : State) (o : Nat) : Bool := (getObj g o).isSome

end ExecnetVerif.Group
