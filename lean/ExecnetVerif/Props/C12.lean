/-
C12 — Serialized byte format is stable and version-compatible.
The Lean encoder/decoder in Model/Serializer.lean IS the frozen specification of dump format 2;
this file pins the tables regenerated from the code to it and states the format shape by shape.
-/
import ExecnetVerif.Proofs.SerRoundtrip
import ExecnetVerif.Generated.Tables
namespace ExecnetVerif

/-- **C12 (opcode letters).** The code's opcode table is exactly the frozen table of format 2
(one fixed letter per type), and the letters are pairwise distinct. -/
theorem C12_opcodes : Generated.opcodeTable = specOpcodeTable := by decide

theorem C12_opcodes_nodup : (specOpcodeTable.map Prod.snd).Nodup := by decide

theorem C12_constants :
    Generated.dumpVersion = dumpVersion.toNat ∧ Generated.fourByteIntMax = 2147483647 ∧
    Generated.floatFormat = "!d" ∧ Generated.complexFormat = "!dd" ∧
    ("Unserializer._read_int4", "unpack", "!i") ∈ Generated.structFormats ∧
    ("_Serializer._write_int4", "pack", "!i") ∈ Generated.structFormats := by decide

/-- which loader each opcode is bound to — the legacy opcodes LONG/LONGLONG share the loaders of
INT/LONGINT -/
def specLoaderTable : List (String × String) :=
  [("NONE", "load_none"), ("TRUE", "load_true"), ("FALSE", "load_false"), ("INT", "load_int"),
   ("LONGINT", "load_longint"), ("LONG", "load_int"), ("LONGLONG", "load_longint"),
   ("FLOAT", "load_float"), ("COMPLEX", "load_complex"), ("PY3STRING", "load_py3string"),
   ("PY2STRING", "load_py2string"), ("BYTES", "load_bytes"), ("UNICODE", "load_unicode"),
   ("NEWLIST", "load_newlist"), ("SETITEM", "load_setitem"), ("NEWDICT", "load_newdict"),
   ("BUILDTUPLE", "load_buildtuple"), ("SET", "load_set"), ("FROZENSET", "load_frozenset"),
   ("STOP", "load_stop"), ("CHANNEL", "load_channel")]

theorem C12_loaders : Generated.loaderTable = specLoaderTable := by decide

/-- the encoder dispatches on exactly these thirteen exact types -/
def specDispatchTable : List (String × String) :=
  [("type(None)", "save_NoneType"), ("bool", "save_bool"), ("bytes", "save_bytes"), ("str", "save_str"),
   ("int", "save_int"), ("float", "save_float"), ("complex", "save_complex"), ("list", "save_list"),
   ("dict", "save_dict"), ("tuple", "save_tuple"), ("set", "save_set"), ("frozenset", "save_frozenset"),
   ("Channel", "save_Channel")]

theorem C12_dispatch : Generated.dispatchTable = specDispatchTable := by decide

/-- the opcodes each save method may write (`save_long` is the unused Python-2 leftover) -/
def specSaveOpcodes : List (String × List String) :=
  [("save_NoneType", ["NONE"]), ("save_bool", ["TRUE", "FALSE"]), ("save_bytes", ["BYTES"]),
   ("save_str", ["PY3STRING"]), ("save_int", ["INT", "LONGINT"]), ("save_long", ["LONG", "LONGLONG"]),
   ("save_float", ["FLOAT"]), ("save_complex", ["COMPLEX"]), ("save_list", ["NEWLIST"]),
   ("save_dict", ["NEWDICT"]), ("save_tuple", ["BUILDTUPLE"]), ("save_set", ["SET"]),
   ("save_frozenset", ["FROZENSET"]), ("save_Channel", ["CHANNEL"])]

theorem C12_save_opcodes : Generated.saveOpcodes = specSaveOpcodes := by decide

/-! ### the format, shape by shape (for ALL values of each shape) -/

theorem C12_int_small (i : Int) (h : inI32 i) : enc (.int i) = opINT :: be4 (toU32 i) := by
  simp [enc, encInt, h, packI32]

theorem C12_int_big (i : Int) (h : ¬ inI32 i) :
    enc (.int i) = opLONGINT :: (be4 (intText i).length ++ intText i) := by
  simp [enc, encInt, h]

theorem C12_float (b : Nat) : enc (.float b) = opFLOAT :: be8 b := by simp [enc]
theorem C12_complex (r i : Nat) : enc (.complex r i) = opCOMPLEX :: (be8 r ++ be8 i) := by simp [enc]
theorem C12_bytes (b : Bytes) : enc (.bytes b) = opBYTES :: (be4 b.length ++ b) := by simp [enc]
theorem C12_str (s : String) :
    enc (.str s) = opPY3STRING :: (be4 (utf8Encode s).length ++ utf8Encode s) := by simp [enc]
theorem C12_none : enc .none = [opNONE] := by simp [enc]
theorem C12_bool (b : Bool) : enc (.bool b) = [if b then opTRUE else opFALSE] := by
  cases b <;> simp [enc]
/-- list: NEWLIST n, then per item: index, item, SETITEM -/
theorem C12_list (xs : List PyVal) :
    enc (.list xs) = opNEWLIST :: (be4 xs.length ++ encItems 0 xs) := by simp [enc]
theorem C12_list_item (i : Nat) (x : PyVal) (xs : List PyVal) :
    encItems i (x :: xs) = encInt i ++ (enc x ++ opSETITEM :: encItems (i + 1) xs) := by
  simp [encItems]
/-- dict: NEWDICT, then per pair: key, value, SETITEM (insertion order) -/
theorem C12_dict (kvs : List (PyVal × PyVal)) : enc (.dict kvs) = opNEWDICT :: encPairs kvs := by
  simp [enc]
theorem C12_dict_item (k v : PyVal) (kvs : List (PyVal × PyVal)) :
    encPairs ((k, v) :: kvs) = enc k ++ (enc v ++ opSETITEM :: encPairs kvs) := by simp [encPairs]
/-- tuple / set / frozenset: post-order — items first, then opcode, then the count -/
theorem C12_tuple (xs : List PyVal) :
    enc (.tuple xs) = encAll xs ++ opBUILDTUPLE :: be4 xs.length := by simp [enc]
theorem C12_set (xs : List PyVal) : enc (.set xs) = encAll xs ++ opSET :: be4 xs.length := by
  simp [enc]
theorem C12_frozenset (xs : List PyVal) :
    enc (.frozenset xs) = encAll xs ++ opFROZENSET :: be4 xs.length := by simp [enc]
/-- version byte first, STOP last -/
theorem C12_envelope (v : PyVal) (h : dumpErr v = none) :
    dumps v = .ok (dumpVersion :: (enc v ++ [opSTOP])) := by simp [dumps, h]

/-! ### legacy (Python 2) opcodes under the two coercion switches, for EVERY payload -/

/-- `'M'` (py2 str): latin-1 text iff `py2str_as_py3str`, else bytes -/
theorem C12_legacy_py2str (cfg : Cfg) (b rest : Bytes) (st : List PyVal) (h : b.length < two31) :
    step cfg opPY2STRING (be4 b.length ++ (b ++ rest)) st =
      .cont rest ((if cfg.py2str_as_py3str then .str (latin1Decode b) else .bytes b) :: st) := by
  rw [step_PY2STRING, rdBytes_enc _ _ h]
  split <;> rfl

/-- `'N'` (py3 str): bytes iff `py3str_as_py2str`, else UTF-8 text -/
theorem C12_legacy_py3str (cfg : Cfg) (s : String) (rest : Bytes) (st : List PyVal)
    (h : (utf8Encode s).length < two31) :
    step cfg opPY3STRING (be4 (utf8Encode s).length ++ (utf8Encode s ++ rest)) st =
      .cont rest ((if cfg.py3str_as_py2str then .bytes (utf8Encode s) else .str s) :: st) := by
  rw [step_PY3STRING, rdBytes_enc _ _ h]
  split
  · rfl
  · simp [utf8_roundtrip]

/-- `'S'` (py2 unicode): always UTF-8 text, whatever the switches -/
theorem C12_legacy_unicode (cfg : Cfg) (s : String) (rest : Bytes) (st : List PyVal)
    (h : (utf8Encode s).length < two31) :
    step cfg opUNICODE (be4 (utf8Encode s).length ++ (utf8Encode s ++ rest)) st =
      .cont rest (.str s :: st) := by
  rw [step_UNICODE, rdBytes_enc _ _ h]
  simp [utf8_roundtrip]

/-- `'G'` (py2 long, 4-byte) loads exactly like `'F'`, `'I'` (py2 long, text) exactly like `'H'` -/
theorem C12_legacy_long (cfg : Cfg) (rest : Bytes) (st : List PyVal) :
    step cfg opLONG rest st = step cfg opINT rest st ∧
    step cfg opLONGLONG rest st = step cfg opLONGINT rest st := ⟨rfl, rfl⟩

/-- a foreign version byte is rejected with DataFormatError -/
theorem C12_version (cfg : Cfg) (b : UInt8) (rest : Bytes) (h : b ≠ dumpVersion) :
    loads cfg (b :: rest) = .error .dataFormat := by
  simp [loads, h]

/-- with C01: anything a conforming writer produced for a well-formed value loads to that value -/
theorem C12_conforming_reader (v : PyVal) (h : WF v) :
    loads cfgPublic (dumpVersion :: (enc v ++ [opSTOP])) = .ok v := by
  simp only [loads, if_true]
  rw [run_enc cfgPublic rfl rfl v h [opSTOP] [], run_stop (step_STOP cfgPublic [] [v])]
  rfl

end ExecnetVerif
