#!/bin/sh
# Build the framework offline from files on disk only (Lean library, proofs, native model driver).
set -e
HERE="$(cd "$(dirname "$0")" && pwd)"
REPO="${EXECNET_REPO:-/repo}"
mkdir -p "$HERE/evidence" "$HERE/replays"
/venv/bin/python "$HERE/translator/extract.py" "$REPO" "$HERE/lean"
cd "$HERE/lean"
lake build driver
lake build ExecnetVerif || echo "setup: some proof modules did not build (each check reports its own obligations)"
