/-
L9 (C15) — what execnet ships to the other side, as tables, and the closure conditions over them.

The *tables* are not written here: `Generated/Shipped.lean` is regenerated from the source on every run
(`translator/extract_shipped.py`).  This file only fixes their shape, says what "self-contained" means
for such a table, and models the bootstrap path selection of `gateway_bootstrap.bootstrap` /
`Group.makegateway` as a function of the truthiness of six spec attributes.
-/
namespace ExecnetVerif.Bootstrap

/-- one `import a.b` / `from m import x, y` statement on the executed path of a shipped text -/
structure Import where
  /-- dotted module as written (`.x` for relative imports) -/
  module : String
  /-- first component (`execnet` for relative imports) -/
  root : String
  relative : Bool
  /-- names the statement binds -/
  bound : List String
  /-- names requested by `from m import …` (empty for `import m`) -/
  names : List String
  /-- qualified name of the enclosing def/class, "" at module level -/
  scope : String
  funcLevel : Bool
  /-- directly inside `try:` with a handler for ImportError -/
  guarded : Bool
  /-- inside such a handler -/
  fallback : Bool
  /-- execmodel backends whose class (only `get_execmodel` instantiates it) holds this import; [] = unconditional -/
  backends : List String
deriving Repr, DecidableEq

/-- what happens to the names of a guarded import when the import fails -/
structure Fallback where
  module : String
  names : List String
  /-- re-imported by `from __main__ import n` -/
  viaMain : List String
  /-- roots of other modules they are re-imported from -/
  viaOther : List String
  /-- plainly assigned in the handler (`fcntl = None`) -/
  assigned : List String
  /-- bound nowhere in the handler although used outside the try/else -/
  unprovided : List String
deriving Repr, DecidableEq

/-- one shipped text -/
structure SUnit where
  name : String
  imports : List Import
  fallbacks : List Fallback
  /-- (line, what, why) left out of `imports`: TYPE_CHECKING blocks and branches of another `__name__` -/
  excluded : List (Nat × String × String)
  /-- names bound at module level on the executed path -/
  defined : List String
  /-- global names read somewhere in the text and not bound by it -/
  freeGlobals : List String
deriving Repr

/-- one namespace: the units executed in it, in order -/
structure Sequence where
  name : String
  /-- the namespace is the `__main__` module of the process -/
  inMain : Bool
  /-- names the namespace holds before the first unit runs -/
  injected : List String
  /-- names it holds only on some paths (not relied upon) -/
  maybeInjected : List String
  units : List SUnit
deriving Repr

/-- the execmodels the property quantifies over ("execmodels available in the stdlib") -/
def stdlibExecmodels : List String := ["thread", "main_thread_only"]

/-- an import that runs for some stdlib execmodel (unconditional ones always do) -/
def Import.relevant (i : Import) : Prop := i.backends = [] ∨ ∃ b ∈ i.backends, b ∈ stdlibExecmodels

instance (i : Import) : Decidable i.relevant := by unfold Import.relevant; infer_instance

/-- names `from __main__ import n` finds on a worker bootstrapped through sequence `kind` -/
def mainProvides (seqs : List Sequence) (kind : String) : List String :=
  (seqs.filter fun q => q.name == kind && q.inMain).flatMap fun q => q.injected ++ q.units.flatMap (·.defined)

def FallbackOk (stdlib main : List String) (f : Fallback) : Prop :=
  f.unprovided = [] ∧ (∀ n ∈ f.viaMain, n ∈ main) ∧ ∀ m ∈ f.viaOther, m ∈ stdlib

instance (stdlib main : List String) (f : Fallback) : Decidable (FallbackOk stdlib main f) := by
  unfold FallbackOk; infer_instance

/-- the import needs nothing but the standard library and what earlier shipped text put into `__main__` -/
def ImportOk (stdlib main : List String) (u : SUnit) (i : Import) : Prop :=
  (i.relative = false ∧ i.root ∈ stdlib)
  ∨ (i.guarded = true ∧ ∃ f ∈ u.fallbacks, f.module = i.module ∧ f.names = i.bound ∧ FallbackOk stdlib main f)
  ∨ (i.fallback = true ∧ i.module = "__main__" ∧ ∀ n ∈ i.names, n ∈ main)

instance (stdlib main : List String) (u : SUnit) (i : Import) : Decidable (ImportOk stdlib main u i) := by
  unfold ImportOk; infer_instance

/-- every free global of `u` is bound by `u` itself, a builtin, or provided by `before` -/
def NamesOk (builtins before : List String) (u : SUnit) : Prop :=
  ∀ n ∈ u.freeGlobals, n ∈ u.defined ∨ n ∈ builtins ∨ n ∈ before

instance (builtins before : List String) (u : SUnit) : Decidable (NamesOk builtins before u) := by
  unfold NamesOk; infer_instance

/-- what the namespace of `q` holds when its `k`-th unit starts -/
def Sequence.before (q : Sequence) (k : Nat) : List String :=
  q.injected ++ (q.units.take k).flatMap (·.defined)

def UnitClosed (stdlib builtins main before : List String) (u : SUnit) : Prop :=
  (∀ i ∈ u.imports, i.relevant → ImportOk stdlib main u i) ∧ NamesOk builtins before u

instance (stdlib builtins main before : List String) (u : SUnit) :
    Decidable (UnitClosed stdlib builtins main before u) := by unfold UnitClosed; infer_instance

/-- first witness against closure, for the driver (same order as the tables) -/
def firstOpen (stdlib builtins main before : List String) (u : SUnit) : Option String :=
  match u.imports.find? fun i => decide i.relevant && !decide (ImportOk stdlib main u i) with
  | some i => some s!"import:{i.module}"
  | none =>
    match u.freeGlobals.find? fun n => !(u.defined.contains n || builtins.contains n || before.contains n) with
    | some n => some s!"name:{n}"
    | none => none

/-! ### path selection -/

inductive Cond
  | flag (name : String)
  | or (a b : Cond)
  | and (a b : Cond)
  | not (a : Cond)
deriving Repr, DecidableEq

inductive Sel
  | ite (c : Cond) (t e : Sel)
  | call (f : String)
  | raise (exc : String)
  | unknown (what : String)
deriving Repr, DecidableEq

/-- truthiness of the six spec attributes the selectors look at -/
structure Spec where
  popen : Bool
  via : Bool
  python : Bool
  ssh : Bool
  vagrant_ssh : Bool
  socket : Bool
deriving Repr, DecidableEq

def Spec.flag (s : Spec) : String → Option Bool
  | "popen" => some s.popen
  | "via" => some s.via
  | "python" => some s.python
  | "ssh" => some s.ssh
  | "vagrant_ssh" => some s.vagrant_ssh
  | "socket" => some s.socket
  | _ => none

def Cond.eval (s : Spec) : Cond → Option Bool
  | .flag n => s.flag n
  | .or a b => do let x ← a.eval s; let y ← b.eval s; pure (x || y)
  | .and a b => do let x ← a.eval s; let y ← b.eval s; pure (x && y)
  | .not a => do let x ← a.eval s; pure (!x)

/-- what the selector does for `s`: `.call f`, `.raise e`, or `.unknown` when the table has a part the
translator did not understand -/
def Sel.eval (s : Spec) : Sel → Sel
  | .ite c t e => match c.eval s with
    | some true => t.eval s
    | some false => e.eval s
    | none => .unknown "flag"
  | x => x

inductive Kind | «import» | exec | socket | error
deriving Repr, DecidableEq

/-- `gateway_bootstrap.bootstrap`, hand-modelled -/
def bootstrapKind (s : Spec) : Kind :=
  if s.popen then (if s.via || s.python then .exec else .import)
  else if s.ssh || s.vagrant_ssh then .exec
  else if s.socket then .socket
  else .error

def Kind.outcome : Kind → Sel
  | .import => .call "bootstrap_import"
  | .exec => .call "bootstrap_exec"
  | .socket => .call "bootstrap_socket"
  | .error => .raise "ValueError"

inductive IOKind | proxy | pipe | socket | assertion | error
deriving Repr, DecidableEq

/-- the IO object `Group.makegateway` creates, hand-modelled (`via=` together with a socket spec trips
an `assert`) -/
def ioKind (s : Spec) : IOKind :=
  if s.via then (if s.socket then .assertion else .proxy)
  else if s.popen || s.ssh || s.vagrant_ssh then .pipe
  else if s.socket then .socket
  else .error

def IOKind.outcome : IOKind → Sel
  | .proxy => .call "gateway_io.ProxyIO"
  | .pipe => .call "gateway_io.create_io"
  | .socket => .call "gateway_socket.create_io"
  | .assertion => .raise "AssertionError"
  | .error => .raise "ValueError"

def bools : List Bool := [false, true]

/-- all 64 specs -/
def Spec.all : List Spec :=
  bools.flatMap fun a => bools.flatMap fun b => bools.flatMap fun c => bools.flatMap fun d =>
    bools.flatMap fun e => bools.map fun f => ⟨a, b, c, d, e, f⟩

theorem Spec.mem_all (s : Spec) : s ∈ Spec.all := by
  obtain ⟨a, b, c, d, e, f⟩ := s
  cases a <;> cases b <;> cases c <;> cases d <;> cases e <;> cases f <;> decide

/-- last line of a bootstrap text -/
structure Tail where
  kind : String
  callee : String
  /-- first argument with `io` resolved through the preceding lines -/
  io : String
  idTemplate : String
  /-- right-hand side of `execmodel = …` -/
  execmodel : String
  /-- module whose source text is sent (exec/socket) -/
  shippedModule : String
  /-- module the names are imported from (import bootstrap) -/
  importedFrom : String
deriving Repr, DecidableEq

end ExecnetVerif.Bootstrap
