/-
C17 — RSync makes every target tree equal to the source, minimally.
Property theorems only (helper lemmas live in Proofs/Rsync*.lean, Proofs/PathLemmas.lean).

Model: `Model/Rsync.lean` (sender stream, receiver recursion with its decision table, content phase,
link phase, per-channel state machine) — all theorems are for ALL trees (structural induction over the
nested tree type; no bound on size, depth, names or the prior target state).

Forced hypotheses, stated explicitly:
* `wfTree src`: every directory of the source lists each name once and every listed entry exists
  (is a regular file, a directory or a symlink). Real directories always satisfy this; relative paths are
  component lists in the model, so "names are single path components" is built into the types.
* `quickCheckSound src tgt`: a prior target file with the same size and the same `st_mtime` as the
  source file at the same path has the same content. The receiver skips such a file unseen (rsync's
  quick check), so without it `C17_equal` is false — known finding D19, not assumed silently.
Stated assumption of the model: md5 equality is content equality (`Blob` identity).
-/
import ExecnetVerif.Proofs.RsyncMore
import ExecnetVerif.Generated.RsyncTables
namespace ExecnetVerif
open ExecnetVerif.Rsync ExecnetVerif.Path

/-- **C17 (equal).** After `RSync.send()` the target tree is exactly the tree the property demands
(`expect`): every source file with the source's content, permission bits and mtime; every directory
with the source's entries and its mode (owner-rwx forced on); every symlink with the same target string,
or — for an absolute target strictly inside the source tree — the corresponding place below the
destination; with `delete` nothing else, without it every unlisted prior entry untouched. For **any**
prior target tree, including entries of another kind at any position and a missing / non-directory
root. -/
theorem C17_equal (sd : Sender) (src : Tree) (tg : Target)
    (hw : wfTree src) (hq : quickCheckSound src tg.tree) :
    (sync sd src tg).tree = expect sd.sourcedir tg.destdir tg.delete src tg.tree :=
  (sync_eq_expect sd src tg hw hq).1

/-- **C17 (minimal).** Content travels (`_report_send_file`) exactly for the source files that have
no prior target file of the same size with the same mtime or the same content — in particular never for
a file whose content the target already has. -/
theorem C17_minimal (sd : Sender) (src : Tree) (tg : Target)
    (hw : wfTree src) (hq : quickCheckSound src tg.tree) :
    (sync sd src tg).sent = expectSent src tg.tree :=
  (sync_eq_expect sd src tg hw hq).2

/-- **C17 (complete, reading of `expect`).** Whatever exists at a path of the source exists at that path
of the target afterwards: a file as the very same file (content, bits, mtime), a link as the expected
link. -/
theorem C17_complete (sd : Sender) (src : Tree) (tg : Target)
    (hw : wfTree src) (hq : quickCheckSound src tg.tree) (p : List Name) :
    (∀ b m t, getPath p src = .file b m t → getPath p (sync sd src tg).tree = .file b m t) ∧
    (∀ l, getPath p src = .link l →
      getPath p (sync sd src tg).tree = .link (expectLink sd.sourcedir tg.destdir l)) := by
  rw [C17_equal sd src tg hw hq]
  have key : ∀ (p : List Name) (src tgt : Tree) (s : Tree), getPath p src = s → s ≠ .absent →
      getPath p (expect sd.sourcedir tg.destdir tg.delete src tgt) =
        expect sd.sourcedir tg.destdir tg.delete s (getPath p tgt) := by
    intro p
    induction p with
    | nil => intro src tgt s h _; simp only [getPath] at h; subst h; rfl
    | cons n q ih =>
      intro src tgt s h hs
      cases src with
      | file b m t => simp only [getPath] at h; exact absurd h.symm hs
      | link l => simp only [getPath] at h; exact absurd h.symm hs
      | absent => simp only [getPath] at h; exact absurd h.symm hs
      | dir m es =>
        simp only [getPath] at h
        by_cases hn : n ∈ es.map Prod.fst
        · rw [getPath_cons, lookup_expect_dir]
          simp only [hn, if_true]
          rw [ih (lookup n es) _ s h hs, ← getPath_cons]
        · rw [lookup_of_not_mem (by simpa [names] using hn), getPath_absent] at h
          exact absurd h.symm hs
  constructor
  · intro b m t h
    rw [key p src tg.tree _ h (by simp)]; simp [expect]
  · intro l h
    rw [key p src tg.tree _ h (by simp)]; simp [expect]

/-- **C17 (idempotent).** Re-syncing the unchanged source onto the result transfers no file content
and changes nothing. -/
theorem C17_idempotent (sd : Sender) (src : Tree) (tg : Target)
    (hw : wfTree src) (hq : quickCheckSound src tg.tree) :
    (sync sd src { tg with tree := (sync sd src tg).tree }).tree = (sync sd src tg).tree ∧
    (sync sd src { tg with tree := (sync sd src tg).tree }).sent = [] := by
  have h1 := C17_equal sd src tg hw hq
  have hf := expect_fixed sd.sourcedir tg.destdir tg.delete src hw tg.tree
  have h2 := sync_eq_expect sd src { tg with tree := (sync sd src tg).tree } hw (by rw [h1]; exact hf.1)
  simp only at h2
  rw [h2.1, h2.2, h1]
  exact ⟨hf.2.2, hf.2.1⟩

/-- **C17 (cwd-independent).** After the D14 fix the result does not depend on the working directory
of the calling process (the model of the fixed sender never reads it). -/
theorem C17_cwd_independent (sourcedir cwd₁ cwd₂ : RawPath) (src : Tree) (tg : Target) :
    sync ⟨sourcedir, cwd₁⟩ src tg = sync ⟨sourcedir, cwd₂⟩ src tg := rfl

/-- what a link at `p` points at -/
def linkAt (p : List Name) (t : Tree) : Option RawPath :=
  match getPath p t with
  | .link x => some x
  | _ => none

/-- source `/s` with `f1`, `rel -> f1`, `abs -> /s/f1`, synced to the missing `/d` -/
def c17Links : Tree :=
  .dir 0o755 [("f1", .file ⟨1, 7⟩ 0o644 100), ("rel", .link ["f1"]), ("abs", .link ["", "s", "f1"])]

/-- **pinned tree (D14).** With the pre-fix classification (`os.path.relpath` resolving a relative
target against the caller's cwd) the relative link `rel -> f1` stays relative when `send()` is called
from `/` and becomes the absolute `/d/f1` when it is called from the source directory; the fixed model
gives `f1` from both (and re-bases only the absolute in-tree link). -/
theorem C17_pinned_cwd_counterexample :
    linkAt ["rel"] (syncOld ⟨["", "s"], ["", ""]⟩ c17Links ⟨["", "d"], false, .absent⟩).tree = some ["f1"] ∧
    linkAt ["rel"] (syncOld ⟨["", "s"], ["", "s"]⟩ c17Links ⟨["", "d"], false, .absent⟩).tree = some ["", "d", "f1"] ∧
    linkAt ["rel"] (sync ⟨["", "s"], ["", "s"]⟩ c17Links ⟨["", "d"], false, .absent⟩).tree = some ["f1"] ∧
    linkAt ["abs"] (sync ⟨["", "s"], ["", "s"]⟩ c17Links ⟨["", "d"], false, .absent⟩).tree = some ["", "d", "f1"] := by
  decide

/-- **C17 (multi).** Several targets are each complete and independent: whatever the order in which
the sender's main loop serves the channels' requests (`sched`), every target ends exactly as if it had
been synced alone (each with its own destination directory, `delete` flag and prior state). -/
theorem C17_multi (sd : Sender) (src : Tree) (tgs : List Target) (sched : List Nat) :
    syncAll sd src tgs sched = tgs.map (sync sd src) := by
  unfold syncAll
  simp only []
  rw [map_finishT_sched, List.map_map]
  rfl

/-- **C17 (delete).** With `delete=True` nothing else remains: every path that exists at the target
afterwards exists in the source. -/
theorem C17_delete (sd : Sender) (src : Tree) (tg : Target)
    (hw : wfTree src) (hq : quickCheckSound src tg.tree) (hd : tg.delete = true) (p : List Name) :
    getPath p (sync sd src tg).tree ≠ .absent → getPath p src ≠ .absent := by
  rw [C17_equal sd src tg hw hq, hd]
  exact expect_delete_subset sd.sourcedir tg.destdir p src tg.tree hw

/-- **C17 (no delete).** Without `delete` unrelated entries are untouched: if `q` is a directory of the
source that does not list `n`, then what was at `q/n` of the target before (the whole subtree, or
nothing) is there afterwards. -/
theorem C17_nodelete (sd : Sender) (src : Tree) (tg : Target)
    (hw : wfTree src) (hq : quickCheckSound src tg.tree) (hd : tg.delete = false)
    (q : List Name) (n : Name) (m : Nat) (es : List (Name × Tree))
    (hdir : getPath q src = .dir m es) (hn : n ∉ es.map Prod.fst) :
    getPath (q ++ [n]) (sync sd src tg).tree = getPath (q ++ [n]) tg.tree := by
  rw [C17_equal sd src tg hw hq, hd]
  exact expect_nodelete_untouched sd.sourcedir tg.destdir n q src tg.tree m es hdir hn

/-- **known finding D19 is exactly the missing hypothesis**: a prior file with the size and mtime of the
source file but other content is left as it is (so `C17_equal` without `quickCheckSound` is false). -/
theorem C17_quickcheck_counterexample :
    (sync ⟨["", "s"], ["", ""]⟩ (.dir 0o755 [("f", .file ⟨4, 1⟩ 0o644 100)])
      ⟨["", "d"], false, .dir 0o755 [("f", .file ⟨4, 2⟩ 0o644 100)]⟩).sent = [] ∧
    (match getPath ["f"] (sync ⟨["", "s"], ["", ""]⟩ (.dir 0o755 [("f", .file ⟨4, 1⟩ 0o644 100)])
      ⟨["", "d"], false, .dir 0o755 [("f", .file ⟨4, 2⟩ 0o644 100)]⟩).tree with
     | .file b _ _ => b.id
     | _ => 0) = 2 := by
  decide

/-- the constants of the real protocol the model restates (regenerated from the source on every run):
only the directory `chmod` forces owner-rwx (D13), the decision chain tests size, then mtime, then mode,
the message tags and the end marker agree on both sides, the file message is (mode, mtime, size), and
`relpath` is applied to absolute link targets only (D14) -/
theorem C17_generated_pins :
    Generated.rsyncChmodMasks = [0o700, 0, 0] ∧
    Generated.rsyncDecisionChain = ["st_size", "st_mtime", "st_mode"] ∧
    Generated.rsyncRequestTags = ["send", "list_done", "ack", "links", "done"] ∧
    Generated.rsyncDispatchTags = ["links", "done", "ack", "list_done", "send"] ∧
    Generated.rsyncLinkMarkers = [42, 42] ∧
    Generated.rsyncFileMsg = ["st_mode", "st_mtime", "st_size"] ∧
    Generated.rsyncRelpathOnlyForAbsolute = true := by
  decide

/-! ### non-vacuity: concrete non-trivial states meet the hypotheses, and the theorems say something -/

/-- a source with a nested directory, files and the three kinds of links -/
def c17Src : Tree :=
  .dir 0o555 [("a", .file ⟨3, 11⟩ 0o444 1700000000),
              ("sub", .dir 0o755 [("b", .file ⟨0, 12⟩ 0o600 5), ("up", .link ["..", "a"])]),
              ("abs", .link ["", "s", "sub", "b"]), ("out", .link ["", "etc", "passwd"])]

/-- a prior target with a stale file, an entry of another kind and unrelated entries -/
def c17Tgt : Tree :=
  .dir 0o700 [("a", .file ⟨3, 99⟩ 0o644 1600000000), ("sub", .link ["a"]),
              ("extra", .dir 0o755 [("x", .file ⟨1, 5⟩ 0o644 7)]), ("abs", .dir 0o755 [])]

example : wfTree c17Src ∧ quickCheckSound c17Src c17Tgt := by
  simp [c17Src, c17Tgt, wfTree, wfTreeL, quickCheckSound, quickCheckSoundL, entriesOf, lookup]

example : (sync ⟨["", "s"], ["", "x"]⟩ c17Src ⟨["", "d"], false, c17Tgt⟩).sent = [["a"], ["sub", "b"]] := by decide
example : linkAt ["abs"] (sync ⟨["", "s"], ["", "x"]⟩ c17Src ⟨["", "d"], true, c17Tgt⟩).tree = some ["", "d", "sub", "b"] := by
  decide
example : linkAt ["sub", "up"] (sync ⟨["", "s"], ["", "x"]⟩ c17Src ⟨["", "d"], true, c17Tgt⟩).tree = some ["..", "a"] := by
  decide
/-- `extra` survives without delete and is gone with it -/
example : (getPath ["extra", "x"] (sync ⟨["", "s"], ["", "x"]⟩ c17Src ⟨["", "d"], false, c17Tgt⟩).tree matches .file _ _ _) = true ∧
    (getPath ["extra"] (sync ⟨["", "s"], ["", "x"]⟩ c17Src ⟨["", "d"], true, c17Tgt⟩).tree matches .absent) = true := by
  decide
/-- three targets served in an interleaved order -/
example : (syncAll ⟨["", "s"], ["", "x"]⟩ c17Src
    [⟨["", "d1"], false, c17Tgt⟩, ⟨["", "d2"], true, .absent⟩, ⟨["", "d3"], true, .file ⟨1, 1⟩ 0o644 1⟩] [2, 0, 1, 1, 0, 2, 2, 1]).map (·.sent.length)
    = [2, 2, 2] := by decide

end ExecnetVerif
